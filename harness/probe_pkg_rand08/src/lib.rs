// empty: only the dependencies matter
