//! C11 — Montgomery multiplication and squaring (DESIGN 4, C11).

use proptest::prelude::*;
use ruint::Uint;
use vcore::big::*;
use vcore::gen::*;
use vcore::*;

/// -m^-1 mod 2^64 by the harness's own Newton iteration (m odd).
fn neg_inv64(m0: u64) -> u64 {
    let mut x: u64 = 1;
    for _ in 0..7 {
        x = x.wrapping_mul(2u64.wrapping_sub(m0.wrapping_mul(x)));
    }
    debug_assert_eq!(m0.wrapping_mul(x), 1);
    x.wrapping_neg()
}

fn top_limb() -> BoxedStrategy<u64> {
    prop_oneof![
        2 => Just(0u64),
        1 => Just(1u64),
        1 => Just((1u64 << 62) - 2),
        2 => Just((1u64 << 62) - 1),
        1 => Just(1u64 << 62),
        1 => Just((1u64 << 62) + 1),
        1 => Just((1u64 << 63) - 2),
        2 => Just((1u64 << 63) - 1),
        1 => Just(1u64 << 63),
        1 => Just((1u64 << 63) + 1),
        2 => Just(u64::MAX),
        1 => Just(u64::MAX - 1),
        4 => limb(),
        // dense coverage between the two carry thresholds (the square path's true
        // limit lies near 2^62.5)
        3 => any::<u64>().prop_map(|x| (1u64 << 62) + (x >> 2)),
        2 => (0u64..1 << 20, any::<bool>()).prop_map(|(d, up)| if up { 0x5A82_7999_FCEF_3242u64 + d } else { 0x5A82_7999_FCEF_3242u64 - d }),
        // 3m = 2^(64N): the exact point where the square path's intermediate can carry out
        4 => (0u64..4, any::<bool>()).prop_map(|(d, up)| if up { u64::MAX / 3 + d } else { u64::MAX / 3 - d }),
        1 => (0u64..4, any::<bool>()).prop_map(|(d, up)| if up { u64::MAX / 3 * 2 + d } else { u64::MAX / 3 * 2 - d }),
    ]
    .boxed()
}

/// odd modulus >= 3 below 2^bits, laid out in n limbs
fn modulus(n: usize, bits: usize) -> BoxedStrategy<Vec<u64>> {
    (limbs(n), top_limb(), 0u8..8)
        .prop_map(move |(mut v, top, low)| {
            // low limbs: as drawn (0..4), all ones (4..6), all ones above a lowest limb of 1 (6),
            // all ones above a drawn lowest limb (7)
            if low >= 4 {
                let v0 = v[0];
                v.iter_mut().for_each(|x| *x = u64::MAX);
                match low {
                    6 => v[0] = 1,
                    7 => v[0] = v0,
                    _ => {}
                }
            }
            v[n - 1] = top;
            let mut v = mask_vec(v, bits);
            v[0] |= 1;
            if v.iter().skip(1).all(|x| *x == 0) && v[0] < 3 {
                v[0] = 3;
            }
            mask_vec(v, bits)
        })
        .boxed()
}

fn place(kind: u8, raw: &[u64], m: &BigUint, n: usize) -> Vec<u64> {
    let r = pow2(64 * n);
    let v = match kind {
        0 => BigUint::zero(),
        1 => BigUint::one(),
        2 => BigUint::from(2u32) % m,
        3 => m - 1u32,
        4 => m - 2u32,
        5 => (m + 1u32) >> 1,
        6 => (m - 1u32) >> 1,
        7 => &r % m,
        8 => (&r * &r) % m,
        _ => big(raw) % m,
    };
    limbs_of(&v, n)
}

fn strat(n: usize, bits: usize) -> BoxedStrategy<Case> {
    (modulus(n, bits), 0u8..14, limbs(n), 0u8..14, limbs(n))
        .prop_map(move |(m, ka, ra, kb, rb)| {
            let mb = big(&m);
            let a = place(ka, &ra, &mb, n);
            let b = place(kb, &rb, &mb, n);
            Case::new().l(a).l(b).l(m)
        })
        .boxed()
}

fn verify(rec: &mut Rec, check: &str, r: &[u64], prod: &BigUint, mb: &BigUint, n: usize) -> R {
    let rb = big(r);
    rec.eval(2);
    if &rb >= mb {
        rec.fail(check, "not_reduced", format!("result {} >= modulus {}", hex(&rb), hex(mb)))?;
    }
    // r * 2^(64 n) = a*b (mod m)   <=>   r = a*b*R^-1 mod m
    if (&rb << (64 * n)) % mb != prod % mb {
        rec.fail(check, "wrong_residue", format!("result {} with modulus {} product {}", hex(&rb), hex(mb), hex(prod)))?;
    }
    Ok(())
}

fn classes(rec: &mut Rec, c: &Case, n: usize) -> (BigUint, BigUint, BigUint) {
    let (ab, bb, mb) = (big(&c.l[0]), big(&c.l[1]), big(&c.l[2]));
    let top = c.l[2][n - 1];
    rec.class(if top == 0 { "m_top=0(short modulus)" } else if top < (1 << 62) - 1 { "m_top<2^62-1" } else if top < (1 << 63) - 1 { "m_top in [2^62-1,2^63-1)" } else { "m_top>=2^63-1" });
    rec.class_if(top == (1 << 62) - 1 || top == (1 << 62) - 2 || top == (1 << 63) - 1 || top == (1 << 63) - 2, "m_top_at_threshold");
    if !ab.is_zero() && !bb.is_zero() && &ab * &bb >= mb {
        rec.nontrivial(&(&c.l[0], &c.l[1], &c.l[2]));
    }
    (ab, bb, mb)
}

/// slice-level functions `algorithms::{mul_redc, square_redc}::<N>`
fn body_alg<const B: usize, const N: usize>(c: &Case, rec: &mut Rec) -> R {
    let (ab, bb, mb) = classes(rec, c, N);
    rec.sample(|| json!({"N": N, "a": hex(&ab), "b": hex(&bb), "m": hex(&mb)}));
    let a: [u64; N] = c.l[0].clone().try_into().unwrap();
    let b: [u64; N] = c.l[1].clone().try_into().unwrap();
    let m: [u64; N] = c.l[2].clone().try_into().unwrap();
    let inv = neg_inv64(m[0]);
    let r = rec.no_panic("algorithms::mul_redc", catch(|| ruint::algorithms::mul_redc(a, b, m, inv)))?;
    verify(rec, "algorithms::mul_redc", &r, &(&ab * &bb), &mb, N)?;
    let r = rec.no_panic("algorithms::mul_redc", catch(|| ruint::algorithms::mul_redc(b, a, m, inv)))?;
    verify(rec, "algorithms::mul_redc", &r, &(&ab * &bb), &mb, N)?;
    let r = rec.no_panic("algorithms::square_redc", catch(|| ruint::algorithms::square_redc(a, m, inv)))?;
    verify(rec, "algorithms::square_redc", &r, &(&ab * &ab), &mb, N)?;
    let r = rec.no_panic("algorithms::square_redc", catch(|| ruint::algorithms::square_redc(b, m, inv)))?;
    verify(rec, "algorithms::square_redc", &r, &(&bb * &bb), &mb, N)?;
    Ok(())
}

/// `Uint::{mul_redc, square_redc}` (R = 2^(64*LIMBS), also for non-aligned widths)
fn body_uint<const B: usize, const L: usize>(c: &Case, rec: &mut Rec) -> R {
    let (ab, bb, mb) = classes(rec, c, L);
    rec.sample(|| json!({"BITS": B, "a": hex(&ab), "b": hex(&bb), "m": hex(&mb)}));
    let a: Uint<B, L> = mk(&c.l[0]);
    let b: Uint<B, L> = mk(&c.l[1]);
    let m: Uint<B, L> = mk(&c.l[2]);
    let inv = neg_inv64(m.as_limbs()[0]);
    let r = rec.no_panic("Uint::mul_redc", catch(|| a.mul_redc(b, m, inv)))?;
    verify(rec, "Uint::mul_redc", r.as_limbs(), &(&ab * &bb), &mb, L)?;
    let r = rec.no_panic("Uint::square_redc", catch(|| a.square_redc(m, inv)))?;
    verify(rec, "Uint::square_redc", r.as_limbs(), &(&ab * &ab), &mb, L)?;
    let r = rec.no_panic("Uint::square_redc", catch(|| b.square_redc(m, inv)))?;
    verify(rec, "Uint::square_redc", r.as_limbs(), &(&bb * &bb), &mb, L)?;
    Ok(())
}

/// Complete enumeration over a small limb alphabet: every modulus with the given top limb and
/// alphabet limbs below (lowest limb odd), every a < m from the alphabet, b in {a, m - 1, a with
/// its limbs reversed}. Carry words that are exactly 0 / u64::MAX in several positions at once
/// (several exact coincidences) only occur for such operands.
fn enum_alphabet(n: usize, alpha: &'static [u64], top: u64, f: &mut dyn FnMut(&Case) -> R) -> R {
    let k = alpha.len();
    let count = |len: usize| (k as u64).pow(len as u32);
    let word = |mut idx: u64, len: usize| -> Vec<u64> {
        let mut v = Vec::with_capacity(len);
        for _ in 0..len {
            v.push(alpha[(idx % k as u64) as usize]);
            idx /= k as u64;
        }
        v
    };
    for mi in 0..count(n - 1) {
        let mut m = word(mi, n - 1);
        m.push(top);
        if m[0] & 1 == 0 {
            continue;
        }
        let mb = big(&m);
        if mb < BigUint::from(3u32) {
            continue;
        }
        let m1 = limbs_of(&(&mb - 1u32), n);
        for ai in 0..count(n) {
            let a = word(ai, n);
            if big(&a) >= mb {
                continue;
            }
            let mut rev = a.clone();
            rev.reverse();
            f(&Case::new().l(a.clone()).l(a.clone()).l(m.clone()))?;
            f(&Case::new().l(a.clone()).l(m1.clone()).l(m.clone()))?;
            if big(&rev) < mb && rev != a {
                f(&Case::new().l(a).l(rev).l(m.clone()))?;
            }
        }
    }
    Ok(())
}

const A8: &[u64] = &[0, 1, 2, (1 << 63) - 1, 1 << 63, (1 << 63) + 1, u64::MAX - 1, u64::MAX];
const A5: &[u64] = &[0, 1, 1 << 63, u64::MAX - 1, u64::MAX];
const A4: &[u64] = &[1, 1 << 63, u64::MAX - 1, u64::MAX];

macro_rules! reg_alphabet {
    ($jobs:expr, $n:literal, $alpha:expr, [$($top:expr),*]) => {
        $( $jobs.enumerate("redc_limb_alphabet", 64 * $n, move |f| enum_alphabet($n, $alpha, $top, f), body_alg::<{ 64 * $n }, $n>); )*
    };
}

macro_rules! reg_alg {
    ($jobs:expr, $cases:expr; [$($n:literal),*]) => {
        $( $jobs.gen("algorithms_redc", 64 * $n, $cases, move || strat($n, 64 * $n), body_alg::<{ 64 * $n }, $n>); )*
    };
}
macro_rules! reg_uint {
    ($jobs:expr, $cases:expr; [$($b:literal),*]) => {
        $( $jobs.gen("uint_redc", $b, $cases, move || strat(ruint::nlimbs($b), $b), body_uint::<$b, { ruint::nlimbs($b) }>); )*
    };
}

fn main() {
    for m0 in [1u64, 3, 5, u64::MAX, 0x1234_5678_9abc_def1] {
        if neg_inv64(m0).wrapping_mul(m0) != u64::MAX {
            harness_error("neg_inv64 self-test failed");
        }
    }
    let spec = PropSpec {
        id: "C11",
        rule_text: "tuples (a, b, m) for every limb count N = 1..16 and N = 17, 24, 32, 33, 40 (slice-level functions) and for 18 widths with LIMBS 1..9, aligned and not (Uint methods): m odd >= 3 with top limb from {0 (short modulus), 1, 2^62-2, 2^62-1, 2^62, 2^62+1, 2^63-2, 2^63-1, 2^63, 2^63+1, u64::MAX-1, u64::MAX, floor(2^64/3)+-{0..3}, 2*floor(2^64/3)+-{0..3}, dense in [2^62,2^63), alphabet} and low limbs that are drawn from the alphabet, all ones, or all ones above a lowest limb of 1 / a drawn lowest limb; a, b from {0, 1, 2, m-1, m-2, (m+-1)/2, R mod m, R^2 mod m, alphabet mod m}; inv = -m^-1 mod 2^64 from the harness's own Newton iteration; complete enumerations over limb alphabets (rule redc_limb_alphabet: N = 2, 3 over {0,1,2,2^63-1,2^63,2^63+1,MAX-1,MAX}, N = 4 over {0,1,2^63,MAX-1,MAX}, N = 5 over {1,2^63,MAX-1,MAX}; all moduli with 6-8 top limbs, every a < m, b in {a, m-1, reversed a}). Oracle: result < m and result * 2^(64N) = a*b (mod m) in num-bigint. Non-trivial: a, b != 0 and a*b >= m; hook counters report extra-carry / final-subtraction paths. Distinct by inputs.",
        assumptions: vec![
            "num-bigint arithmetic is correct (oracle)",
            "inputs satisfy the documented preconditions a, b < m, m odd, inv = -m^-1 mod 2^64",
        ],
        thorough_mult: 40,
    };
    main_with(
        spec,
        |jobs, _| {
            reg_alg!(jobs, 10000; [1, 2, 3, 4, 5, 6, 7, 8, 9, 10, 11, 12, 13, 14, 15, 16]);
            reg_alg!(jobs, 1500; [17, 24, 32, 33, 40]);
            reg_uint!(jobs, 6000; [2, 7, 63, 64, 65, 127, 128, 129, 190, 192, 255, 256, 257, 320, 384, 512, 535, 1024]);
            reg_alphabet!(jobs, 2, A8, [1, (1u64 << 62) - 1, 1u64 << 62, (1u64 << 63) - 1, 1u64 << 63, u64::MAX / 3, u64::MAX - 1, u64::MAX]);
            reg_alphabet!(jobs, 3, A8, [1, (1u64 << 62) - 1, 1u64 << 62, (1u64 << 63) - 1, 1u64 << 63, u64::MAX / 3, u64::MAX - 1, u64::MAX]);
            reg_alphabet!(jobs, 4, A5, [(1u64 << 62) - 1, (1u64 << 63) - 1, 1u64 << 63, u64::MAX / 3, u64::MAX - 1, u64::MAX]);
            reg_alphabet!(jobs, 5, A4, [(1u64 << 63) - 1, 1u64 << 63, u64::MAX - 1, u64::MAX]);
        },
        |_| Map::new(),
    );
}
