//! E3 — generated programs compiled against the working tree (DESIGN 2.1).
//!
//! `ProbeEnv::prepare` builds ruint (+ ruint-macro and the generator crates) once
//! per tree state through the tiny cargo package `probe_pkg`, then single source
//! files are compiled with plain `rustc --emit=link` (post-monomorphisation const
//! panics only fire when linking) and the resulting executables are run.

use serde_json::Value;
use std::collections::BTreeMap;
use std::path::{Path, PathBuf};
use std::process::{Command, Stdio};
use std::sync::atomic::{AtomicUsize, Ordering};
use std::sync::Mutex;

pub struct ProbeEnv {
    pub deps_dir: PathBuf,
    pub externs: BTreeMap<String, PathBuf>,
    pub work: PathBuf,
}

#[derive(Debug, Clone)]
pub struct Diag {
    pub level: String,
    pub message: String,
    /// 1-based line numbers of all primary spans in the probe source
    pub lines: Vec<usize>,
}

#[derive(Debug, Clone)]
pub struct Compiled {
    pub ok: bool,
    pub diags: Vec<Diag>,
    pub exe: PathBuf,
    pub src: PathBuf,
}

impl Compiled {
    pub fn error_lines(&self) -> Vec<usize> {
        let mut v: Vec<usize> = self.diags.iter().filter(|d| d.level == "error").flat_map(|d| d.lines.clone()).collect();
        v.sort();
        v.dedup();
        v
    }
    pub fn errors(&self) -> Vec<String> {
        self.diags.iter().filter(|d| d.level == "error").map(|d| d.message.clone()).collect()
    }
}

#[derive(Debug, Clone)]
pub struct RunOut {
    pub status: Option<i32>,
    pub stdout: String,
    pub stderr: String,
}

impl ProbeEnv {
    /// Build the probe package (offline) and locate the rlibs. Any failure here is a
    /// harness problem (exit 2), never a violation.
    pub fn prepare(harness_dir: &Path, work_name: &str) -> Result<ProbeEnv, String> {
        Self::prepare_pkg(harness_dir, "probe_pkg", work_name, &["ruint", "proptest", "arbitrary", "quickcheck", "rand_08", "rand_09", "num_traits"])
    }

    /// The same for another package directory next to `probe_pkg` (another feature configuration
    /// of ruint); `required` names the externs that must be found.
    pub fn prepare_pkg(harness_dir: &Path, pkg_name: &str, work_name: &str, required: &[&str]) -> Result<ProbeEnv, String> {
        let pkg = harness_dir.join(pkg_name);
        let out = Command::new("cargo")
            .args(["build", "--message-format=json"])
            .current_dir(&pkg)
            .env("CARGO_NET_OFFLINE", "true")
            .stdin(Stdio::null())
            .output()
            .map_err(|e| format!("cannot run cargo: {e}"))?;
        if !out.status.success() {
            let err = String::from_utf8_lossy(&out.stderr);
            return Err(format!("{pkg_name} build failed: {}", &err[err.len().saturating_sub(3000)..]));
        }
        let mut externs = BTreeMap::new();
        let mut deps_dir = None;
        for line in String::from_utf8_lossy(&out.stdout).lines() {
            let Ok(m) = serde_json::from_str::<Value>(line) else { continue };
            if m["reason"] != "compiler-artifact" {
                continue;
            }
            let name = m["target"]["name"].as_str().unwrap_or("").to_string();
            let pkgid = m["package_id"].as_str().unwrap_or("");
            let file = m["filenames"].as_array().and_then(|a| {
                a.iter().filter_map(|x| x.as_str()).find(|f| f.ends_with(".rlib") || f.ends_with(".so"))
            });
            let Some(file) = file else { continue };
            let key = match name.as_str() {
                "ruint" => "ruint",
                "proptest" => "proptest",
                "arbitrary" => "arbitrary",
                "quickcheck" => "quickcheck",
                "num_traits" | "num-traits" => "num_traits",
                "rand" if pkgid.contains("rand@0.8") => "rand_08",
                "rand" if pkgid.contains("rand@0.9") => "rand_09",
                _ => continue,
            };
            let p = PathBuf::from(file);
            if key == "ruint" {
                deps_dir = p.parent().map(|x| x.to_path_buf());
            }
            externs.insert(key.to_string(), p);
        }
        let deps_dir = deps_dir.ok_or("ruint rlib not found in cargo output")?;
        for k in required {
            if !externs.contains_key(*k) {
                return Err(format!("extern {k} not found in cargo output"));
            }
        }
        let work = deps_dir.parent().unwrap().join("probe_work").join(work_name);
        let _ = std::fs::remove_dir_all(&work);
        std::fs::create_dir_all(&work).map_err(|e| format!("mkdir {}: {e}", work.display()))?;
        Ok(ProbeEnv { deps_dir, externs, work })
    }

    /// Compile one program. `name` must be unique within this ProbeEnv.
    pub fn compile(&self, name: &str, src: &str) -> Compiled {
        let srcp = self.work.join(format!("{name}.rs"));
        let exe = self.work.join(name);
        std::fs::write(&srcp, src).expect("write probe source");
        let mut cmd = Command::new("rustc");
        cmd.args(["--edition", "2021", "--emit=link", "-C", "debuginfo=0", "-C", "opt-level=0", "--error-format=json", "--cap-lints", "allow", "--crate-name", "probe"])
            .arg("-L")
            .arg(format!("dependency={}", self.deps_dir.display()));
        for (k, p) in &self.externs {
            cmd.arg("--extern").arg(format!("{k}={}", p.display()));
        }
        cmd.arg("-o").arg(&exe).arg(&srcp).stdin(Stdio::null());
        let out = cmd.output().expect("run rustc");
        let mut diags = vec![];
        for line in String::from_utf8_lossy(&out.stderr).lines() {
            let Ok(m) = serde_json::from_str::<Value>(line) else { continue };
            let level = m["level"].as_str().unwrap_or("").to_string();
            if level != "error" && level != "warning" {
                continue;
            }
            let mut lines = vec![];
            collect_lines(&m, &mut lines);
            diags.push(Diag { level, message: m["message"].as_str().unwrap_or("").to_string(), lines });
        }
        Compiled { ok: out.status.success() && exe.exists(), diags, exe, src: srcp }
    }

    pub fn run(&self, c: &Compiled) -> RunOut {
        let out = Command::new(&c.exe).stdin(Stdio::null()).env("RUST_BACKTRACE", "0").output();
        match out {
            Ok(o) => RunOut { status: o.status.code(), stdout: String::from_utf8_lossy(&o.stdout).into_owned(), stderr: String::from_utf8_lossy(&o.stderr).into_owned() },
            Err(e) => RunOut { status: None, stdout: String::new(), stderr: format!("cannot execute: {e}") },
        }
    }

    pub fn cleanup(&self, c: &Compiled) {
        let _ = std::fs::remove_file(&c.exe);
        let _ = std::fs::remove_file(&c.src);
    }
}

fn collect_lines(m: &Value, out: &mut Vec<usize>) {
    if let Some(spans) = m["spans"].as_array() {
        for s in spans {
            // walk the macro expansion chain down to the span in the probe source
            let mut cur = s;
            loop {
                if cur["file_name"].as_str().map_or(false, |f| f.ends_with(".rs") && f.contains("probe_work")) {
                    if let Some(l) = cur["line_start"].as_u64() {
                        out.push(l as usize);
                    }
                }
                let next = &cur["expansion"]["span"];
                if next.is_object() {
                    cur = next;
                } else {
                    break;
                }
            }
        }
    }
    if let Some(ch) = m["children"].as_array() {
        for c in ch {
            collect_lines(c, out);
        }
    }
}

/// Run `f` over `items` on `threads` worker threads, preserving order.
pub fn par_map<T: Sync, U: Send>(items: &[T], threads: usize, f: impl Fn(usize, &T) -> U + Sync) -> Vec<U> {
    let next = AtomicUsize::new(0);
    let out: Mutex<Vec<Option<U>>> = Mutex::new((0..items.len()).map(|_| None).collect());
    std::thread::scope(|s| {
        for _ in 0..threads.max(1) {
            s.spawn(|| loop {
                let i = next.fetch_add(1, Ordering::SeqCst);
                if i >= items.len() {
                    break;
                }
                let r = f(i, &items[i]);
                out.lock().unwrap()[i] = Some(r);
            });
        }
    });
    out.into_inner().unwrap().into_iter().map(|x| x.expect("par_map result")).collect()
}
