#!/bin/bash
# runs every thorough tier once, sequentially; prints one summary line per check
cd /verif
for i in $(seq -w 1 20); do
  s=$(date +%s)
  out=$(./check C$i --tier thorough 2>&1); rc=$?
  e=$(( $(date +%s) - s ))
  echo "C$i rc=$rc ${e}s $(echo "$out" | grep -E 'tier=thorough' | tail -1 | cut -c1-160)"
  echo "$out" | grep -E 'VIOLATION|INCONCLUSIVE|KNOWN-FINDING' | head -5
done
