//! C06 — bitwise logic, bit access, counting (DESIGN 4, C06).

use proptest::prelude::*;
use ruint::Uint;
use vcore::big::*;
use vcore::gen::*;
use vcore::*;

fn strat(bits: usize) -> BoxedStrategy<Case> {
    let n = nlimbs(bits);
    let bytes = (bits + 7) / 8;
    // extra value shapes: MAX - 2^k, alternating patterns, all-ones low limbs
    let extra = prop_oneof![
        (0..bits.max(1)).prop_map(move |k| {
            let mut v = vec![u64::MAX; n];
            if n > 0 {
                v[k / 64] &= !(1u64 << (k % 64));
            }
            mask_vec(v, bits)
        }),
        any::<bool>().prop_map(move |b| mask_vec(vec![if b { 0xAAAA_AAAA_AAAA_AAAA } else { 0x5555_5555_5555_5555 }; n], bits)),
        (0..=n).prop_map(move |k| mask_vec((0..n).map(|i| if i < k { u64::MAX } else { 0 }).collect(), bits)),
        (0..=n).prop_map(move |k| mask_vec((0..n).map(|i| if i >= k { u64::MAX } else { 0 }).collect(), bits)),
    ];
    let val = prop_oneof![3 => uint(bits), 1 => extra];
    (val.clone(), val, index_any(bits, 64), index_any(bytes, 8), any::<bool>(), 0u8..8)
        .prop_map(move |(a, b, i, j, sv, rel)| {
            // related operands: equal, complementary
            let b = match rel {
                0 => a.clone(),
                1 => mask_vec(a.iter().map(|x| !x).collect(), bits),
                _ => b,
            };
            Case::new().l(a).l(b).n(i).n(j).n(sv as u64)
        })
        .boxed()
}

fn enum_pairs(bits: usize, f: &mut dyn FnMut(&Case) -> R) -> R {
    let m = 1u64 << bits;
    let bytes = ((bits + 7) / 8) as u64;
    for a in 0..m {
        for b in 0..m {
            let (la, lb) = if bits == 0 { (vec![], vec![]) } else { (vec![a], vec![b]) };
            let i = (a * 31 + b) % (bits as u64 + 65);
            f(&Case::new().l(la).l(lb).n(i).n((a + b) % (bytes + 9)).n(b & 1))?;
        }
    }
    Ok(())
}

fn enum_index(bits: usize, f: &mut dyn FnMut(&Case) -> R) -> R {
    let m = 1u64 << bits;
    let bytes = ((bits + 7) / 8) as u64;
    for a in 0..m {
        for i in 0..=(bits as u64 + 64) {
            let la = if bits == 0 { vec![] } else { vec![a] };
            for sv in 0..2 {
                f(&Case::new().l(la.clone()).l(la.clone()).n(i).n(i % (bytes + 9)).n(sv))?;
            }
        }
    }
    Ok(())
}

fn body<const B: usize, const L: usize>(c: &Case, rec: &mut Rec) -> R {
    type U<const B: usize, const L: usize> = Uint<B, L>;
    let a: U<B, L> = mk(&c.l[0]);
    let b: U<B, L> = mk(&c.l[1]);
    let (ab, bb) = (num(&a), num(&b));
    let idx = c.n[0] as usize;
    let bidx = c.n[1] as usize;
    let setv = c.n[2] != 0;
    let m = pow2(B);
    let ones = &m - 1u32;
    let bytes_len = (B + 7) / 8;

    let limb_scan = a.as_limbs().iter().any(|x| *x == 0 || *x == u64::MAX);
    let near_boundary = idx % 64 <= 1 || idx % 64 == 63 || (idx as i128 - B as i128).abs() <= 1;
    rec.class_if(limb_scan, "limb_zero_or_all_ones");
    rec.class_if(idx >= B, "index_out_of_range");
    rec.class_if(bidx >= bytes_len, "byte_index_out_of_range");
    rec.class_if(near_boundary, "index_near_boundary");
    rec.class_if(idx >= 1 << 32 || bidx >= 1 << 32, "index_huge");
    if limb_scan || near_boundary {
        rec.nontrivial(&(&c.l[0], &c.l[1], idx, bidx));
    }
    rec.sample(|| json!({"a": hex(&ab), "b": hex(&bb), "bit_index": idx, "byte_index": bidx}));

    // ---- logic
    let not_e: U<B, L> = mkb(&(&ones ^ &ab));
    chk!(rec, "not", !a, not_e);
    chk!(rec, "not_method", a.not(), not_e);
    let and_e: U<B, L> = mkb(&(&ab & &bb));
    let or_e: U<B, L> = mkb(&(&ab | &bb));
    let xor_e: U<B, L> = mkb(&(&ab ^ &bb));
    chk!(rec, "bitand", a & b, and_e);
    chk!(rec, "bitor", a | b, or_e);
    chk!(rec, "bitxor", a ^ b, xor_e);
    chk!(rec, "bitand_assign", { let mut x = a; x &= b; x }, and_e);
    chk!(rec, "bitor_assign", { let mut x = a; x |= b; x }, or_e);
    chk!(rec, "bitxor_assign", { let mut x = a; x ^= b; x }, xor_e);
    // the by-reference operator forms are separate impls of the same operators
    chk!(rec, "bitand(&,&)", &a & &b, and_e);
    chk!(rec, "bitor(&,&)", &a | &b, or_e);
    chk!(rec, "bitxor(&,&)", &a ^ &b, xor_e);
    chk!(rec, "bitand(&,val)", &a & b, and_e);
    chk!(rec, "bitor(&,val)", &a | b, or_e);
    chk!(rec, "bitxor(&,val)", &a ^ b, xor_e);
    chk!(rec, "bitand(val,&)", a & &b, and_e);
    chk!(rec, "bitor(val,&)", a | &b, or_e);
    chk!(rec, "bitxor(val,&)", a ^ &b, xor_e);
    chk!(rec, "bitxor_assign(&)", { let mut x = a; x ^= &b; x }, xor_e);
    chk!(rec, "not(&)", !&a, not_e);

    // ---- bit access
    let bit_e = idx < B && ab.bit(idx as u64);
    chk!(rec, "bit", a.bit(idx), bit_e);
    let set_e: U<B, L> = if idx < B {
        let mut t = ab.clone();
        t.set_bit(idx as u64, setv);
        mkb(&t)
    } else {
        a
    };
    chk!(rec, "set_bit", { let mut x = a; x.set_bit(idx, setv); x }, set_e);
    let le = ab.to_bytes_le();
    let byte_e = |j: usize| -> u8 { le.get(j).copied().unwrap_or(0) };
    if bidx < bytes_len {
        chk!(rec, "byte", a.byte(bidx), byte_e(bidx));
        chk!(rec, "checked_byte", a.checked_byte(bidx), Some(byte_e(bidx)));
    } else {
        rec.must_panic("byte", catch(|| a.byte(bidx)))?;
        chk!(rec, "checked_byte", a.checked_byte(bidx), None::<u8>);
    }

    // ---- counting
    let bl = ab.bits() as usize;
    let pop = ab.count_ones() as usize;
    let tz = if ab.is_zero() { B } else { ab.trailing_zeros().unwrap() as usize };
    let nb = &ones ^ &ab; // complement over BITS bits
    let to = if nb.is_zero() { B } else { nb.trailing_zeros().unwrap() as usize };
    chk!(rec, "leading_zeros", a.leading_zeros(), B - bl);
    chk!(rec, "leading_ones", a.leading_ones(), B - nb.bits() as usize);
    chk!(rec, "trailing_zeros", a.trailing_zeros(), tz);
    chk!(rec, "trailing_ones", a.trailing_ones(), to);
    chk!(rec, "count_ones", a.count_ones(), pop);
    chk!(rec, "count_zeros", a.count_zeros(), B - pop);
    chk!(rec, "bit_len", a.bit_len(), bl);
    chk!(rec, "byte_len", a.byte_len(), (bl + 7) / 8);
    let mut rev = BigUint::zero();
    for i in 0..B {
        if ab.bit(i as u64) {
            rev.set_bit((B - 1 - i) as u64, true);
        }
    }
    chk!(rec, "reverse_bits", a.reverse_bits(), mkb::<B, L>(&rev));
    chk!(rec, "is_power_of_two", a.is_power_of_two(), pop == 1);
    let np = if pop == 1 { ab.clone() } else { pow2(bl) };
    let np_e: Option<U<B, L>> = if np < m { Some(mkb(&np)) } else { None };
    rec.class_if(np_e.is_none(), "next_power_of_two_overflows");
    chk!(rec, "checked_next_power_of_two", a.checked_next_power_of_two(), np_e);
    match np_e {
        Some(e) => chk!(rec, "next_power_of_two", a.next_power_of_two(), e),
        None => rec.must_panic("next_power_of_two", catch(|| a.next_power_of_two()))?,
    }
    let exp = bl.saturating_sub(64);
    let msb = (&ab >> exp).to_u64().expect("top 64 bits fit");
    chk!(rec, "most_significant_bits", a.most_significant_bits(), (msb, exp));
    Ok(())
}

fn main() {
    let spec = PropSpec {
        id: "C06",
        rule_text: "cases (a, b, bit index in [0,BITS+64], byte index in [0,BYTES+8], bool) per width; values from the boundary alphabet plus MAX-2^k, alternating patterns, all-ones low/high limb runs; indices biased to limb boundaries and BITS+-1, one in seven huge (k*2^61+j, k*2^58+j, 2^e+j, usize::MAX-j: values whose scaling by 8 or 64, increment or narrowing wraps to something small); exhaustive for BITS <= 8: all (a,b) pairs and all (a, index, bool) triples. Oracle: bit-level definitions over exactly BITS bits evaluated in num-bigint. Non-trivial: some limb of a is 0 or u64::MAX (limb-scan paths) or the index is within 1 of a limb boundary or of BITS; distinct by (width,a,b,indices).",
        assumptions: vec![
            "num-bigint bit operations are correct (oracle)",
            "little-endian target for byte() (the cfg(target_endian = \"big\") arm is never compiled here)",
        ],
        thorough_mult: 40,
    };
    main_with(
        spec,
        |jobs, _| {
            reg_enum!(jobs, "bits_all_pairs", enum_pairs, body; [0, 1, 2, 3, 4, 5, 6, 7, 8]);
            reg_enum!(jobs, "bits_all_indices", enum_index, body; [0, 1, 2, 3, 4, 5, 6, 7, 8]);
            w_all_wide!(reg_gen!(jobs, "bits", 15000, strat, body;));
            w_giant!(reg_gen!(jobs, "bits", 1000, strat, body;));
            w_dense!(reg_gen!(jobs, "bits", 1000, strat, body;));
        },
        |_| Map::new(),
    );
}
