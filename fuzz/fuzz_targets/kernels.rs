//! E4 target `kernels`: coverage-guided search over the limb-slice kernels of C15
//! (`addmul`, `addmul_n`, `mul_nx1`, `addmul_nx1`, `submul_nx1`, `add_nx1`, `adc_n`, `sbb_n`,
//! `shift_left_small`, `shift_right_small`, `cmp`) and the Montgomery kernels of C11
//! (`mul_redc`, `square_redc` for N = 1..=8). The oracle (exact integer identities in
//! num-bigint) is inside the target. `VERIF_FUZZ_PROP=C11|C15` restricts the selector byte to
//! that property's groups so that a crash is attributed to the right property.
#![no_main]
use arbitrary::Unstructured;
use libfuzzer_sys::fuzz_target;
use num_bigint::BigUint;
use num_traits::{One, Zero};
use ruint::algorithms as alg;
use std::sync::OnceLock;

fn big(l: &[u64]) -> BigUint {
    let mut bytes = Vec::with_capacity(l.len() * 8);
    for x in l {
        bytes.extend_from_slice(&x.to_le_bytes());
    }
    BigUint::from_bytes_le(&bytes)
}

fn pow2(limbs: usize) -> BigUint {
    BigUint::one() << (64 * limbs)
}

fn limbs_of(v: &BigUint, n: usize) -> Vec<u64> {
    let mut d = v.to_u64_digits();
    d.resize(n.max(d.len()), 0);
    d.truncate(n);
    d
}

/// one limb: a tag byte selects a boundary value or raw bytes
fn limb(u: &mut Unstructured) -> u64 {
    match u.arbitrary::<u8>().unwrap_or(0) % 14 {
        0 => 0,
        1 => 1,
        2 => u64::MAX,
        3 => u64::MAX - 1,
        4 => 1 << 63,
        5 => (1 << 63) - 1,
        6 => 1u64 << (u.arbitrary::<u8>().unwrap_or(0) % 64),
        7 => (1u64 << (u.arbitrary::<u8>().unwrap_or(0) % 64)).wrapping_sub(1),
        8 => !(1u64 << (u.arbitrary::<u8>().unwrap_or(0) % 64)),
        // selector constants of the Montgomery carry paths: floor(2^64/3), 2^62, 2^62.5 and neighbours
        9 => [0x5555_5555_5555_5555u64, 0x4000_0000_0000_0000, 0x5a82_7999_fcef_3242, 0xaaaa_aaaa_aaaa_aaaa][(u.arbitrary::<u8>().unwrap_or(0) % 4) as usize]
            .wrapping_add((u.arbitrary::<u8>().unwrap_or(0) % 8) as u64)
            .wrapping_sub(4),
        _ => u.arbitrary::<u64>().unwrap_or(0),
    }
}

fn slice_n(u: &mut Unstructured, n: usize) -> Vec<u64> {
    (0..n).map(|_| limb(u)).collect()
}

fn len(u: &mut Unstructured, max: usize) -> usize {
    let b = u.arbitrary::<u8>().unwrap_or(0) as usize;
    // one length in eight is stretched beyond the usual window
    if b >= 224 {
        max + 1 + (b - 224)
    } else {
        b % (max + 1)
    }
}

fn slice(u: &mut Unstructured, max: usize) -> Vec<u64> {
    let n = len(u, max);
    slice_n(u, n)
}

fn fail(msg: String) -> ! {
    eprintln!("VERIF-ORACLE {msg}");
    std::process::abort();
}

const C15_GROUPS: u8 = 11;
const C11_GROUPS: u8 = 2;

fn prop() -> &'static str {
    static P: OnceLock<String> = OnceLock::new();
    P.get_or_init(|| std::env::var("VERIF_FUZZ_PROP").unwrap_or_default())
}

fn redc<const N: usize>(u: &mut Unstructured, square: bool) {
    // modulus: odd, >= 3; a, b reduced below it by the oracle arithmetic
    let mut m: [u64; N] = [0; N];
    for x in m.iter_mut() {
        *x = limb(u);
    }
    m[0] |= 1;
    let mb = big(&m);
    if mb < BigUint::from(3u32) {
        return;
    }
    let mut a: [u64; N] = [0; N];
    let mut b: [u64; N] = [0; N];
    let araw = slice_n(u, N);
    let braw = slice_n(u, N);
    // relation selector: raw mod m, m - 1 - (raw mod m), equal operands
    let sel = u.arbitrary::<u8>().unwrap_or(0);
    let mut av = big(&araw) % &mb;
    let mut bv = big(&braw) % &mb;
    if sel & 1 == 1 {
        av = &mb - BigUint::one() - av;
    }
    if sel & 2 == 2 {
        bv = &mb - BigUint::one() - bv;
    }
    if sel & 12 == 12 {
        bv = av.clone();
    }
    a.copy_from_slice(&limbs_of(&av, N));
    b.copy_from_slice(&limbs_of(&bv, N));
    // inv = -m[0]^-1 mod 2^64 by Newton iteration (independent of the library)
    let mut x: u64 = 1;
    for _ in 0..6 {
        x = x.wrapping_mul(2u64.wrapping_sub(m[0].wrapping_mul(x)));
    }
    let inv = x.wrapping_neg();
    assert_eq!(inv.wrapping_mul(m[0]), u64::MAX);
    let r = pow2(N);
    if square {
        let got = alg::square_redc(a, m, inv);
        let g = big(&got);
        if g >= mb || (&g * &r) % &mb != (&av * &av) % &mb {
            fail(format!("square_redc N={N} a {a:x?} m {m:x?} got {got:x?}"));
        }
    } else {
        let got = alg::mul_redc(a, b, m, inv);
        let g = big(&got);
        if g >= mb || (&g * &r) % &mb != (&av * &bv) % &mb {
            fail(format!("mul_redc N={N} a {a:x?} b {b:x?} m {m:x?} got {got:x?}"));
        }
    }
}

fn redc_any(u: &mut Unstructured, square: bool) {
    match u.arbitrary::<u8>().unwrap_or(0) % 8 + 1 {
        1 => redc::<1>(u, square),
        2 => redc::<2>(u, square),
        3 => redc::<3>(u, square),
        4 => redc::<4>(u, square),
        5 => redc::<5>(u, square),
        6 => redc::<6>(u, square),
        7 => redc::<7>(u, square),
        _ => redc::<8>(u, square),
    }
}

fuzz_target!(|data: &[u8]| {
    let mut u = Unstructured::new(data);
    let sel = u.arbitrary::<u8>().unwrap_or(0);
    let group = match prop() {
        "C11" => C15_GROUPS + sel % C11_GROUPS,
        "C15" => sel % C15_GROUPS,
        _ => sel % (C15_GROUPS + C11_GROUPS),
    };
    match group {
        0 => {
            // addmul: lhs' = (lhs + a*b) mod 2^(64 len), flag <=> lhs + a*b >= 2^(64 len)
            let mut lhs = slice(&mut u, 10);
            let a = slice(&mut u, 10);
            let b = slice(&mut u, 10);
            let l0 = lhs.clone();
            let t = big(&lhs) + big(&a) * big(&b);
            let m = pow2(lhs.len());
            let f = alg::addmul(&mut lhs, &a, &b);
            if big(&lhs) != &t % &m || f != (t >= m) {
                fail(format!("addmul lhs {l0:x?} a {a:x?} b {b:x?} got {lhs:x?} flag {f}"));
            }
        }
        1 => {
            // addmul_n: equal lengths, wrapping
            let n = len(&mut u, 10);
            let mut lhs = slice_n(&mut u, n);
            let a = slice_n(&mut u, n);
            let b = slice_n(&mut u, n);
            let l0 = lhs.clone();
            let t = (big(&lhs) + big(&a) * big(&b)) % pow2(n);
            alg::addmul_n(&mut lhs, &a, &b);
            if big(&lhs) != t {
                fail(format!("addmul_n lhs {l0:x?} a {a:x?} b {b:x?} got {lhs:x?}"));
            }
        }
        2 => {
            let mut lhs = slice(&mut u, 10);
            let a = limb(&mut u);
            let l0 = lhs.clone();
            let t = big(&lhs) * BigUint::from(a);
            let m = pow2(lhs.len());
            let c = alg::mul_nx1(&mut lhs, a);
            if big(&lhs) != &t % &m || BigUint::from(c) != &t / &m {
                fail(format!("mul_nx1 lhs {l0:x?} a {a:x} got {lhs:x?} carry {c:x}"));
            }
        }
        3 => {
            let n = len(&mut u, 10);
            let mut lhs = slice_n(&mut u, n);
            let a = slice_n(&mut u, n);
            let b = limb(&mut u);
            let l0 = lhs.clone();
            let t = big(&lhs) + big(&a) * BigUint::from(b);
            let m = pow2(n);
            let c = alg::addmul_nx1(&mut lhs, &a, b);
            if big(&lhs) != &t % &m || BigUint::from(c) != &t / &m {
                fail(format!("addmul_nx1 lhs {l0:x?} a {a:x?} b {b:x} got {lhs:x?} carry {c:x}"));
            }
        }
        4 => {
            // submul_nx1: lhs_old + borrow*2^(64n) = lhs_new + a*b
            let n = len(&mut u, 10);
            let mut lhs = slice_n(&mut u, n);
            let a = slice_n(&mut u, n);
            let b = limb(&mut u);
            let l0 = lhs.clone();
            let old = big(&lhs);
            let bw = alg::submul_nx1(&mut lhs, &a, b);
            if old + BigUint::from(bw) * pow2(n) != big(&lhs) + big(&a) * BigUint::from(b) {
                fail(format!("submul_nx1 lhs {l0:x?} a {a:x?} b {b:x} got {lhs:x?} borrow {bw:x}"));
            }
        }
        5 => {
            let mut lhs = slice(&mut u, 10);
            let a = limb(&mut u);
            let l0 = lhs.clone();
            let t = big(&lhs) + BigUint::from(a);
            let m = pow2(lhs.len());
            let c = alg::add_nx1(&mut lhs, a);
            if big(&lhs) != &t % &m || BigUint::from(c) != &t / &m {
                fail(format!("add_nx1 lhs {l0:x?} a {a:x} got {lhs:x?} carry {c:x}"));
            }
        }
        6 | 7 => {
            // adc_n / sbb_n: rhs at least as long as lhs, full carry / borrow word
            let n = len(&mut u, 10);
            let extra = (u.arbitrary::<u8>().unwrap_or(0) % 3) as usize;
            let mut lhs = slice_n(&mut u, n);
            let rhs = slice_n(&mut u, n + extra);
            let cin = limb(&mut u);
            let l0 = lhs.clone();
            let m = pow2(n);
            if group == 6 {
                let t = big(&lhs) + big(&rhs[..n]) + BigUint::from(cin);
                let c = alg::adc_n(&mut lhs, &rhs, cin);
                let (want_l, want_c) = if n == 0 { (BigUint::zero(), BigUint::from(cin)) } else { (&t % &m, &t / &m) };
                if big(&lhs) != want_l || BigUint::from(c) != want_c {
                    fail(format!("adc_n lhs {l0:x?} rhs {rhs:x?} carry {cin:x} got {lhs:x?} carry {c:x}"));
                }
            } else {
                let bw = alg::sbb_n(&mut lhs, &rhs, cin);
                if n == 0 {
                    if bw != cin {
                        fail(format!("sbb_n empty: borrow {cin:x} became {bw:x}"));
                    }
                } else if big(&l0) + BigUint::from(bw) * &m != big(&lhs) + big(&rhs[..n]) + BigUint::from(cin) {
                    fail(format!("sbb_n lhs {l0:x?} rhs {rhs:x?} borrow {cin:x} got {lhs:x?} borrow {bw:x}"));
                }
            }
        }
        8 | 9 => {
            let mut limbs = slice(&mut u, 10);
            let amount = (u.arbitrary::<u8>().unwrap_or(0) % 64) as usize;
            let l0 = limbs.clone();
            let x = big(&limbs);
            let n = limbs.len();
            if group == 8 {
                let ret = alg::shift_left_small(&mut limbs, amount);
                let t = &x << amount;
                if big(&limbs) != &t % pow2(n) || (n > 0 && BigUint::from(ret) != &t >> (64 * n)) || (n == 0 && ret != 0) {
                    fail(format!("shift_left_small {l0:x?} by {amount} got {limbs:x?} ret {ret:x}"));
                }
            } else {
                let ret = alg::shift_right_small(&mut limbs, amount);
                // x * 2^64 = limbs' * 2^(64+amount) + ret * 2^amount  (ret holds the bits shifted out, left-aligned)
                let lhs = &x << 64usize;
                let rhs = (big(&limbs) << (64 + amount)) + (BigUint::from(ret) << amount);
                let ok = if n == 0 { ret == 0 } else { lhs == rhs && (amount != 0 || ret == 0) };
                if !ok {
                    fail(format!("shift_right_small {l0:x?} by {amount} got {limbs:x?} ret {ret:x}"));
                }
            }
        }
        10 => {
            // cmp on equal-length slices; the second is the first with an optional single change
            let n = len(&mut u, 10);
            let a = slice_n(&mut u, n);
            let mut b = a.clone();
            match u.arbitrary::<u8>().unwrap_or(0) % 4 {
                0 => {}
                1 | 2 if n > 0 => {
                    let i = u.arbitrary::<u8>().unwrap_or(0) as usize % n;
                    b[i] = limb(&mut u);
                    if n > 1 {
                        let j = u.arbitrary::<u8>().unwrap_or(0) as usize % n;
                        if j < i {
                            b[j] = limb(&mut u);
                        }
                    }
                }
                _ => b = slice_n(&mut u, n),
            }
            let got = alg::cmp(&a, &b);
            if got != big(&a).cmp(&big(&b)) {
                fail(format!("cmp {a:x?} {b:x?} got {got:?}"));
            }
        }
        11 => redc_any(&mut u, false),
        _ => redc_any(&mut u, true),
    }
});
