//! C07 — integer conversions accept exactly the representable range, preserving value
//! (DESIGN 4, C07).
//!
//! Four rule families:
//! * `from_<T>`   primitive / bool -> Uint<B>: TryFrom, uint_try_from, from, wrapping_from, saturating_from
//! * `to_<T>`     Uint<B> -> primitive / bool: TryFrom<Uint>, TryFrom<&Uint>, uint_try_to, to, wrapping_to, saturating_to
//! * `slice`      the five `*from_limbs_slice` constructors, slice lengths 0..=LIMBS+2
//! * `u2u_S_to_D` Uint<S> -> Uint<D> over a fixed grid of width pairs, both the `*_from` and the `*_to` side
//!
//! Structure: the const-generic rule bodies are thin shims that only call the library and
//! turn every result into a width-independent observation (`Obs` = all 64*LIMBS bits as a
//! limb vector, `ObsP` = the primitive's sign-extended 128-bit pattern); the oracle and all
//! comparisons are ordinary non-generic code (keeps the ~600 instantiations cheap to compile).
//!
//! Oracle: exact integers (num-bigint: `BigInt::from(primitive)`, floor-mod 2^BITS, BigUint
//! from limbs); two's-complement wrapping of Uint -> primitive is computed on u128 bit
//! patterns and self-tested against primitive `as` casts.

use num_integer::Integer;
use num_traits::Signed;
use proptest::prelude::*;
use proptest::sample::select;
use ruint::{FromUintError, ToUintError, Uint, UintTryFrom, UintTryTo};
use vcore::big::*;
use vcore::gen::*;
use vcore::*;

// ---------------------------------------------------------------------------
// The primitive side

#[derive(Clone, Copy)]
struct PrimInfo {
    name: &'static str,
    tbits: usize,
    signed: bool,
    /// class-counter names: source expected ok / too large / negative
    c_from: [&'static str; 3],
    /// class-counter names: value expected to fit / to overflow
    c_to: [&'static str; 2],
}

trait Prim: Copy + Send + Sync + 'static {
    const INFO: PrimInfo;
    /// The value whose two's-complement pattern is the low `tbits` bits of `raw`
    /// (primitive truncating cast).
    fn from_raw(raw: u128) -> Self;
    /// The value's pattern, sign-extended to 128 bits (injective).
    fn to_raw(self) -> u128;
    /// The exact integer.
    fn to_big(self) -> BigInt;
    /// Pattern of the type's MAX (self-test of the expected `Overflow(.., MAX)` field).
    fn max_raw() -> u128;
}

macro_rules! impl_prim {
    ($($t:ident),*) => {$(
        impl Prim for $t {
            const INFO: PrimInfo = PrimInfo {
                name: stringify!($t),
                tbits: <$t>::BITS as usize,
                signed: <$t>::MIN != 0,
                c_from: [
                    concat!("from_", stringify!($t), ":expect_ok"),
                    concat!("from_", stringify!($t), ":expect_too_large"),
                    concat!("from_", stringify!($t), ":expect_negative"),
                ],
                c_to: [
                    concat!("to_", stringify!($t), ":expect_fits"),
                    concat!("to_", stringify!($t), ":expect_overflow"),
                ],
            };
            #[allow(clippy::cast_possible_truncation)]
            fn from_raw(raw: u128) -> Self {
                raw as $t
            }
            fn to_raw(self) -> u128 {
                self as u128
            }
            fn to_big(self) -> BigInt {
                BigInt::from(self)
            }
            fn max_raw() -> u128 {
                <$t>::MAX as u128
            }
        }
    )*};
}
impl_prim!(u8, u16, u32, u64, u128, usize, i8, i16, i32, i64, i128, isize);

impl Prim for bool {
    const INFO: PrimInfo = PrimInfo {
        name: "bool",
        tbits: 1,
        signed: false,
        c_from: ["from_bool:expect_ok", "from_bool:expect_too_large", "from_bool:expect_negative"],
        c_to: ["to_bool:expect_fits", "to_bool:expect_overflow"],
    };
    fn from_raw(raw: u128) -> Self {
        raw & 1 == 1
    }
    fn to_raw(self) -> u128 {
        u128::from(self)
    }
    fn to_big(self) -> BigInt {
        BigInt::from(u8::from(self))
    }
    fn max_raw() -> u128 {
        1
    }
}

fn tmask(tbits: usize) -> u128 {
    if tbits >= 128 {
        u128::MAX
    } else {
        (1u128 << tbits) - 1
    }
}

/// Sign-extended 128-bit pattern of "the low `tbits` bits of `low128`, read as a
/// (two's-complement if signed) integer of that width".
fn wrap_pattern(low128: u128, info: &PrimInfo) -> u128 {
    let m = tmask(info.tbits);
    let low = low128 & m;
    if info.signed && (low >> (info.tbits - 1)) & 1 == 1 {
        low | !m
    } else {
        low
    }
}

/// Human-readable value of a pattern (for messages only).
fn show_pattern(p: u128, info: &PrimInfo) -> String {
    if info.name == "bool" {
        format!("{}", p != 0)
    } else if info.signed {
        format!("{}", p as i128)
    } else {
        format!("{p}")
    }
}

fn raw_of(c: &Case) -> u128 {
    (c.n.first().copied().unwrap_or(0) as u128) | ((c.n.get(1).copied().unwrap_or(0) as u128) << 64)
}

/// |v -+ 2^k| <= 2 for one of the given k.
fn near_pow2(v: &BigInt, ks: &[usize]) -> bool {
    let two = BigInt::from(2);
    ks.iter().any(|k| {
        let p = BigInt::one() << *k;
        (v - &p).abs() <= two || (v + &p).abs() <= two
    })
}

fn gen_tag(t: Option<&u64>) -> &'static str {
    match t {
        Some(0) => "gen:specials_or_general",
        Some(1) => "gen:boundary_relevant_k",
        Some(2) => "gen:boundary_any_k",
        Some(3) => "gen:random_shifted",
        Some(4) => "gen:limb_alphabet",
        Some(5) => "gen:multiple_of_2^BITS_plus_r",
        Some(6) => "gen:fits_target",
        Some(7) => "gen:one_bit_above_target",
        Some(9) => "gen:enumerated",
        Some(10) => "gen:slice_any_len",
        Some(11) => "gen:slice_fits_zero_tail",
        Some(12) => "gen:slice_top_limb_over_mask",
        Some(13) => "gen:slice_tail_only_nonzero",
        Some(14) => "gen:slice_short",
        Some(15) => "gen:slice_boundary",
        _ => "gen:other",
    }
}

// ---------------------------------------------------------------------------
// Observations (width independent)

/// What a Uint-valued library call returned; values are ALL limbs of the result.
#[derive(Clone, Debug, PartialEq, Eq)]
enum Obs {
    /// plain value / Ok(v) / Some(v)
    Val(Vec<u64>),
    /// `checked_*` returned None
    Nothing,
    TooLarge(usize, Vec<u64>),
    Negative(usize, Vec<u64>),
    Nan(usize),
    /// FromUintError::Overflow of a Uint -> Uint conversion
    Overflow(usize, Vec<u64>, Vec<u64>),
    Panic(String),
}

impl Obs {
    fn show(&self) -> String {
        match self {
            Obs::Val(v) => hexl(v),
            Obs::Nothing => "None".into(),
            Obs::TooLarge(b, p) => format!("ValueTooLarge({b}, {})", hexl(p)),
            Obs::Negative(b, p) => format!("ValueNegative({b}, {})", hexl(p)),
            Obs::Nan(b) => format!("NotANumber({b})"),
            Obs::Overflow(b, w, m) => format!("Overflow({b}, {}, {})", hexl(w), hexl(m)),
            Obs::Panic(m) => format!("panic({m})"),
        }
    }
}

fn lv<const B: usize, const L: usize>(x: &Uint<B, L>) -> Vec<u64> {
    x.as_limbs().to_vec()
}

fn obs_val<const B: usize, const L: usize>(r: Result<Uint<B, L>, String>) -> Obs {
    match r {
        Ok(x) => Obs::Val(lv(&x)),
        Err(m) => Obs::Panic(m),
    }
}

fn obs_opt<const B: usize, const L: usize>(r: Result<Option<Uint<B, L>>, String>) -> Obs {
    match r {
        Ok(Some(x)) => Obs::Val(lv(&x)),
        Ok(None) => Obs::Nothing,
        Err(m) => Obs::Panic(m),
    }
}

fn obs_try<const B: usize, const L: usize>(r: Result<Result<Uint<B, L>, ToUintError<Uint<B, L>>>, String>) -> Obs {
    match r {
        Ok(Ok(x)) => Obs::Val(lv(&x)),
        Ok(Err(ToUintError::ValueTooLarge(b, p))) => Obs::TooLarge(b, lv(&p)),
        Ok(Err(ToUintError::ValueNegative(b, p))) => Obs::Negative(b, lv(&p)),
        Ok(Err(ToUintError::NotANumber(b))) => Obs::Nan(b),
        Err(m) => Obs::Panic(m),
    }
}

fn obs_tryto<const B: usize, const L: usize>(r: Result<Result<Uint<B, L>, FromUintError<Uint<B, L>>>, String>) -> Obs {
    match r {
        Ok(Ok(x)) => Obs::Val(lv(&x)),
        Ok(Err(FromUintError::Overflow(b, w, m))) => Obs::Overflow(b, lv(&w), lv(&m)),
        Err(m) => Obs::Panic(m),
    }
}

/// What a primitive-valued library call returned (sign-extended patterns).
#[derive(Clone, Debug, PartialEq, Eq)]
enum ObsP {
    Val(u128),
    Overflow(usize, u128, u128),
    Panic(String),
}

impl ObsP {
    fn show(&self, info: &PrimInfo) -> String {
        match self {
            ObsP::Val(v) => show_pattern(*v, info),
            ObsP::Overflow(b, w, m) => format!("Overflow({b}, {}, {})", show_pattern(*w, info), show_pattern(*m, info)),
            ObsP::Panic(m) => format!("panic({m})"),
        }
    }
}

fn obsp_val<T: Prim>(r: Result<T, String>) -> ObsP {
    match r {
        Ok(x) => ObsP::Val(x.to_raw()),
        Err(m) => ObsP::Panic(m),
    }
}

fn obsp_try<T: Prim>(r: Result<Result<T, FromUintError<T>>, String>) -> ObsP {
    match r {
        Ok(Ok(x)) => ObsP::Val(x.to_raw()),
        Ok(Err(FromUintError::Overflow(b, w, m))) => ObsP::Overflow(b, w.to_raw(), m.to_raw()),
        Err(m) => ObsP::Panic(m),
    }
}

// ---------------------------------------------------------------------------
// Judges (non-generic)

#[derive(Clone, Copy, PartialEq, Eq, Debug)]
enum Exp {
    Ok,
    TooLarge,
    Negative,
}

/// A forbidden panic: class `panic`; when it is a listed known finding the rest
/// of the case is skipped quietly (same protocol as `Rec::no_panic`).
fn forbidden_panic(rec: &mut Rec, check: &str, ctx: &str, m: &str) -> R {
    rec.no_panic::<()>(check, Err(format!("{ctx}: {m}"))).map(|_| ())
}

/// Class of a wrong wrapped value: the exact signature of the known `%= MASK`
/// defect (high limb reduced modulo MASK instead of masked) or anything else.
fn payload_class(got: &[u64], sig: &Option<Vec<u64>>, other: &'static str) -> &'static str {
    if sig.as_deref() == Some(got) {
        "wrapped_hi_limb_rem_mask"
    } else {
        other
    }
}

/// `Result<Uint, ToUintError<Uint>>` against the expectation.
#[allow(clippy::too_many_arguments)]
fn judge_try(
    rec: &mut Rec,
    check: &str,
    got: &Obs,
    exp: Exp,
    bits: usize,
    w: &[u64],
    payload_checked: bool,
    sig: &Option<Vec<u64>>,
    ctx: &str,
) -> R {
    rec.eval(1);
    let class: &'static str = match (got, exp) {
        (Obs::Panic(m), _) => return forbidden_panic(rec, check, ctx, m),
        (Obs::Val(x), Exp::Ok) => {
            if x == w {
                return Ok(());
            }
            "ok_value_wrong"
        }
        (Obs::Val(_), Exp::TooLarge) => "accepted_too_large",
        (Obs::Val(_), Exp::Negative) => "accepted_negative",
        (Obs::Nan(_), _) => "reported_not_a_number",
        (Obs::Nothing | Obs::Overflow(..), _) => "harness_shape",
        (_, Exp::Ok) => "rejected_in_range",
        (Obs::TooLarge(..), Exp::Negative) => "negative_reported_too_large",
        (Obs::Negative(..), Exp::TooLarge) => "too_large_reported_negative",
        (Obs::TooLarge(b, p), Exp::TooLarge) => {
            if *b != bits {
                "error_bits_wrong"
            } else if p != w {
                payload_class(p, sig, "too_large_payload_wrong")
            } else {
                return Ok(());
            }
        }
        (Obs::Negative(b, p), Exp::Negative) => {
            if *b != bits {
                "error_bits_wrong"
            } else if payload_checked && p != w {
                payload_class(p, sig, "negative_payload_wrong")
            } else {
                return Ok(());
            }
        }
    };
    let expected = match exp {
        Exp::Ok => format!("Ok({})", hexl(w)),
        Exp::TooLarge => format!("ValueTooLarge({bits}, {})", hexl(w)),
        Exp::Negative if payload_checked => format!("ValueNegative({bits}, {})", hexl(w)),
        Exp::Negative => format!("ValueNegative({bits}, <unspecified>)"),
    };
    rec.fail(check, class, format!("{ctx}: got {} expected {expected}", got.show()))
}

/// A call that must panic iff `err` is Some(kind), and otherwise return `w`.
fn judge_panics_iff(rec: &mut Rec, check: &str, got: &Obs, err: Option<&'static str>, w: &[u64], ctx: &str) -> R {
    rec.eval(1);
    match (got, err) {
        (Obs::Val(x), None) if x == w => Ok(()),
        (Obs::Panic(_), Some(_)) => Ok(()),
        (Obs::Val(_), None) => rec.fail(check, "value_wrong", format!("{ctx}: got {} expected {}", got.show(), hexl(w))),
        (Obs::Panic(m), None) => forbidden_panic(rec, check, ctx, m),
        (_, Some(kind)) => rec.fail(check, kind, format!("{ctx}: expected a panic, got {}", got.show())),
        (_, None) => rec.fail(check, "harness_shape", format!("{ctx}: got {}", got.show())),
    }
}

/// A call that must return exactly `e`.
fn judge_val(rec: &mut Rec, check: &str, got: &Obs, e: &[u64], class: &'static str, ctx: &str) -> R {
    rec.eval(1);
    match got {
        Obs::Val(x) if x == e => Ok(()),
        Obs::Panic(m) => forbidden_panic(rec, check, ctx, m),
        _ => rec.fail(check, class, format!("{ctx}: got {} expected {}", got.show(), hexl(e))),
    }
}

/// `Option<Uint>`: Some(w) iff fits.
fn judge_opt(rec: &mut Rec, check: &str, got: &Obs, fits: bool, w: &[u64], ctx: &str) -> R {
    rec.eval(1);
    let class = match (got, fits) {
        (Obs::Panic(m), _) => return forbidden_panic(rec, check, ctx, m),
        (Obs::Val(x), true) if x == w => return Ok(()),
        (Obs::Nothing, false) => return Ok(()),
        (Obs::Val(_), true) => "value_wrong",
        (Obs::Val(_), false) => "accepted_too_large",
        (Obs::Nothing, true) => "rejected_in_range",
        _ => "harness_shape",
    };
    let expected = if fits { format!("Some({})", hexl(w)) } else { "None".to_string() };
    rec.fail(check, class, format!("{ctx}: got {} expected {expected}", got.show()))
}

/// `Result<Uint, FromUintError<Uint>>` (Uint -> Uint through UintTryTo).
#[allow(clippy::too_many_arguments)]
fn judge_tryto(rec: &mut Rec, check: &str, got: &Obs, fits: bool, bits_ok: &[usize], w: &[u64], max: &[u64], ctx: &str) -> R {
    rec.eval(1);
    let class = match (got, fits) {
        (Obs::Panic(m), _) => return forbidden_panic(rec, check, ctx, m),
        (Obs::Val(x), true) => {
            if x == w {
                return Ok(());
            }
            "ok_value_wrong"
        }
        (Obs::Val(_), false) => "accepted_overflow",
        (Obs::Overflow(..), true) => "rejected_fitting",
        (Obs::Overflow(b, gw, gm), false) => {
            if !bits_ok.contains(b) {
                "overflow_bits_wrong"
            } else if gw != w {
                "overflow_wrapped_wrong"
            } else if gm != max {
                "overflow_max_wrong"
            } else {
                return Ok(());
            }
        }
        _ => "harness_shape",
    };
    let expected = if fits { format!("Ok({})", hexl(w)) } else { format!("Overflow({bits_ok:?}, {}, {})", hexl(w), hexl(max)) };
    rec.fail(check, class, format!("{ctx}: got {} expected {expected}", got.show()))
}

/// `Result<T, FromUintError<T>>` for a primitive T.
#[allow(clippy::too_many_arguments)]
fn judge_p_try(rec: &mut Rec, check: &str, got: &ObsP, fits: bool, bits: usize, wrapped: u128, maxp: u128, info: &PrimInfo, ctx: &str) -> R {
    rec.eval(1);
    let class = match (got, fits) {
        (ObsP::Panic(m), _) => return forbidden_panic(rec, check, ctx, m),
        (ObsP::Val(x), true) => {
            if *x == wrapped {
                return Ok(());
            }
            "ok_value_wrong"
        }
        (ObsP::Val(_), false) => "accepted_overflow",
        (ObsP::Overflow(..), true) => "rejected_fitting",
        (ObsP::Overflow(b, gw, gm), false) => {
            if *b != bits {
                "overflow_bits_wrong"
            } else if *gw != wrapped {
                "overflow_wrapped_wrong"
            } else if *gm != maxp {
                "overflow_max_wrong"
            } else {
                return Ok(());
            }
        }
    };
    let expected = if fits {
        format!("Ok({})", show_pattern(wrapped, info))
    } else {
        format!("Overflow({bits}, {}, {})", show_pattern(wrapped, info), show_pattern(maxp, info))
    };
    rec.fail(check, class, format!("{ctx}: got {} expected {expected}", got.show(info)))
}

fn judge_p_panics_iff(rec: &mut Rec, check: &str, got: &ObsP, fits: bool, wrapped: u128, info: &PrimInfo, ctx: &str) -> R {
    rec.eval(1);
    match (got, fits) {
        (ObsP::Val(x), true) if *x == wrapped => Ok(()),
        (ObsP::Panic(_), false) => Ok(()),
        (ObsP::Val(_), true) => rec.fail(check, "value_wrong", format!("{ctx}: got {} expected {}", got.show(info), show_pattern(wrapped, info))),
        (ObsP::Panic(m), true) => forbidden_panic(rec, check, ctx, m),
        (_, false) => rec.fail(check, "no_panic:overflow", format!("{ctx}: expected a panic, got {}", got.show(info))),
        (_, true) => rec.fail(check, "harness_shape", format!("{ctx}: got {}", got.show(info))),
    }
}

fn judge_p_val(rec: &mut Rec, check: &str, got: &ObsP, e: u128, class: &'static str, info: &PrimInfo, ctx: &str) -> R {
    rec.eval(1);
    match got {
        ObsP::Val(x) if *x == e => Ok(()),
        ObsP::Panic(m) => forbidden_panic(rec, check, ctx, m),
        _ => rec.fail(check, class, format!("{ctx}: got {} expected {}", got.show(info), show_pattern(e, info))),
    }
}

// ---------------------------------------------------------------------------
// Rule family 1: primitive -> Uint

fn from_prim<T: Prim, const B: usize, const L: usize>(c: &Case, rec: &mut Rec) -> R
where
    Uint<B, L>: TryFrom<T, Error = ToUintError<Uint<B, L>>>,
{
    let v = T::from_raw(raw_of(c));
    let obs = [
        obs_try(catch(|| <Uint<B, L> as TryFrom<T>>::try_from(v))),
        obs_try(catch(|| <Uint<B, L> as UintTryFrom<T>>::uint_try_from(v))),
        obs_val(catch(|| Uint::<B, L>::from(v))),
        obs_val(catch(|| Uint::<B, L>::wrapping_from(v))),
        obs_val(catch(|| Uint::<B, L>::saturating_from(v))),
    ];
    judge_from_prim(c, rec, &T::INFO, &v.to_big(), B, L, &obs)
}

#[inline(never)]
fn judge_from_prim(c: &Case, rec: &mut Rec, info: &PrimInfo, vb: &BigInt, bits: usize, nl: usize, obs: &[Obs; 5]) -> R {
    let neg = vb.is_negative();
    let modulus = BigInt::one() << bits;
    let exp = if neg {
        Exp::Negative
    } else if *vb < modulus {
        Exp::Ok
    } else {
        Exp::TooLarge
    };
    let wb = vb.mod_floor(&modulus).to_biguint().expect("residue is non-negative");
    let w = limbs_of(&wb, nl);
    let max = limbs_of(&mask_big(bits), nl);
    let zero = vec![0u64; nl];
    let tb = info.tbits;
    // The statement fixes the wrapped value of a negative source only when BITS <= bits(T).
    let payload_checked = !neg || bits <= tb;
    // Signature value of the known `limbs[1] %= MASK` defect (128-bit sources, two-limb targets):
    // for 128-bit types the raw pattern is `value as u128`.
    let sig: Option<Vec<u64>> = if tb == 128 && nl == 2 {
        let raw = raw_of(c);
        let (lo, hi) = (raw as u64, (raw >> 64) as u64);
        let m = if bits % 64 == 0 { u64::MAX } else { (1u64 << (bits % 64)) - 1 };
        if hi > m {
            Some(vec![lo, hi % m])
        } else {
            None
        }
    } else {
        None
    };

    rec.class(match exp {
        Exp::Ok => info.c_from[0],
        Exp::TooLarge => info.c_from[1],
        Exp::Negative => info.c_from[2],
    });
    rec.class_if(neg && payload_checked, "from:negative_payload_checked");
    rec.class_if(neg && !payload_checked, "from:negative_payload_unspecified");
    rec.class_if(sig.is_some(), "from:128bit_source_two_limb_target_hi_gt_mask");
    rec.class_if(sig.is_some() && sig.as_deref() != Some(&w[..]), "from:rem_mask_differs_from_and_mask");
    rec.class(gen_tag(c.n.get(2)));
    let mut ks = vec![bits, tb, tb.saturating_sub(1)];
    if bits > 0 {
        ks.push(bits - 1);
    }
    if tb == 128 {
        ks.push(64);
    }
    let near = near_pow2(vb, &ks);
    rec.class_if(near, "from:near_relevant_pow2");
    if exp != Exp::Ok || near {
        rec.nontrivial(&(c.n.first(), c.n.get(1)));
    }
    rec.sample(|| json!({"source_type": info.name, "source": vb.to_string(), "expect": format!("{exp:?}"), "wrapped": hexl(&w)}));
    let ctx = format!("{} {vb} -> Uint<{bits}>", info.name);

    judge_try(rec, "try_from", &obs[0], exp, bits, &w, payload_checked, &sig, &ctx)?;
    judge_try(rec, "uint_try_from", &obs[1], exp, bits, &w, payload_checked, &sig, &ctx)?;
    let err = match exp {
        Exp::Ok => None,
        Exp::TooLarge => Some("no_panic:too_large"),
        Exp::Negative => Some("no_panic:negative"),
    };
    judge_panics_iff(rec, "from", &obs[2], err, &w, &ctx)?;
    if payload_checked {
        let class = match (&obs[3], exp) {
            (_, Exp::Ok) => "wrapping_value_wrong:in_range",
            (Obs::Val(x), Exp::TooLarge) => payload_class(x, &sig, "wrapping_value_wrong:too_large"),
            (Obs::Val(x), Exp::Negative) => payload_class(x, &sig, "wrapping_value_wrong:negative"),
            _ => "wrapping_value_wrong",
        };
        judge_val(rec, "wrapping_from", &obs[3], &w, class, &ctx)?;
    } else if let Obs::Panic(m) = &obs[3] {
        forbidden_panic(rec, "wrapping_from", &ctx, m)?;
    }
    let (e, class) = match exp {
        Exp::Ok => (&w, "saturating_value_wrong:in_range"),
        Exp::TooLarge => (&max, "saturating_value_wrong:too_large"),
        Exp::Negative => (&zero, "saturating_value_wrong:negative"),
    };
    judge_val(rec, "saturating_from", &obs[4], e, class, &ctx)
}

// ---------------------------------------------------------------------------
// Rule family 2: Uint -> primitive

fn to_prim<T: Prim + std::fmt::Debug, const B: usize, const L: usize>(c: &Case, rec: &mut Rec) -> R
where
    T: TryFrom<Uint<B, L>, Error = FromUintError<T>>,
    T: for<'a> TryFrom<&'a Uint<B, L>, Error = FromUintError<T>>,
{
    let x: Uint<B, L> = mk(&c.l[0]);
    let obs = [
        obsp_try(catch(|| <T as TryFrom<Uint<B, L>>>::try_from(x))),
        obsp_try(catch(|| <T as TryFrom<&Uint<B, L>>>::try_from(&x))),
        obsp_try(catch(|| <Uint<B, L> as UintTryTo<T>>::uint_try_to(&x))),
        obsp_val(catch(|| x.to::<T>())),
        obsp_val(catch(|| x.wrapping_to::<T>())),
        obsp_val(catch(|| x.saturating_to::<T>())),
    ];
    judge_to_prim(c, rec, &T::INFO, B, &obs)
}

#[inline(never)]
fn judge_to_prim(c: &Case, rec: &mut Rec, info: &PrimInfo, bits: usize, obs: &[ObsP; 6]) -> R {
    let xb = big(&mask_limbs(&c.l[0], bits));
    let tb = info.tbits;
    let cap = tb - usize::from(info.signed);
    let fits = bit_len(&xb) <= cap;
    let low = limbs_of(&xb, 2);
    let wrapped = wrap_pattern((low[0] as u128) | ((low[1] as u128) << 64), info);
    let maxp: u128 = tmask(cap);

    rec.class(if fits { info.c_to[0] } else { info.c_to[1] });
    rec.class(gen_tag(c.n.first()));
    let near = near_pow2(&BigInt::from(xb.clone()), &[cap, tb, cap.saturating_sub(1)]);
    rec.class_if(near, "to:near_relevant_pow2");
    rec.class_if(!fits && bit_len(&xb) == cap + 1, "to:one_bit_over_capacity");
    rec.class_if(fits && bit_len(&xb) == cap, "to:exactly_at_capacity");
    rec.class_if(!fits && info.signed && (wrapped as i128) < 0, "to:wrapped_is_negative");
    if !fits || near {
        rec.nontrivial(&c.l[0]);
    }
    rec.sample(|| json!({"value": hex(&xb), "target": info.name, "fits": fits, "wrapped": show_pattern(wrapped, info)}));
    let ctx = format!("Uint<{bits}> {} -> {}", hex(&xb), info.name);

    judge_p_try(rec, "try_from_uint", &obs[0], fits, bits, wrapped, maxp, info, &ctx)?;
    judge_p_try(rec, "try_from_uint_ref", &obs[1], fits, bits, wrapped, maxp, info, &ctx)?;
    judge_p_try(rec, "uint_try_to", &obs[2], fits, bits, wrapped, maxp, info, &ctx)?;
    judge_p_panics_iff(rec, "to", &obs[3], fits, wrapped, info, &ctx)?;
    let class = if fits { "wrapping_value_wrong:fits" } else { "wrapping_value_wrong:overflow" };
    judge_p_val(rec, "wrapping_to", &obs[4], wrapped, class, info, &ctx)?;
    let (e, class) = if fits { (wrapped, "saturating_value_wrong:fits") } else { (maxp, "saturating_value_wrong:overflow") };
    judge_p_val(rec, "saturating_to", &obs[5], e, class, info, &ctx)
}

// ---------------------------------------------------------------------------
// Rule family 3: limb slices

fn slices<const B: usize, const L: usize>(c: &Case, rec: &mut Rec) -> R {
    let s: &[u64] = &c.l[0];
    let (ov, flag) = match catch(|| Uint::<B, L>::overflowing_from_limbs_slice(s)) {
        Ok((x, o)) => (Obs::Val(lv(&x)), Some(o)),
        Err(m) => (Obs::Panic(m), None),
    };
    let obs = [
        ov,
        obs_val(catch(|| Uint::<B, L>::wrapping_from_limbs_slice(s))),
        obs_opt(catch(|| Uint::<B, L>::checked_from_limbs_slice(s))),
        obs_val(catch(|| Uint::<B, L>::saturating_from_limbs_slice(s))),
        obs_val(catch(|| Uint::<B, L>::from_limbs_slice(s))),
    ];
    judge_slices(c, rec, B, L, &obs, flag)
}

#[inline(never)]
fn judge_slices(c: &Case, rec: &mut Rec, bits: usize, nl: usize, obs: &[Obs; 5], flag: Option<bool>) -> R {
    let s: &[u64] = &c.l[0];
    let vb = big(s);
    let fits = bit_len(&vb) <= bits;
    let w = limbs_of(&(&vb & mask_big(bits)), nl);
    let max = limbs_of(&mask_big(bits), nl);
    let topmask = if bits == 0 {
        0
    } else if bits % 64 == 0 {
        u64::MAX
    } else {
        (1u64 << (bits % 64)) - 1
    };
    let tail_nz = s.iter().skip(nl).any(|x| *x != 0);
    let top_over = nl > 0 && s.len() >= nl && s[nl - 1] > topmask;

    rec.class(if s.len() < nl {
        "slice:len<LIMBS"
    } else if s.len() == nl {
        "slice:len==LIMBS"
    } else if s.len() == nl + 1 {
        "slice:len==LIMBS+1"
    } else {
        "slice:len>=LIMBS+2"
    });
    rec.class_if(s.is_empty(), "slice:empty");
    rec.class_if(fits, "slice:fits");
    rec.class_if(tail_nz && !top_over, "slice:overflow_in_tail_only");
    rec.class_if(!tail_nz && top_over, "slice:overflow_in_top_limb_only");
    rec.class_if(tail_nz && top_over, "slice:overflow_in_both");
    rec.class_if(tail_nz && s.get(nl) == Some(&0), "slice:overflow_only_beyond_first_tail_limb");
    rec.class_if(s.len() > nl && fits, "slice:longer_but_fits");
    rec.class(gen_tag(c.n.first()));
    let near = near_pow2(&BigInt::from(vb.clone()), &[bits, bits.saturating_sub(1), 64 * nl]);
    rec.class_if(near, "slice:near_relevant_pow2");
    if !fits || near {
        rec.nontrivial(&c.l[0]);
    }
    rec.sample(|| json!({"slice": s.iter().map(|x| format!("0x{x:x}")).collect::<Vec<_>>(), "fits": fits, "wrapped": hexl(&w)}));
    let ctx = format!("slice of {} limbs, value {} -> Uint<{bits}>", s.len(), hex(&vb));

    judge_val(rec, "overflowing_from_limbs_slice", &obs[0], &w, "value_wrong", &ctx)?;
    if let Some(o) = flag {
        rec.eval(1);
        if o == fits {
            let class = if fits {
                "flag_true_expected_false"
            } else if tail_nz {
                "flag_false_expected_true:tail"
            } else {
                "flag_false_expected_true:top_limb"
            };
            rec.fail("overflowing_from_limbs_slice", class, format!("{ctx}: overflow flag {o}, expected {}", !fits))?;
        }
    }
    judge_val(rec, "wrapping_from_limbs_slice", &obs[1], &w, "value_wrong", &ctx)?;
    judge_opt(rec, "checked_from_limbs_slice", &obs[2], fits, &w, &ctx)?;
    let (e, class) = if fits { (&w, "saturating_value_wrong:in_range") } else { (&max, "saturating_value_wrong:too_large") };
    judge_val(rec, "saturating_from_limbs_slice", &obs[3], e, class, &ctx)?;
    judge_panics_iff(rec, "from_limbs_slice", &obs[4], if fits { None } else { Some("no_panic:too_large") }, &w, &ctx)
}

// ---------------------------------------------------------------------------
// Rule family 4: Uint -> Uint of another width

#[allow(deprecated)]
fn u2u<const BS: usize, const LS: usize, const BD: usize, const LD: usize>(c: &Case, rec: &mut Rec) -> R {
    let x: Uint<BS, LS> = mk(&c.l[0]);
    let obs = [
        obs_try(catch(|| <Uint<BD, LD> as UintTryFrom<Uint<BS, LS>>>::uint_try_from(x))),
        obs_val(catch(|| Uint::<BD, LD>::from(x))),
        obs_val(catch(|| Uint::<BD, LD>::wrapping_from(x))),
        obs_val(catch(|| Uint::<BD, LD>::saturating_from(x))),
        obs_tryto(catch(|| <Uint<BS, LS> as UintTryTo<Uint<BD, LD>>>::uint_try_to(&x))),
        obs_val(catch(|| x.to::<Uint<BD, LD>>())),
        obs_val(catch(|| x.wrapping_to::<Uint<BD, LD>>())),
        obs_val(catch(|| x.saturating_to::<Uint<BD, LD>>())),
        // deprecated but public
        obs_val(catch(|| Uint::<BD, LD>::from_uint(x))),
        obs_opt(catch(|| Uint::<BD, LD>::checked_from_uint(x))),
    ];
    judge_u2u(c, rec, BS, BD, &obs)
}

#[inline(never)]
fn judge_u2u(c: &Case, rec: &mut Rec, bs: usize, bd: usize, obs: &[Obs; 10]) -> R {
    let (ls, ld) = (nlimbs(bs), nlimbs(bd));
    let xl = mask_limbs(&c.l[0], bs);
    let xb = big(&xl);
    let fits = bit_len(&xb) <= bd;
    let w = limbs_of(&(&xb & mask_big(bd)), ld);
    let max = limbs_of(&mask_big(bd), ld);
    let exp = if fits { Exp::Ok } else { Exp::TooLarge };

    rec.class(if fits { "u2u:fits" } else { "u2u:too_large" });
    rec.class_if(!fits && bit_len(&xb) == bd + 1, "u2u:one_bit_over");
    rec.class_if(fits && bd > 0 && bit_len(&xb) == bd, "u2u:exactly_full");
    rec.class_if(!fits && ls > ld && bit_len(&xb) > 64 * ld && (ld == 0 || bd % 64 == 0 || xl[ld - 1] >> (bd % 64) == 0), "u2u:overflow_only_in_dropped_limbs");
    rec.class_if(!fits && ld > 0 && xl.iter().skip(ld).all(|l| *l == 0), "u2u:overflow_only_in_top_limb_mask");
    rec.class(gen_tag(c.n.first()));
    let near = near_pow2(&BigInt::from(xb.clone()), &[bd, bd.saturating_sub(1), 64 * ld]);
    rec.class_if(near, "u2u:near_relevant_pow2");
    if !fits || near {
        rec.nontrivial(&c.l[0]);
    }
    rec.sample(|| json!({"value": hex(&xb), "from_bits": bs, "to_bits": bd, "fits": fits, "wrapped": hexl(&w)}));
    let ctx = format!("Uint<{bs}> {} -> Uint<{bd}>", hex(&xb));

    // the `from` side
    judge_try(rec, "uint_try_from", &obs[0], exp, bd, &w, true, &None, &ctx)?;
    let err_from = if fits { None } else { Some("no_panic:too_large") };
    judge_panics_iff(rec, "from", &obs[1], err_from, &w, &ctx)?;
    let class = if fits { "wrapping_value_wrong:in_range" } else { "wrapping_value_wrong:too_large" };
    judge_val(rec, "wrapping_from", &obs[2], &w, class, &ctx)?;
    let (e, class) = if fits { (&w, "saturating_value_wrong:in_range") } else { (&max, "saturating_value_wrong:too_large") };
    judge_val(rec, "saturating_from", &obs[3], e, class, &ctx)?;

    // the `to` side. The `.0` field of Overflow is documented as "number of BITS in the
    // Uint"; with two Uints involved that is ambiguous, so source and target width are
    // both accepted (the implementation reports the target width; counted below).
    if let Obs::Overflow(b, ..) = &obs[4] {
        rec.class_if(*b == bd && bd != bs, "u2u:overflow_reports_target_bits");
        rec.class_if(*b == bs && bd != bs, "u2u:overflow_reports_source_bits");
    }
    judge_tryto(rec, "uint_try_to", &obs[4], fits, &[bs, bd], &w, &max, &ctx)?;
    judge_panics_iff(rec, "to", &obs[5], if fits { None } else { Some("no_panic:overflow") }, &w, &ctx)?;
    let class = if fits { "wrapping_value_wrong:fits" } else { "wrapping_value_wrong:overflow" };
    judge_val(rec, "wrapping_to", &obs[6], &w, class, &ctx)?;
    let (e, class) = if fits { (&w, "saturating_value_wrong:fits") } else { (&max, "saturating_value_wrong:overflow") };
    judge_val(rec, "saturating_to", &obs[7], e, class, &ctx)?;

    judge_panics_iff(rec, "from_uint", &obs[8], err_from, &w, &ctx)?;
    judge_opt(rec, "checked_from_uint", &obs[9], fits, &w, &ctx)
}

// ---------------------------------------------------------------------------
// Generators

fn p2(k: u32) -> u128 {
    if k >= 128 {
        0
    } else {
        1u128 << k
    }
}

/// Raw two's-complement patterns for a primitive of `tbits` bits aimed at Uint<bits>.
fn strat_from(tbits: u32, bits: usize) -> BoxedStrategy<Case> {
    let tmask: u128 = if tbits >= 128 { u128::MAX } else { (1u128 << tbits) - 1 };
    let mk_case = move |raw: u128, tag: u64| {
        let r = raw & tmask;
        Case::new().n(r as u64).n((r >> 64) as u64).n(tag)
    };
    let mut ks: Vec<u32> = vec![7, 8, 15, 16, 31, 32, 63, 64, 127, tbits - 1, tbits];
    for k in [bits.wrapping_sub(1), bits, bits + 1] {
        if k <= 128 {
            ks.push(k as u32);
        }
    }
    ks.retain(|k| *k <= tbits);
    ks.sort_unstable();
    ks.dedup();
    let specials = select(vec![
        0u128,
        1,
        2,
        u128::MAX,                        // -1 / MAX
        u128::MAX - 1,                    // -2 / MAX-1
        p2(tbits - 1),                    // MIN of the signed type / 2^(t-1)
        p2(tbits - 1).wrapping_sub(1),    // MAX of the signed type
        p2(tbits - 1).wrapping_add(1),    // MIN+1
    ])
    .prop_map(move |r| mk_case(r, 0));
    let around = |k: u32, d: i64, ng: bool| {
        let v = p2(k).wrapping_add(d as i128 as u128);
        if ng {
            v.wrapping_neg()
        } else {
            v
        }
    };
    let boundary = (select(ks), -2i64..=2, any::<bool>()).prop_map(move |(k, d, ng)| mk_case(around(k, d, ng), 1));
    let anyk = (0..=tbits, -2i64..=2, any::<bool>()).prop_map(move |(k, d, ng)| mk_case(around(k, d, ng), 2));
    let random = (any::<u128>(), 0u32..128, any::<bool>()).prop_map(move |(x, s, inv)| {
        let v = x >> s;
        mk_case(if inv { !v } else { v }, 3)
    });
    let alphabet = (limb(), limb()).prop_map(move |(lo, hi)| mk_case((lo as u128) | ((hi as u128) << 64), 4));
    // q * 2^bits + r: too large by a few multiples, arbitrary residue (wrapped payload)
    let b = bits.min(127) as u32;
    let multiple = (limb(), any::<u128>(), any::<bool>()).prop_map(move |(q, r, small_q)| {
        let q = if small_q { (q % 8) as u128 } else { q as u128 };
        let low = if b == 0 { 0 } else { r & ((1u128 << b) - 1) };
        mk_case(q.wrapping_shl(b).wrapping_add(low), 5)
    });
    prop_oneof![1 => specials, 4 => boundary, 2 => anyk, 2 => random, 2 => alphabet, 2 => multiple].boxed()
}

fn shifted(mut v: Vec<u64>, d: i64) -> Vec<u64> {
    if d < 0 {
        sub_small(&mut v, d.unsigned_abs());
    } else {
        add_small(&mut v, d as u64);
    }
    v
}

/// keep only the low `j` bits of `v`
fn low_bits(mut v: Vec<u64>, j: usize) -> Vec<u64> {
    for (i, x) in v.iter_mut().enumerate() {
        if 64 * i >= j {
            *x = 0;
        } else if 64 * (i + 1) > j {
            *x &= (1u64 << (j - 64 * i)) - 1;
        }
    }
    v
}

/// Values of Uint<bits> aimed at a primitive of `tbits` bits.
fn strat_to(tbits: u32, bits: usize) -> BoxedStrategy<Case> {
    let n = nlimbs(bits);
    if bits == 0 {
        return Just(Case::new().l(vec![]).n(0)).boxed();
    }
    let t = tbits as usize;
    let mut ks: Vec<usize> = vec![7, 8, 15, 16, 31, 32, 63, 64, 127, 128, t.saturating_sub(2), t - 1, t, t + 1, bits - 1];
    ks.retain(|k| *k < bits);
    ks.sort_unstable();
    ks.dedup();
    let general = uint(bits).prop_map(|v| Case::new().l(v).n(0));
    let boundary = (select(ks), -2i64..=2).prop_map(move |(k, d)| Case::new().l(mask_vec(shifted(pow2_vec(k, n), d), bits)).n(1));
    // a value that fits the target (0..=tbits significant bits)
    let fits = (uint(bits), 0..=t.min(bits)).prop_map(move |(v, j)| Case::new().l(low_bits(v, j)).n(6));
    // arbitrary low part with the highest set bit at j in [tbits-1, bits)
    let lo_j = (t - 1).min(bits - 1);
    let high = (uint(bits), lo_j..bits).prop_map(move |(v, j)| {
        let mut v = low_bits(v, j);
        v[j / 64] |= 1u64 << (j % 64);
        Case::new().l(v).n(7)
    });
    prop_oneof![3 => general, 3 => boundary, 2 => fits, 2 => high].boxed()
}

fn strat_slice(bits: usize) -> BoxedStrategy<Case> {
    let l = nlimbs(bits);
    let any_len = (0..=l + 2).prop_flat_map(limbs).prop_map(|v| Case::new().l(v).n(10));
    let fits = (uint(bits), 0usize..=2).prop_map(move |(mut v, extra)| {
        v.resize(l + extra, 0);
        Case::new().l(v).n(11)
    });
    let tail_only = (uint(bits), 1usize..=2, any::<bool>(), limb()).prop_map(move |(mut v, extra, last, x)| {
        v.resize(l + extra, 0);
        let pos = if last { l + extra - 1 } else { l };
        v[pos] = if x == 0 { 1 } else { x };
        Case::new().l(v).n(13)
    });
    let mut ks: Vec<usize> = vec![bits, bits + 1, 64 * l, 64 * l + 1, 64 * (l + 1)];
    if bits > 0 {
        ks.push(bits - 1);
        ks.push(64 * l - 1);
    }
    ks.sort_unstable();
    ks.dedup();
    let boundary = (select(ks), -2i64..=2, any::<bool>()).prop_map(move |(k, d, trim)| {
        let mut v = shifted(pow2_vec(k, l + 2), d);
        if k == 0 && d < -1 {
            v = vec![0; l + 2]; // 2^0 - 2 would wrap around
        }
        if trim {
            while v.last() == Some(&0) {
                v.pop();
            }
        }
        Case::new().l(v).n(15)
    });
    if l == 0 {
        return prop_oneof![3 => any_len, 1 => fits, 2 => tail_only, 2 => boundary].boxed();
    }
    let sh = (bits % 64) as u32;
    let top_over = (uint(bits), limb(), 0usize..=2).prop_map(move |(mut v, hi, extra)| {
        if sh != 0 {
            v[l - 1] |= (hi | 1) << sh; // at least the first bit above the mask
        } else {
            // limb-aligned width: the top limb cannot exceed the mask; overflow by the next limb
            v.push(hi | 1);
        }
        let len = v.len();
        v.resize(len + extra, 0);
        Case::new().l(v).n(12)
    });
    let short = (uint(bits), 0..l).prop_map(move |(mut v, len)| {
        v.truncate(len);
        Case::new().l(v).n(14)
    });
    prop_oneof![3 => any_len, 2 => fits, 2 => top_over, 2 => tail_only, 1 => short, 2 => boundary].boxed()
}

/// Values of Uint<bs> aimed at Uint<bd>.
fn strat_u2u(bs: usize, bd: usize) -> BoxedStrategy<Case> {
    let n = nlimbs(bs);
    if bs == 0 {
        return Just(Case::new().l(vec![]).n(0)).boxed();
    }
    let ld = nlimbs(bd);
    let mut ks: Vec<usize> = vec![bd, bd + 1, 64 * ld, 64 * ld + 1, bs - 1];
    if bd > 0 {
        ks.push(bd - 1);
        ks.push(64 * ld - 1);
        ks.push(64 * (ld - 1));
    }
    ks.retain(|k| *k < bs);
    ks.sort_unstable();
    ks.dedup();
    let general = uint(bs).prop_map(|v| Case::new().l(v).n(0));
    let boundary = (select(ks), -2i64..=2).prop_map(move |(k, d)| {
        let v = if k == 0 && d < -1 { vec![0; n] } else { shifted(pow2_vec(k, n), d) };
        Case::new().l(mask_vec(v, bs)).n(1)
    });
    let fits = uint(bd).prop_map(move |v| Case::new().l(mask_vec(v, bs)).n(6));
    if bs > bd {
        let high = (uint(bs), bd..bs, any::<bool>()).prop_map(move |(v, j, clear_low)| {
            let mut v = low_bits(v, j);
            if clear_low {
                v = vec![0; n];
            }
            v[j / 64] |= 1u64 << (j % 64);
            Case::new().l(v).n(7)
        });
        prop_oneof![3 => general, 3 => boundary, 2 => fits, 2 => high].boxed()
    } else {
        prop_oneof![3 => general, 3 => boundary, 2 => fits].boxed()
    }
}

// ---------------------------------------------------------------------------
// Enumerators

fn enum_raw(count: u64, f: &mut dyn FnMut(&Case) -> R) -> R {
    for r in 0..count {
        f(&Case::new().n(r).n(0).n(9))?;
    }
    Ok(())
}

fn enum_uint(bits: usize, f: &mut dyn FnMut(&Case) -> R) -> R {
    if bits == 0 {
        return f(&Case::new().l(vec![]).n(9));
    }
    for a in 0..(1u64 << bits) {
        f(&Case::new().l(vec![a]).n(9))?;
    }
    Ok(())
}

// ---------------------------------------------------------------------------
// Registration

/// The width list of this check (moderate: 13 types x 2 directions are instantiated per width).
macro_rules! wl {
    ($m:ident ! ( $($pre:tt)* )) => {
        $m!($($pre)* [0, 1, 2, 7, 8, 15, 16, 17, 31, 32, 63, 64, 65, 66, 127, 128, 129, 192, 256, 320])
    };
}

/// Which generator / enumerator a job uses. Plain data, so that `Jobs::gen` /
/// `Jobs::enumerate` are instantiated once instead of once per call site.
#[derive(Clone, Copy)]
enum Src {
    From(u32, usize),
    To(u32, usize),
    Slice(usize),
    U2U(usize, usize),
    EnumRaw(u64),
    EnumUint(usize),
}

#[inline(never)]
fn add(jobs: &mut Jobs, rule: &'static str, bits: usize, cases: u32, src: Src, body: Body) {
    match src {
        Src::EnumRaw(n) => jobs.enumerate(rule, bits, move |f| enum_raw(n, f), body),
        Src::EnumUint(b) => jobs.enumerate(rule, bits, move |f| enum_uint(b, f), body),
        _ => jobs.gen(
            rule,
            bits,
            cases,
            move || match src {
                Src::From(t, b) => strat_from(t, b),
                Src::To(t, b) => strat_to(t, b),
                Src::Slice(b) => strat_slice(b),
                Src::U2U(s, d) => strat_u2u(s, d),
                Src::EnumRaw(_) | Src::EnumUint(_) => unreachable!(),
            },
            body,
        ),
    }
}

macro_rules! reg_prim {
    ($jobs:expr, $t:ty, $rf:literal, $rt:literal, $cases:expr; [$($b:literal),* $(,)?]) => {$(
        add($jobs, $rf, $b, $cases, Src::From(<$t as Prim>::INFO.tbits as u32, $b), from_prim::<$t, $b, { ruint::nlimbs($b) }>);
        add($jobs, $rt, $b, $cases, Src::To(<$t as Prim>::INFO.tbits as u32, $b), to_prim::<$t, $b, { ruint::nlimbs($b) }>);
    )*};
}

/// All values of a narrow primitive into every width.
macro_rules! reg_prim_all_values {
    ($jobs:expr, $t:ty, $rule:literal, $count:expr; [$($b:literal),* $(,)?]) => {$(
        add($jobs, $rule, $b, 0, Src::EnumRaw($count), from_prim::<$t, $b, { ruint::nlimbs($b) }>);
    )*};
}

/// All values of a narrow Uint into a primitive.
macro_rules! reg_to_all_values {
    ($jobs:expr, $t:ty, $rule:literal; [$($b:literal),* $(,)?]) => {$(
        add($jobs, $rule, $b, 0, Src::EnumUint($b), to_prim::<$t, $b, { ruint::nlimbs($b) }>);
    )*};
}

macro_rules! reg_slices {
    ($jobs:expr, $cases:expr; [$($b:literal),* $(,)?]) => {$(
        add($jobs, "slice", $b, $cases, Src::Slice($b), slices::<$b, { ruint::nlimbs($b) }>);
    )*};
}

macro_rules! reg_pairs {
    ($jobs:expr, $cases:expr; $(($s:literal, $d:literal)),* $(,)?) => {$(
        add(
            $jobs,
            concat!("u2u_", stringify!($s), "_to_", stringify!($d)),
            $s,
            $cases,
            Src::U2U($s, $d),
            u2u::<$s, { ruint::nlimbs($s) }, $d, { ruint::nlimbs($d) }>,
        );
    )*};
}

macro_rules! reg_pairs_all_values {
    ($jobs:expr; $(($s:literal, $d:literal)),* $(,)?) => {$(
        add(
            $jobs,
            concat!("u2u_all_", stringify!($s), "_to_", stringify!($d)),
            $s,
            0,
            Src::EnumUint($s),
            u2u::<$s, { ruint::nlimbs($s) }, $d, { ruint::nlimbs($d) }>,
        );
    )*};
}

// ---------------------------------------------------------------------------
// Oracle self-tests

fn selftest_prim<T: Prim>() {
    let info = T::INFO;
    let tb = info.tbits;
    let raws: Vec<u128> = vec![
        0,
        1,
        2,
        3,
        0x7f,
        0x80,
        0xff,
        0x100,
        0x7fff,
        0x8000,
        0xffff,
        0x1_0000,
        0x7fff_ffff,
        0x8000_0000,
        0xffff_ffff,
        0x1_0000_0000,
        (1 << 63) - 1,
        1 << 63,
        u64::MAX as u128,
        1 << 64,
        (1 << 127) - 1,
        1 << 127,
        u128::MAX,
        u128::MAX - 1,
        0x1234_5678_9abc_def0_0fed_cba9_8765_4321,
        0xfedc_ba98_7654_3210_f0e1_d2c3_b4a5_9687,
    ];
    for raw in raws {
        // independent reading of "the low tb bits of raw as a (signed) integer": shifts on i128/u128
        let sh = (128 - tb) as u32;
        let exp: BigInt = if info.signed { BigInt::from(((raw << sh) as i128) >> sh) } else { BigInt::from((raw << sh) >> sh) };
        let v = T::from_raw(raw);
        if v.to_big() != exp {
            harness_error(&format!("Prim self-test failed for {} raw 0x{raw:x}", info.name));
        }
        // the pattern oracle against the primitive casts
        if wrap_pattern(raw, &info) != v.to_raw() {
            harness_error(&format!("wrap_pattern self-test failed for {} raw 0x{raw:x}", info.name));
        }
        // patterns are a faithful (injective) view of the value
        let back = if info.signed { BigInt::from(v.to_raw() as i128) } else { BigInt::from(v.to_raw()) };
        if back != exp {
            harness_error(&format!("to_raw self-test failed for {} raw 0x{raw:x}", info.name));
        }
    }
    let cap = tb - usize::from(info.signed);
    if BigInt::from(tmask(cap)) != (BigInt::one() << cap) - 1 || tmask(cap) != T::max_raw() {
        harness_error(&format!("MAX self-test failed for {}", info.name));
    }
}

fn selftests() {
    selftest_prim::<bool>();
    selftest_prim::<u8>();
    selftest_prim::<u16>();
    selftest_prim::<u32>();
    selftest_prim::<u64>();
    selftest_prim::<u128>();
    selftest_prim::<usize>();
    selftest_prim::<i8>();
    selftest_prim::<i16>();
    selftest_prim::<i32>();
    selftest_prim::<i64>();
    selftest_prim::<i128>();
    selftest_prim::<isize>();
    // floor-mod of negatives
    let m = BigInt::one() << 8usize;
    if BigInt::from(-1).mod_floor(&m) != BigInt::from(255) || BigInt::from(-256).mod_floor(&m) != BigInt::zero() || BigInt::from(-129).mod_floor(&m) != BigInt::from(127) {
        harness_error("mod_floor self-test failed");
    }
    // limb bridge
    let v = (BigUint::one() << 64usize) + 5u32;
    if num(&mkb::<65, 2>(&v)) != v || limbs_of(&v, 2) != vec![5, 1] || num(&mkb::<64, 1>(&v)) != BigUint::from(5u32) {
        harness_error("limb bridge self-test failed");
    }
    if low_bits(vec![u64::MAX, u64::MAX, u64::MAX], 65) != vec![u64::MAX, 1, 0] || low_bits(vec![u64::MAX, u64::MAX], 64) != vec![u64::MAX, 0] || low_bits(vec![u64::MAX], 0) != vec![0] {
        harness_error("low_bits self-test failed");
    }
    if !near_pow2(&BigInt::from(-130), &[7]) || !near_pow2(&BigInt::from(254), &[8]) || near_pow2(&BigInt::from(131), &[7]) {
        harness_error("near_pow2 self-test failed");
    }
}

fn main() {
    selftests();
    let spec = PropSpec {
        id: "C07",
        rule_text: "from_<T>/to_<T> for T in bool,u8..u128,usize,i8..i128,isize x 20 widths (0,1,2,7,8,15,16,17,31,32,63,64,65,66,127,128,129,192,256,320), 5000 generated cases per (direction,type,width): primitive sources are raw two's-complement patterns from {0,1,2,-1,-2,MIN,MAX,MIN+1}, +-2^k+{-2..2} for k in {BITS-1,BITS,BITS+1,7,8,15,16,31,32,63,64,127,bits(T)-1,bits(T)} and for any k<=bits(T), random>>s and its complement, limb-alphabet pairs, q*2^BITS+r; Uint sources are the shared boundary-alphabet values, 2^k+{-2..2} around the target capacity, values of 0..bits(T) significant bits, values with the top bit anywhere in [bits(T)-1,BITS). Exhaustive: every bool/u8/i8/u16/i16 value into every one of the 20 widths; every value of Uint<0,1,2,7,8,15,16,17> into every primitive. slice: 10000 per width, lengths 0..=LIMBS+2 (any content; fitting value + zero tail; top limb over the mask; exactly one tail limb non-zero (first or last); shorter than LIMBS; 2^k+-2 around BITS and 64*LIMBS, optionally trimmed). u2u_S_to_D: 36 width pairs mixing 0,1,63,64,65,127,128,129,192,256,320, 5000 each (values around 2^D and 2^(64*limbs(D)), fitting values, one bit above the target) + 19 exhaustively enumerated small pairs (source width <= 17). Oracle: BigInt::from(primitive), floor-mod 2^BITS, BigUint from limbs, two's-complement wrapping on u128 patterns self-tested against `as` casts; results compared on all 64*LIMBS bits. Non-trivial: the conversion is expected to take the error path, or the source is within +-2 of +-2^k for k in {BITS-1,BITS,bits(T)-1,bits(T),64 for 128-bit T} (primitive -> Uint), {capacity-1,capacity,bits(T)} (Uint -> primitive), {D-1,D,64*limbs(D)} (slices, Uint -> Uint); distinct by (rule,width,input).",
        assumptions: vec![
            "num-bigint From<primitive>, shifts, floor-mod and comparison are correct (oracle)",
            "primitive `as` casts are the definition of two's-complement wrapping (oracle for Uint -> primitive)",
            "x86-64 little-endian target only: usize/isize are 64 bits",
            "ValueNegative payload and wrapping_from of a negative source are not compared when BITS > bits(source type) (statement silent)",
            "FromUintError::Overflow.0 of Uint -> Uint conversions may be the source or the target width (documentation ambiguous)",
            "harness constructor Uint::from_limbs and as_limbs are trusted",
        ],
        thorough_mult: 30,
    };
    main_with(
        spec,
        |jobs, _| {
            // primitive <-> Uint, generated
            wl!(reg_prim!(jobs, bool, "from_bool", "to_bool", 5000;));
            wl!(reg_prim!(jobs, u8, "from_u8", "to_u8", 5000;));
            wl!(reg_prim!(jobs, u16, "from_u16", "to_u16", 5000;));
            wl!(reg_prim!(jobs, u32, "from_u32", "to_u32", 5000;));
            wl!(reg_prim!(jobs, u64, "from_u64", "to_u64", 5000;));
            wl!(reg_prim!(jobs, u128, "from_u128", "to_u128", 5000;));
            wl!(reg_prim!(jobs, usize, "from_usize", "to_usize", 5000;));
            wl!(reg_prim!(jobs, i8, "from_i8", "to_i8", 5000;));
            wl!(reg_prim!(jobs, i16, "from_i16", "to_i16", 5000;));
            wl!(reg_prim!(jobs, i32, "from_i32", "to_i32", 5000;));
            wl!(reg_prim!(jobs, i64, "from_i64", "to_i64", 5000;));
            wl!(reg_prim!(jobs, i128, "from_i128", "to_i128", 5000;));
            wl!(reg_prim!(jobs, isize, "from_isize", "to_isize", 5000;));
            // every value of the narrow primitives into every width
            wl!(reg_prim_all_values!(jobs, bool, "from_bool_all", 2;));
            wl!(reg_prim_all_values!(jobs, u8, "from_u8_all", 256;));
            wl!(reg_prim_all_values!(jobs, i8, "from_i8_all", 256;));
            wl!(reg_prim_all_values!(jobs, u16, "from_u16_all", 65536;));
            wl!(reg_prim_all_values!(jobs, i16, "from_i16_all", 65536;));
            // every value of the narrow Uints into every primitive
            reg_to_all_values!(jobs, bool, "to_bool_all"; [0, 1, 2, 7, 8, 15, 16, 17]);
            reg_to_all_values!(jobs, u8, "to_u8_all"; [0, 1, 2, 7, 8, 15, 16, 17]);
            reg_to_all_values!(jobs, u16, "to_u16_all"; [0, 1, 2, 7, 8, 15, 16, 17]);
            reg_to_all_values!(jobs, u32, "to_u32_all"; [0, 1, 2, 7, 8, 15, 16, 17]);
            reg_to_all_values!(jobs, u64, "to_u64_all"; [0, 1, 2, 7, 8, 15, 16, 17]);
            reg_to_all_values!(jobs, u128, "to_u128_all"; [0, 1, 2, 7, 8, 15, 16, 17]);
            reg_to_all_values!(jobs, usize, "to_usize_all"; [0, 1, 2, 7, 8, 15, 16, 17]);
            reg_to_all_values!(jobs, i8, "to_i8_all"; [0, 1, 2, 7, 8, 15, 16, 17]);
            reg_to_all_values!(jobs, i16, "to_i16_all"; [0, 1, 2, 7, 8, 15, 16, 17]);
            reg_to_all_values!(jobs, i32, "to_i32_all"; [0, 1, 2, 7, 8, 15, 16, 17]);
            reg_to_all_values!(jobs, i64, "to_i64_all"; [0, 1, 2, 7, 8, 15, 16, 17]);
            reg_to_all_values!(jobs, i128, "to_i128_all"; [0, 1, 2, 7, 8, 15, 16, 17]);
            reg_to_all_values!(jobs, isize, "to_isize_all"; [0, 1, 2, 7, 8, 15, 16, 17]);
            // limb slices
            wl!(reg_slices!(jobs, 10000;));
            // Uint -> Uint
            reg_pairs!(jobs, 5000;
                (0, 0), (0, 64), (1, 0), (64, 0), (1, 1), (1, 64), (64, 1),
                (63, 64), (64, 63), (64, 64), (64, 65), (65, 64), (65, 63), (65, 127), (127, 65),
                (127, 128), (128, 127), (128, 64), (64, 128), (128, 129), (129, 128), (129, 65),
                (192, 128), (128, 192), (192, 65), (256, 64), (256, 128), (256, 192), (192, 256),
                (320, 256), (256, 320), (320, 1), (320, 63), (320, 129), (63, 320), (256, 256),
            );
            reg_pairs_all_values!(jobs;
                (0, 8), (1, 0), (1, 1), (1, 2), (2, 1), (8, 0), (8, 1), (8, 7), (7, 8), (8, 8), (8, 64), (8, 65),
                (16, 8), (16, 15), (16, 16), (16, 17), (16, 128), (17, 16), (17, 1),
            );
        },
        |_| Map::new(),
    );
}
