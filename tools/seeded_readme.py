#!/usr/bin/env python3
"""Regenerates /verif/seeded/README.md from the meta.json files."""
import json, os
root = '/verif/seeded'
rows = []
for d in sorted(os.listdir(root)):
    p = os.path.join(root, d, 'meta.json')
    if not os.path.exists(p): continue
    m = json.load(open(p))
    res = m.get('confirmed_here', {}).get('results', {})
    files = ', '.join(m.get('files', [])) if isinstance(m.get('files'), list) else str(m.get('files', ''))
    summ = (m.get('summary', '') or '').replace('\n', ' ')
    needs = (m.get('needs', '') or '').replace('\n', ' ')
    if len(summ) > 260: summ = summ[:257] + '...'
    if len(needs) > 220: needs = needs[:217] + '...'
    verdict = '; '.join('%s: %s' % (k, v) for k, v in res.items())
    rows.append((d, m.get('breaks_property', m.get('property', '')), files, summ, needs, verdict))
out = ["# Seeded changes", "",
 "Each directory holds one independently written change to recmo/uint that breaks one listed property while still compiling and passing the pinned test suite: `patch.diff`, a demonstration (`demo_test.rs` / `demo.rs` + `RUN.md`) and `meta.json` (what it breaks, what it needs to manifest, what was run here). They were written by fresh sub-agents that were given only the property text and a scratch worktree (round 1), then the same plus a one-line description of what earlier rounds had touched so that they pick something different (rounds 2 and 3: `-2`, `-3` suffixes). Every change was confirmed here before being kept (suite passes with it, demonstration fails with it and passes without it), and none of them is ever committed to /repo. To run the checks against one: `tools/mut.py --patch /verif/seeded/<dir>/patch.diff <check ids>` (applies it to /repo, runs the quick tier, restores /repo).", "",
 "| dir | property | files | what was changed | what it needs | checks |", "|---|---|---|---|---|---|"]
for r in rows:
    out.append('| ' + ' | '.join(x.replace('|', '\\|') for x in r) + ' |')
missed = [r for r in rows if 'MISSED' in r[5]]
out += ["", "## Summary", "",
 "%d seeded changes; %d were missed by the first version of the responsible check and led to a strengthening (see the `MISSED ... caught after` entries above); all %d are caught by the quick tier of the current checks." % (len(rows), len(missed), len(rows)), ""]
open(os.path.join(root, 'README.md'), 'w').write('\n'.join(out))
print(len(rows), 'seeds;', len(missed), 'initially missed')
