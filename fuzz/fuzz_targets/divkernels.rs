//! E4 target `divkernels`: coverage-guided search over numerator / divisor limb slices for
//! `ruint::algorithms::div` (+ addmul as the inverse check), oracle = num-bigint, inside the target.
#![no_main]
use arbitrary::Unstructured;
use libfuzzer_sys::fuzz_target;
use num_bigint::BigUint;

fn big(l: &[u64]) -> BigUint {
    let mut bytes = Vec::with_capacity(l.len() * 8);
    for x in l {
        bytes.extend_from_slice(&x.to_le_bytes());
    }
    BigUint::from_bytes_le(&bytes)
}

/// one limb: a tag byte selects a boundary value or raw bytes
fn limb(u: &mut Unstructured) -> u64 {
    match u.arbitrary::<u8>().unwrap_or(0) % 12 {
        0 => 0,
        1 => 1,
        2 => u64::MAX,
        3 => u64::MAX - 1,
        4 => 1 << 63,
        5 => (1 << 63) - 1,
        6 => 1u64 << (u.arbitrary::<u8>().unwrap_or(0) % 64),
        7 => (1u64 << (u.arbitrary::<u8>().unwrap_or(0) % 64)).wrapping_sub(1),
        _ => u.arbitrary::<u64>().unwrap_or(0),
    }
}

fn slice(u: &mut Unstructured, max: usize) -> Vec<u64> {
    let n = u.arbitrary::<u8>().unwrap_or(0) as usize % (max + 1);
    (0..n).map(|_| limb(u)).collect()
}

fuzz_target!(|data: &[u8]| {
    let mut u = Unstructured::new(data);
    let mut num = slice(&mut u, 12);
    let mut div = slice(&mut u, 12);
    // copy-top shape: optionally overwrite the numerator's top limbs with the divisor's
    if u.arbitrary::<bool>().unwrap_or(false) && !div.is_empty() && num.len() >= div.len() {
        let off = num.len() - div.len();
        let keep = u.arbitrary::<u8>().unwrap_or(2) as usize % (div.len() + 1);
        for i in div.len() - keep..div.len() {
            num[off + i] = div[i];
        }
    }
    let (nb, db) = (big(&num), big(&div));
    if db == BigUint::default() {
        return; // zero divisor panics by contract (checked by the C14 harness rule)
    }
    let (n0, d0) = (num.clone(), div.clone());
    ruint::algorithms::div(&mut num, &mut div);
    let (q, r) = (big(&num), big(&div));
    if q != &nb / &db || r != &nb % &db {
        panic!("VERIF-ORACLE div mismatch: numerator {n0:x?} divisor {d0:x?} got q {num:x?} r {div:x?}");
    }
    // inverse through addmul: q*d + r == n (accumulator pre-loaded with r)
    let mut acc = vec![0u64; n0.len().max(d0.len()) + 1];
    for (a, b) in acc.iter_mut().zip(div.iter()) {
        *a = *b;
    }
    let overflow = ruint::algorithms::addmul(&mut acc, &num, &d0);
    if overflow || big(&acc) != nb {
        panic!("VERIF-ORACLE addmul inverse mismatch: numerator {n0:x?} divisor {d0:x?}");
    }
});
