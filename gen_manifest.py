#!/usr/bin/env python3
"""Regenerates MANIFEST.json from the table below (kept in one place so the
manifest stays valid and in sync with the implemented checks)."""
import json, os
ROOT = os.path.dirname(os.path.abspath(__file__))

# id -> (technique, level text, level note, design ref, has_thorough)
CHECKS = {
 "C03": ("property-based testing (proptest, boundary-alphabet generators) + exhaustive enumeration for BITS<=8, num-bigint differential oracle",
         "Exploration: every division entry point compared with exact BigUint quotient/remainder on generated (n,d) built to reach every dispatch arm, the Knuth add-back and forced-digit paths and all reciprocal corrections (reach measured by hook counters), complete enumeration of all operand pairs for widths <= 8 bits. No absence proof above 8 bits.",
         "Trusts num-bigint, the harness constructor (Uint::from_limbs), x86-64 LE; fixed width grid.", "DESIGN.md 4 C03"),
}
CHECKS.update({
 "C01": ("property-based testing (proptest, boundary-alphabet generators) + exhaustive enumeration for BITS<=8, num-bigint differential oracle",
         "Exploration: every add/sub/neg/abs_diff/Sum entry point compared with exact BigUint arithmetic mod 2^BITS and the exact overflow predicates, on generated pairs built to land within +-2 of the modulus and of zero and to ripple carries across limbs; complete enumeration of all pairs for widths <= 8 bits.",
         "Trusts num-bigint, Uint::from_limbs, x86-64 LE; fixed width grid (30 widths incl. 0, 1, non-aligned, 1024, 4096).", "DESIGN.md 4 C01"),
 "C02": ("property-based testing (proptest, zero-limb-shape and boundary-product generators) + exhaustive enumeration for BITS<=8, num-bigint differential oracle, validity predicate for inv_ring",
         "Exploration: wrapping/overflowing/checked/saturating mul, operators, Product and widening_mul (24 width pairs) compared with exact BigUint products; operands built with zero low/high/middle limbs to reach every trimming path of addmul and products within +-1 of 2^BITS; inv_ring checked by the defining identity; complete enumeration for widths <= 8 bits.",
         "Trusts num-bigint, Uint::from_limbs, x86-64 LE; fixed width grid and pair grid.", "DESIGN.md 4 C02"),
 "C14": ("property-based testing (proptest, slice-level generators per kernel domain) + fixed enumeration of all 256 reciprocal table rows, num-bigint/u128 differential oracle, branch-coverage hook counters",
         "Exploration: algorithms::div and every specialised kernel (n-by-1, n-by-2, n-by-m normalised and un-normalised, 2-by-1, 3-by-2, reciprocals) on their documented domains against exact quotient/remainder and the closed-form reciprocal; reach of every correction branch is measured by hook counters and reported in the evidence.",
         "Trusts num-bigint/u128 division; div_nxm_normalized only on the shape used by the repo's own tests; div_3x2_ref excluded (documented off by one).", "DESIGN.md 4 C14"),
})
CHECKS.update({
 "C05": ("property-based testing (proptest; amounts biased to limb/BITS boundaries, Uint-typed amounts incl. >= 2^64) + exhaustive enumeration for BITS<=8, num-bigint oracle",
         "Exploration: all shift/rotate methods, the <<, >>, <<=, >>= overloads for 10 integer types (value and reference amounts) and for Uint amounts compared with exact BigUint shifts and the documented lost-bit overflow predicate; flag-true cases classified by how the bit left the word (dropped limb / mask / bit carry); complete enumeration of value x amount for widths <= 8 bits.",
         "Trusts num-bigint; signed operator amounts non-negative only; x86-64 (usize = u64).", "DESIGN.md 4 C05"),
 "C06": ("property-based testing (proptest) + exhaustive enumeration for BITS<=8 (all pairs, all value x index), bit-level num-bigint oracle",
         "Exploration: logic operators, bit/set_bit/byte/checked_byte with in- and out-of-range indices, all counting functions, reverse_bits, power-of-two helpers and most_significant_bits compared with definitions over exactly BITS bits; complete enumeration for widths <= 8 bits.",
         "Trusts num-bigint; little-endian byte() arm only.", "DESIGN.md 4 C06"),
 "C15": ("property-based testing (proptest, slice-shape generators) + full-square enumeration of a 440-word boundary alphabet for the scalar primitives, exact integer identities in num-bigint/u128",
         "Exploration: addmul/addmul_n/mul_nx1/addmul_nx1/submul_nx1/add_nx1/adc_n/sbb_n/shift_*_small/cmp on lengths 0..=10 with zero-limb and all-ones shapes and accumulators shorter/equal/longer than the product, checked by exact identities (result limbs and carry/borrow word); adc/sbb/carrying_add/borrowing_sub on the complete square of the boundary alphabet x both carries.",
         "Trusts num-bigint/u128; carry-in > 1 and unequal nx1 lengths are outside the callers' domain (no-panic only / not exercised).", "DESIGN.md 4 C15"),
})
CHECKS.update({
 "C07": ("property-based testing (proptest, values at 2^k+-2 for the k relevant to each (type, width)) + exhaustive enumeration of all 8/16-bit sources and small-width targets, i128/BigInt oracle",
         "Exploration: every primitive->Uint, Uint->primitive, limb-slice and Uint->Uint conversion entry point (try/from/wrapping/saturating/to) against exact integer semantics incl. the error variants and wrapped payloads; exhaustive for all bool/u8/i8/u16/i16 values into every width and all values of widths <= 17 into every primitive.",
         "Trusts num-bigint and `as` casts (self-tested); ValueNegative payload unspecified when BITS exceeds the source width; Overflow.0 of Uint->Uint accepted as either width.", "DESIGN.md 4 C07"),
 "C08": ("property-based testing (proptest; byte strings from 6 mutation classes) + enumeration of all strings of length <= 1, base-256 num-bigint oracle",
         "Exploration: all encoding forms (arrays, vecs, borrowed, trimmed, copy-into-poisoned-buffer incl. too-short buffers for the checked forms) against the base-256 digits; all decoders on strings of length 0..=BYTES+8 with Some(v) iff len <= BYTES and v < 2^BITS, never panicking; widths emphasise the whole-limb fast path with a partial mask.",
         "Trusts num-bigint byte conversion; little-endian target only.", "DESIGN.md 4 C08"),
 "C09": ("property-based testing (proptest; digit lists, a 504-spec format grid, strings over the documented alphabets with mutations), num-bigint Horner / divmod oracle and u128 / BigUint formatting oracle",
         "Exploration: to_base/from_base round trips and exact error classification; Display/Debug/LowerHex/UpperHex/Octal/Binary x flags x widths x fills against primitive formatting (BigUint above u128, self-tested against u128); from_str_radix for radix 0..=65+ and FromStr prefixes against the documented alphabets.",
         "Trusts std u128 formatting and num-bigint formatting (cross-checked at start-up); undocumented ignorable characters accepted either way.", "DESIGN.md 4 C09"),
 "C10": ("property-based testing (proptest; moduli and operands placed relative to the modulus) + exhaustive enumeration (all triples BITS<=5, all inv_mod pairs BITS<=8), num-bigint oracle",
         "Exploration: reduce_mod/add_mod/mul_mod/pow_mod against BigUint %, modpow (0 for m = 0) and inv_mod by its defining predicate (Some iff m >= 2 and gcd = 1, x < m, a*x = 1).",
         "Trusts num-bigint/num-integer; exponents truncated to 128 bits above 64-bit widths.", "DESIGN.md 4 C10"),
 "C11": ("property-based testing (proptest; moduli with top limbs at and between the 2^62/2^63 carry thresholds, operands m-1, (m+-1)/2, R mod m), num-bigint residue oracle, branch-coverage hook counters",
         "Exploration: algorithms::{mul_redc,square_redc} for N = 1..16 and the Uint methods for 18 widths: result < m and result*2^(64N) = a*b (mod m); reach of the extra-carry and final-subtraction paths measured by hook counters.",
         "Trusts num-bigint; inputs inside the documented preconditions (m odd, a,b < m, inv = -m^-1 mod 2^64 from the harness's own Newton iteration).", "DESIGN.md 4 C11"),
 "C12": ("property-based testing (proptest; pairs built from generated quotient sequences, close pairs, shared leading bits, prefix extensions) + exhaustive enumeration for BITS<=7, exact signed num-bigint oracle, branch-coverage hook counters",
         "Exploration: gcd/lcm/gcd_extended against BigUint gcd, lcm fit predicate and the Bezout identity mod 2^BITS; LehmerMatrix::from/from_u64/from_u64_prefix/from_u128_prefix validity (identity, or c >= d >= 0, d < b, gcd preserved) in exact signed arithmetic on the pair and on generated extensions; apply/apply_u128/compose against exact application; every matrix-selection outcome and the Euclidean fallback counted by hooks.",
         "Trusts num-bigint/num-integer; cofactor magnitudes are not part of the property.", "DESIGN.md 4 C12"),
 "C13": ("property-based testing (proptest; perfect powers +-1, boundary bases by integer roots) + exhaustive enumeration for BITS<=6, num-bigint oracle and validity predicate for roots, deterministic step bound for termination",
         "Exploration: pow family against modpow and the exact overflow predicate; log/log2/log10 and checked forms against an integer loop incl. no-panic at widths 0..3; root by r^d <= v < (r+1)^d for degrees 1..=BITS+2, 2^32, usize::MAX; termination decided by the hook step bound.",
         "Trusts num-bigint; step bound 2^16 iterations per call.", "DESIGN.md 4 C13"),
 "C16": ("property-based testing (proptest; values at each format's mode boundaries) + exhaustive enumeration for BITS<=8, hand-written reference encoders per wire format and differential comparison with the codec crates' own u64/u128 encodings",
         "Exploration: every integration (serde JSON/bincode, rlp, alloy-rlp, fastrlp 0.3/0.4, SCALE fixed/compact, SSZ, borsh, DER, num-bigint, primitive-types, bytemuck, postgres, ark-ff 0.3/0.4): round trip with exact consumption, advertised lengths vs bytes produced, bytes vs reference encoder, identity with the codec crate's primitive encoding.",
         "Trusts the reference encoders (self-tested against the codec crates on u64/u128) and num-bigint; Postgres text/numeric types compared by denoted value.", "DESIGN.md 4 C16"),
 "C17": ("property-based testing (proptest; valid encodings with single-field mutations, out-of-range and truncated inputs, uniform strings), hand-written reference decoders, panic-location attribution",
         "Exploration: 20 decoder families x 13 widths: no panic raised in ruint code, accepted values canonical, < 2^BITS and equal to what the reference decoder says the input denotes, must-reject classes rejected, canonical-form decoders re-encode to the consumed bytes.",
         "One-directional on acceptance; lenient formats compared by value only; panics located in third-party crates are not attributed to ruint.", "DESIGN.md 4 C17"),
 "C18": ("property-based testing (proptest; float bit patterns at ties, top-binade integers, 2^BITS neighbours, specials) + exhaustive f32 grids and small-width enumeration, exact rational oracle decoded from IEEE-754 bit patterns",
         "Exploration: Uint->f64/f32 must be one of the two neighbours of the exact value (exact when representable, +inf only beyond the rounding limit, monotone); f64/f32->Uint = exact floor(f+1/2) with Ok iff < 2^BITS, ValueTooLarge / ValueNegative / NotANumber classification, from panics iff error, saturating forms.",
         "Trusts num-bigint and the bit-pattern decoder (self-tested against std); error payloads and out-of-range wrapping_from not compared.", "DESIGN.md 4 C18"),
 "C20": ("property-based testing (proptest), differential inside the library: each facade against the inherent method; per-case discrimination counters",
         "Exploration: operator shapes, Bits forwards, num-traits / num-integer / subtle / zeroize impls, Sum/Product return exactly what the inherent method returns (or both panic); evidence counts, per kind of plausible mis-forward, how many cases could have exposed it.",
         "Reference is the inherent method (itself decided by C01-C13); float default methods and Uint shift amounts above usize not asserted.", "DESIGN.md 4 C20"),
})
CHECKS.update({
 "C04": ("property-based testing: stateful register-machine histories over 171 safe producers with an invariant after every step (proptest, op lists shrunk as one value) + exhaustive pairs x producers for tiny widths + generated programs compiled with rustc for ill-formed (BITS,LIMBS) pairs",
         "Exploration: after every step of generated call histories every register is canonical and ==, Hash, cmp, <, <=, min, max, is_zero agree with the integers; Part B compiles and runs probe programs that try to obtain a value of an ill-formed Uint<BITS,LIMBS> through 60 constants/constructors x 21 ill-formed pairs (quick: seeded sample; thorough: full product), each with control twins.",
         "No model of operation semantics is kept (cannot alarm about anything but the invariant); catalogue of producers/constructors is fixed; rustc trusted.", "DESIGN.md 4 C04"),
 "C19": ("property-based testing over generated programs: literals from a proptest strategy with a reference literal model, compiled with rustc against the working tree; run-time differential against from_str_radix and the model; metamorphic pass-through relation; shrinking by recompiling single-literal programs",
         "Exploration: ~2400 literals (quick) in positive programs (value = model limbs = run-time parse, exact width and type, nesting depth 0..4, whole-program and per-literal macro invocations), negative programs (every REJECT literal must be a compile error; unflagged lines recompiled alone), and pass-through token soups (uint!{E} == E in value and type).",
         "Trusts rustc and num-bigint; only token shapes that reach the macro are generated.", "DESIGN.md 4 C19"),
})
NOT_YET = {}

KERNELS = {"C11", "C15"}
CONVS = {"C07", "C18"}
UINTOPS = {"C01", "C02", "C03", "C05", "C06", "C08", "C09", "C10", "C12", "C13"}


def main():
    props = [json.loads(l) for l in open(os.path.join(ROOT, "properties.jsonl"))]
    checks = []
    na = []
    for p in props:
        pid = p["id"]
        if pid in CHECKS:
            tech, text, note, ref = CHECKS[pid]
            if pid in UINTOPS:
                tech += "; thorough tier adds coverage-guided fuzzing (cargo-fuzz/libFuzzer target uintops, 16 processes, num-bigint oracle inside the target)"
            if pid in CONVS:
                tech += "; thorough tier adds coverage-guided fuzzing (cargo-fuzz/libFuzzer target convs, 16 processes, exact integer / decoded IEEE-754 oracle inside the target)"
            if pid in KERNELS:
                tech += "; thorough tier adds coverage-guided fuzzing (cargo-fuzz/libFuzzer target kernels, 16 processes, exact num-bigint identities inside the target)"
            checks.append({
                "property_id": pid,
                "quick_cmd": "./check %s --tier quick" % pid,
                "thorough_cmd": "./check %s --tier thorough" % pid,
                "evidence_file": "/verif/evidence/%s.json" % pid,
                "replay_cmd_template": "./check %s --replay {path}" % pid,
                "engine": "vcore",
                "level_claimed": {"category": "exploration", "text": text, "design_ref": ref},
                "level_note": note,
                "technique": tech,
            })
        else:
            na.append({"property_id": pid, "reason": NOT_YET.get(pid, "check not implemented yet in this revision (planned, see DESIGN.md section 4); not a statement that the technique cannot apply")})
    m = {
        "version": 1,
        "setup_cmd": "./check --setup",
        "hooks": {
            "guard": "cfg(recmo_uint_verif)",
            "enable": "RUSTFLAGS --cfg recmo_uint_verif via /verif/harness/.cargo/config.toml; the checks of the six properties whose code carries hooks (C03, C10, C11, C12, C13, C14) are run a second time against a build without the flag and without debug assertions (target/plain, profile fast), so code that only exists in the uninstrumented configuration is exercised too; the fuzz targets build without the flag",
            "baseline_off_cmd": "cd /repo && cargo test --workspace --no-fail-fast --offline",
            "source_commits": ["47fc03b", "ce99d53", "49e90c2"],
            "add_only": True,
        },
        "engines": [
            {"name": "probe", "path": "/verif/harness/src/probe.rs", "serves_properties": ["C04", "C19"],
             "kind_free_text": "generated Rust programs compiled with rustc --emit=link against rlibs built from /repo's working tree (cargo package probe_pkg), executed, diagnostics / stdout interpreted"},
            {"name": "vcore", "path": "/verif/harness", "serves_properties": sorted(CHECKS.keys()),
             "kind_free_text": "Rust crate: proptest-driven structured generation (TestRunner with fixed seeds, shrinking, replay files), exhaustive small-width enumeration, BigUint / reference-codec oracles, evidence writer"},
            {"name": "fuzz", "path": "/verif/fuzz", "serves_properties": sorted(UINTOPS | KERNELS | CONVS | {"C14", "C17"}),
             "kind_free_text": "cargo-fuzz package (libFuzzer, ASan, nightly): targets uintops, kernels, convs, divkernels, decoders with the oracle inside the target; run by ./check as a stage of the thorough tier (16 processes, fixed -runs, seeds derived from VERIF_SEED), crash artefacts become replay files"},
        ],
        "checks": checks,
        "not_applicable": na,
        "notes": "All checks are property-based testing / fuzzing (see DESIGN.md). Exit 0 = held on everything explored, 1 = VIOLATION line printed, 2 = inconclusive (build failure, watchdog) - never a violation. known_findings.json lists repaired (fixed:) and open (known) genuine defects.",
    }
    json.dump(m, open(os.path.join(ROOT, "MANIFEST.json"), "w"), indent=1)
    print("checks:", len(checks), "not_applicable:", len(na))

if __name__ == "__main__":
    main()
