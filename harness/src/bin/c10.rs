//! C10 — modular arithmetic (DESIGN 4, C10).

use num_integer::Integer;
use proptest::prelude::*;
use ruint::Uint;
use vcore::big::*;
use vcore::gen::*;
use vcore::*;

fn modulus(bits: usize) -> BoxedStrategy<Vec<u64>> {
    let n = nlimbs(bits);
    if bits == 0 {
        return Just(vec![]).boxed();
    }
    let small = prop_oneof![Just(0u64), Just(1), Just(2), Just(3)].prop_map(move |x| mask_vec(vec![x], bits));
    let pow = (0..bits, 0u8..3).prop_map(move |(k, d)| {
        let mut v = pow2_vec(k, n);
        match d {
            0 => {}
            1 => sub_small(&mut v, 1),
            _ => add_small(&mut v, 1),
        }
        mask_vec(v, bits)
    });
    let top = prop_oneof![Just(0u8), Just(1), Just(2)].prop_map(move |k| match k {
        0 => mask_vec(vec![u64::MAX; n], bits),              // 2^BITS - 1
        1 => pow2_vec(bits - 1, n),                          // 2^(BITS-1)
        _ => { let mut v = mask_vec(vec![u64::MAX; n], bits); v[0] &= !1; v } // 2^BITS - 2
    });
    // normalised moduli of every limb length that fits: top bit of the leading limb set, the rest
    // generic (the single-limb and two-limb reduction kernels take this shape without shifting)
    let normalised = (sized_value(n, bits), limbs(n)).prop_map(move |(v, noise)| {
        let l = v.iter().rposition(|x| *x != 0).map_or(1, |i| i + 1);
        let mut v: Vec<u64> = (0..n).map(|i| if i < l { noise[i] } else { 0 }).collect();
        v[l - 1] |= 1 << 63;
        // generic leading limb just above 2^63 half of the time
        if noise[0] & 1 == 1 {
            v[l - 1] = (1 << 63) | (v[l - 1] >> 4);
        }
        let m = mask_vec(v, bits);
        if m.iter().all(|x| *x == 0) { mask_vec(vec![1; n], bits) } else { m }
    });
    prop_oneof![1 => small, 2 => pow, 1 => top, 5 => sized_value(n, bits), 2 => uint(bits), 3 => normalised].boxed()
}

/// operand relative to the modulus
fn operand(bits: usize) -> BoxedStrategy<(u8, Vec<u64>)> {
    (0u8..13, uint(bits)).boxed()
}

fn place(kind: u8, raw: &[u64], m: &BigUint, bits: usize) -> Vec<u64> {
    let n = nlimbs(bits);
    let two = pow2(bits);
    let v = match kind {
        0 => BigUint::zero(),
        1 => BigUint::one(),
        2 => (m + &two - 1u32) % &two, // m - 1
        3 => m.clone(),
        4 => (m + 1u32) % &two,
        5 => &two - 1u32, // MAX
        6 => {
            // random multiple of m plus small offset (forces reduction)
            if m.is_zero() { big(raw) } else { let k = big(raw) / m; (k * m + (big(raw) % 3u32)) % &two }
        }
        // exact multiples of m (true residue 0): the largest one that fits, a generic one with a
        // generic (large) cofactor, and m times a one-limb cofactor
        10 => if m.is_zero() { big(raw) } else { (&two - 1u32) / m * m },
        11 => if m.is_zero() { big(raw) } else { big(raw) / m * m },
        12 => if m.is_zero() { big(raw) } else { let k = BigUint::from(raw.first().copied().unwrap_or(1) | 1 << 63); let x = k * m; if x < two { x } else { big(raw) / m * m } },
        _ => big(raw),
    };
    limbs_of(&(v % &two), n)
}

fn exponent(bits: usize) -> BoxedStrategy<Vec<u64>> {
    let n = nlimbs(bits);
    if bits == 0 {
        return Just(vec![]).boxed();
    }
    let cap = if bits <= 64 { bits } else { 128.min(bits) };
    prop_oneof![
        2 => (0u64..4).prop_map(move |x| mask_vec(vec![x], bits)),
        2 => (0..cap, 0u8..2).prop_map(move |(k, d)| { let mut v = pow2_vec(k, n); if d == 1 { sub_small(&mut v, 1); } mask_vec(v, bits) }),
        3 => uint(bits).prop_map(move |v| limbs_of(&(big(&v) % pow2(cap)), n)),
    ]
    .boxed()
}

fn strat(bits: usize) -> BoxedStrategy<Case> {
    (modulus(bits), operand(bits), operand(bits), exponent(bits))
        .prop_map(move |(m, (ka, ra), (kb, rb), e)| {
            let mb = big(&m);
            let a = place(ka, &ra, &mb, bits);
            let mut b = place(kb, &rb, &mb, bits);
            // one case in eight: b = a (a squaring shortcut in mul_mod would only see these)
            if rb.first().map_or(false, |x| x % 8 == 1) {
                b = a.clone();
            }
            // one case in eight: b = k*m - a, so that a + b is an exact multiple of m
            if rb.first().map_or(false, |x| x % 8 == 0) && !mb.is_zero() {
                let ab = big(&a);
                let k = (&ab / &mb) + 1u32 + (big(&rb) % 3u32);
                let t = k * &mb;
                if t >= ab && &t - &ab < pow2(bits) {
                    b = limbs_of(&(&t - &ab), nlimbs(bits));
                }
            }
            Case::new().l(a).l(b).l(m).l(e)
        })
        .boxed()
}

fn enum_triples(bits: usize, f: &mut dyn FnMut(&Case) -> R) -> R {
    let n = 1u64 << bits;
    let w = |x: u64| if bits == 0 { vec![] } else { vec![x] };
    for a in 0..n {
        for b in 0..n {
            for m in 0..n {
                f(&Case::new().l(w(a)).l(w(b)).l(w(m)).l(w(b)))?;
            }
        }
    }
    Ok(())
}

/// all (a, b, m) with limbs from a small alphabet (complete enumeration; exponent = b's low limb mod 8)
fn enum_alphabet_triples(bits: usize, f: &mut dyn FnMut(&Case) -> R) -> R {
    let alpha: &[u64] = if nlimbs(bits) <= 2 { &LIMB_ALPHABET5 } else { &[1, 1 << 63, u64::MAX] };
    let vals = alphabet_values(bits, alpha);
    let n = nlimbs(bits);
    for la in &vals {
        for lb in &vals {
            for lm in &vals {
                let mut e = vec![0u64; n];
                e[0] = lb[0] % 8;
                f(&Case::new().l(la.clone()).l(lb.clone()).l(lm.clone()).l(mask_vec(e, bits)))?;
            }
        }
    }
    Ok(())
}

fn enum_inv(bits: usize, f: &mut dyn FnMut(&Case) -> R) -> R {
    let n = 1u64 << bits;
    for a in 0..n {
        for m in 0..n {
            f(&Case::new().l(vec![a]).l(vec![1]).l(vec![m]).l(vec![2]))?;
        }
    }
    Ok(())
}

fn body<const B: usize, const L: usize>(c: &Case, rec: &mut Rec) -> R {
    type U<const B: usize, const L: usize> = Uint<B, L>;
    let a: U<B, L> = mk(&c.l[0]);
    let b: U<B, L> = mk(&c.l[1]);
    let m: U<B, L> = mk(&c.l[2]);
    let e: U<B, L> = mk(&c.l[3]);
    let (ab, bb, mb, eb) = (num(&a), num(&b), num(&m), num(&e));
    let two = pow2(B);
    let red = |x: BigUint| -> BigUint { if mb.is_zero() { BigUint::zero() } else { x % &mb } };

    rec.class_if(mb.is_zero(), "m=0");
    rec.class_if(mb == BigUint::one(), "m=1");
    rec.class_if(ab >= mb, "a>=m");
    rec.class_if(&ab + &bb >= two, "a+b>=2^BITS");
    rec.class_if(&ab * &bb >= two, "a*b>=2^BITS");
    let m_limbs = mb.bits().div_ceil(64) as usize;
    let p_limbs = (&ab * &bb).bits().div_ceil(64) as usize;
    rec.class_if(m_limbs < p_limbs, "m_shorter_than_product");
    if mb > BigUint::one() && (ab >= mb || bb >= mb || &ab + &bb >= two || &ab * &bb >= two || m_limbs < p_limbs) {
        rec.nontrivial(&(&c.l[0], &c.l[1], &c.l[2], &c.l[3]));
    }
    rec.sample(|| json!({"a": hex(&ab), "b": hex(&bb), "m": hex(&mb), "e": hex(&eb)}));

    chk!(rec, "reduce_mod", a.reduce_mod(m), mkb::<B, L>(&red(ab.clone())));
    chk!(rec, "add_mod", a.add_mod(b, m), mkb::<B, L>(&red(&ab + &bb)));
    chk!(rec, "mul_mod", a.mul_mod(b, m), mkb::<B, L>(&red(&ab * &bb)));
    let pe = if mb.is_zero() { BigUint::zero() } else { ab.modpow(&eb, &mb) };
    chk!(rec, "pow_mod", a.pow_mod(e, m), mkb::<B, L>(&pe));

    // inv_mod: Some(x) with x < m and a*x = 1 (mod m) exactly when m >= 2 and gcd(a, m) = 1
    let r = rec.no_panic("inv_mod", catch(|| a.inv_mod(m)))?;
    let invertible = mb > BigUint::one() && ab.gcd(&mb) == BigUint::one();
    rec.class_if(invertible, "invertible");
    rec.eval(1);
    match (r, invertible) {
        (None, false) => {}
        (Some(x), true) => {
            let xb = num(&x);
            if xb >= mb {
                rec.fail("inv_mod", "not_reduced", format!("inv_mod({}, {}) = {} >= m", hex(&ab), hex(&mb), hex(&xb)))?;
            }
            if (&ab * &xb) % &mb != BigUint::one() {
                rec.fail("inv_mod", "not_an_inverse", format!("inv_mod({}, {}) = {}", hex(&ab), hex(&mb), hex(&xb)))?;
            }
        }
        (Some(x), false) => rec.fail("inv_mod", "some_for_non_invertible", format!("inv_mod({}, {}) = Some({x})", hex(&ab), hex(&mb)))?,
        (None, true) => rec.fail("inv_mod", "none_for_invertible", format!("inv_mod({}, {}) = None", hex(&ab), hex(&mb)))?,
    }
    Ok(())
}

fn main() {
    let spec = PropSpec {
        id: "C10",
        rule_text: "tuples (a, b, m, e) per width: m from {0,1,2,3, 2^k, 2^k+-1, 2^BITS-1, 2^BITS-2, 2^(BITS-1), boundary-alphabet values of every limb length 1..LIMBS, normalised generic moduli of every limb length (top bit of the leading limb set, leading limb just above 2^63 half of the time)}; operands placed relative to m: {0, 1, m-1, m, m+1, MAX, k*m+{0,1,2}, exact multiples (largest that fits, generic cofactor, one-limb cofactor >= 2^63), alphabet}, one case in eight with b = k*m - a (the sum is an exact multiple), one in eight with b = a; exponents {0..3, 2^k, 2^k-1, alphabet truncated to <= 128 bits (full width for BITS <= 64)}; exhaustive: all (a,b,m) triples for BITS <= 5, all (a,m) pairs for inv_mod for BITS <= 8, all (a,b,m) with limbs from {0,1,2^63,MAX-1,MAX} (2 limbs) / {1,2^63,MAX} (3 limbs) at 6 widths. Oracle: num-bigint %, modpow, gcd; 0 when m = 0; inv_mod by its defining predicate. Non-trivial: m >= 2 and (an operand >= m, or a+b >= 2^BITS, or a*b >= 2^BITS, or m has fewer limbs than the product); distinct by inputs.",
        assumptions: vec![
            "num-bigint / num-integer modpow, gcd and % are correct (oracle)",
            "exponents are truncated to 128 bits above 64-bit widths to bound the cost of the oracle and of pow_mod",
        ],
        thorough_mult: 30,
    };
    main_with(
        spec,
        |jobs, _| {
            reg_enum!(jobs, "mod_all_triples", enum_triples, body; [0, 1, 2, 3, 4, 5]);
            reg_enum!(jobs, "inv_mod_all_pairs", enum_inv, body; [6, 7, 8]);
            reg_enum!(jobs, "mod_limb_alphabet", enum_alphabet_triples, body; [65, 127, 128, 129, 190, 192]);
            w_all!(reg_gen!(jobs, "mod", 12000, strat, body;));
            reg_gen!(jobs, "mod", 1000, strat, body; [1024]);
            reg_gen!(jobs, "mod", 150, strat, body; [2112]);
        },
        |_| Map::new(),
    );
}
