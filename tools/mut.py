#!/usr/bin/env python3
"""Apply a mutant to /repo's working tree, run checks, always restore.
  mut.py --patch file.diff C03 C14
  mut.py --sub src/x.rs 'old text' 'new text' C03
Prints one line per check: CAUGHT (rc=1) / MISSED (rc=0) / INCONCLUSIVE (rc=2)."""
import subprocess, sys, os, time
REPO = "/repo"
def sh(cmd, **kw): return subprocess.run(cmd, shell=True, text=True, capture_output=True, **kw)
def main():
    a = sys.argv[1:]
    if sh("git -C /repo status --porcelain").stdout.strip():
        print("refusing: /repo working tree not clean"); return 2
    try:
        if a[0] == "--patch":
            r = sh("git -C /repo apply %s" % a[1])
            if r.returncode: print("patch failed", r.stderr); return 2
            checks = a[2:]
        elif a[0] == "--sub":
            path = os.path.join(REPO, a[1]); s = open(path).read()
            if s.count(a[2]) < 1: print("anchor not found"); return 2
            open(path, "w").write(s.replace(a[2], a[3], 1)); checks = a[4:]
        else:
            print(__doc__); return 2
        out = []
        for c in checks:
            t = time.time()
            mode = os.environ.get("MUT_MODE", "--tier quick")  # e.g. MUT_MODE=--fuzz-only
            r = sh("cd /verif && ./check %s %s" % (c, mode))
            viol = [l for l in r.stdout.splitlines() if l.startswith("VIOLATION")]
            fails = [l for l in r.stdout.splitlines() if l.startswith("failure in rule") or l.startswith("regression") or l.startswith("fuzz failure")]
            status = {0: "MISSED", 1: "CAUGHT"}.get(r.returncode, "INCONCLUSIVE")
            print("%s %s rc=%d %.0fs %s" % (c, status, r.returncode, time.time() - t, (fails[0][:200] if fails else "")))
            if status == "INCONCLUSIVE": print(r.stdout[-1500:])
            out.append(status)
        return 0
    finally:
        sh("git -C /repo checkout -- . && git -C /repo clean -fdq -- src ruint-macro")
        sh("rm -rf /verif/replays/*")
if __name__ == "__main__": sys.exit(main())
