//! C03 — Euclidean division (DESIGN 4, C03).

use proptest::prelude::*;
use ruint::Uint;
use vcore::big::*;
use vcore::gen::*;
use vcore::*;

/// Exhaustive enumeration of all operand pairs of a small width.
fn enum_pairs(bits: usize, f: &mut dyn FnMut(&Case) -> R) -> R {
    let m = 1u64 << bits;
    for a in 0..m {
        for b in 0..m {
            let (la, lb) = if bits == 0 { (vec![], vec![]) } else { (vec![a], vec![b]) };
            f(&Case::new().l(la).l(lb))?;
        }
    }
    Ok(())
}

/// all pairs of values whose limbs come from a small alphabet (complete enumeration)
fn enum_alphabet_pairs(bits: usize, f: &mut dyn FnMut(&Case) -> R) -> R {
    let alpha: &[u64] = if nlimbs(bits) <= 3 { &LIMB_ALPHABET8 } else { &LIMB_ALPHABET5 };
    let vals = alphabet_values(bits, alpha);
    for la in &vals {
        for lb in &vals {
            let (la, lb) = (la.clone(), lb.clone());
            f(&Case::new().l(la).l(lb))?;
        }
    }
    Ok(())
}

fn strat(bits: usize) -> BoxedStrategy<Case> {
    let n = nlimbs(bits);
    if bits == 0 {
        return Just(Case::new().l(vec![]).l(vec![])).boxed();
    }
    let indep = (uint(bits), uint(bits)).prop_map(|(a, b)| Case::new().l(a).l(b).n(0));
    let sized = (uint(bits), sized_value(n, bits)).prop_map(|(a, b)| Case::new().l(a).l(b).n(1));
    // n = q*d + r with extreme q, d, r
    let constructed = (uint(bits), sized_value(n, bits), uint(bits), 0u8..5).prop_map(move |(q0, d, r0, rk)| {
        let db = big(&d);
        let bl = bit_len(&db);
        let q = big(&q0) >> bl; // q < 2^(bits-bl)  =>  q*d + r < 2^bits
        let r = match rk {
            0 => BigUint::zero(),
            1 => BigUint::one() % &db,
            2 => &db - 1u32,
            3 => big(&r0) % &db,
            _ => (&db - 1u32) >> 1,
        };
        let nn = q * &db + r;
        Case::new().l(limbs_of(&nn, n)).l(d).n(2)
    });
    // numerator whose leading limbs copy the divisor's leading limbs
    let copy_top = (sized_value(n, bits), 0..=n, limbs(n), 0u8..4).prop_map(move |(d, j, low, mode)| {
        let dl = d.iter().rposition(|x| *x != 0).map_or(0, |i| i + 1);
        let j = j.min(n - dl);
        // n = d << 64j, then perturb the limbs below the top two copied limbs
        let mut v = vec![0u64; n];
        for i in 0..dl {
            v[i + j] = d[i];
        }
        let keep_from = (j + dl).saturating_sub(2);
        for i in 0..keep_from {
            v[i] = match mode {
                0 => low[i],
                1 => u64::MAX,
                2 => 0,
                _ => d.get(i.wrapping_sub(j)).copied().unwrap_or(low[i]).wrapping_sub(1),
            };
        }
        Case::new().l(mask_vec(v, bits)).l(d).n(3)
    });
    let zero_div = uint(bits).prop_map(move |a| Case::new().l(a).l(vec![0; n]).n(4));
    // n = d + {-1, 0, 1} and n = the largest multiple of d that fits (+ {-1, 0, 1})
    let near = (sized_value(n, bits), 0u8..6).prop_map(move |(d, k)| {
        let two = pow2(bits);
        let db = big(&d);
        let nn = match k {
            0 => db.clone(),
            1 => (&db + 1u32) % &two,
            2 => &db - 1u32,
            3 => (&two - 1u32) / &db * &db,
            4 => ((&two - 1u32) / &db * &db + 1u32) % &two,
            _ => (&two - 1u32) / &db * &db - 1u32,
        };
        Case::new().l(limbs_of(&nn, n)).l(d).n(5)
    });
    // divisors whose normalised leading 128 bits sit on (or one beside) the tie of the 3-by-2
    // reciprocal's last correction step, with power-of-two numerators aligned to a limb top after
    // the normalising shift, or numerators from the other shapes (widths above 128 bits)
    let full = if bits % 64 == 0 { n } else { n.saturating_sub(1) }; // limbs that are entirely below 2^bits
    let recip_tie = (limbs(n), uint(bits), 2usize..=full.max(2), 0u32..64, any::<u64>(), 0u8..8, 0u8..5).prop_map(move |(low, other, dl, lz, m, variant, dk)| {
        if full < 3 {
            return Case::new().l(other).l(mask_vec(low, bits)).n(0);
        }
        let dl = dl.min(full);
        let delta = [0i64, 0, 0, 1, -1][dk as usize];
        let d = match vcore::recip::tie_divisor(low[n - 1], m as usize >> 8, delta, dl, lz, &low) {
            Some(mut d) => {
                d.resize(n, 0);
                d
            }
            None => return Case::new().l(other).l(mask_vec(low, bits)).n(0),
        };
        let lzd = d[dl - 1].leading_zeros();
        let num = if variant < 6 {
            let mut v = vcore::recip::pow2_numerator(full, lzd, m as usize, variant, &low);
            v.resize(n, 0);
            v
        } else {
            other
        };
        Case::new().l(mask_vec(num, bits)).l(d).n(6)
    });
    prop_oneof![4 => indep, 4 => sized, 4 => constructed, 4 => copy_top, 2 => near, 1 => zero_div, 3 => recip_tie].boxed()
}

/// Dense sampling of single-limb divisors through the public API at 128 bits: one case = one
/// batch of 2048 divisors whose normalised form lies in one of the 256 rows of the reciprocal
/// lookup table (top 9 bits), drawn by a fixed xorshift sequence from (row, batch); each divides
/// three numerators, the oracle is u128 arithmetic. An error in the reciprocal that only shows for
/// a ~10^-5 fraction of one row (a table entry without slack) needs this density.
fn enum_dense_part(part: u64, batches: u64, f: &mut dyn FnMut(&Case) -> R) -> R {
    for row in (256u64..512).filter(|r| r % 16 == part) {
        for b in 0..batches {
            f(&Case::new().n(row).n(b))?;
        }
    }
    Ok(())
}

fn body_dense(c: &Case, rec: &mut Rec) -> R {
    type U = Uint<128, 2>;
    let (row, batch) = (c.n[0], c.n[1]);
    let mut x: u64 = (row << 32 | batch).wrapping_mul(0xD134_2543_DE82_EF95) | 1;
    rec.nontrivial(&(row, batch));
    rec.class("gen:dense_single_limb_divisors");
    if batch == 0 {
        rec.sample(|| json!({"rule": "dense single-limb divisors", "reciprocal_table_row": row, "divisors_per_batch": 2048}));
    }
    rec.eval(3 * 2048);
    for i in 0..2048u64 {
        x ^= x << 13;
        x ^= x >> 7;
        x ^= x << 17;
        let norm = row << 55 | x >> 9;
        // the divisor as the user writes it: normalised, or shifted down by up to 40 bits
        let d = norm >> (i % 8 * 5);
        let ns = [1u128 << 64, u128::MAX, (x as u128) << 64 | (x.rotate_left(17) as u128)];
        for n in ns {
            let (q, r) = U::from(n).div_rem(U::from(d));
            if q != U::from(n / d as u128) || r != U::from(n % d as u128) {
                return rec.fail("div_rem", "value_wrong", format!("{n:#x} / {d:#x}: got ({q:#x}, {r:#x}) expected ({:#x}, {:#x})", n / d as u128, n % d as u128));
            }
        }
    }
    Ok(())
}

fn body<const B: usize, const L: usize>(c: &Case, rec: &mut Rec) -> R {
    type U<const B: usize, const L: usize> = Uint<B, L>;
    let n: U<B, L> = mk(&c.l[0]);
    let d: U<B, L> = mk(&c.l[1]);
    let (nb, db) = (num(&n), num(&d));
    let two_b = pow2(B);
    if db.is_zero() {
        rec.class("zero_divisor");
        rec.must_panic("div_rem", catch(|| n.div_rem(d)))?;
        rec.must_panic("div", catch(|| n / d))?;
        rec.must_panic("rem", catch(|| n % d))?;
        rec.must_panic("wrapping_div", catch(|| n.wrapping_div(d)))?;
        rec.must_panic("wrapping_rem", catch(|| n.wrapping_rem(d)))?;
        rec.must_panic("div_ceil", catch(|| n.div_ceil(d)))?;
        rec.must_panic("div_assign", catch(|| { let mut x = n; x /= d; x }))?;
        rec.must_panic("rem_assign", catch(|| { let mut x = n; x %= d; x }))?;
        rec.must_panic("next_multiple_of", catch(|| n.next_multiple_of(d)))?;
        let r = rec.no_panic("checked_div", catch(|| n.checked_div(d)))?;
        rec.eq("checked_div", &r, &None)?;
        let r = rec.no_panic("checked_rem", catch(|| n.checked_rem(d)))?;
        rec.eq("checked_rem", &r, &None)?;
        let r = rec.no_panic("checked_next_multiple_of", catch(|| n.checked_next_multiple_of(d)))?;
        rec.eq("checked_next_multiple_of", &r, &None)?;
        return Ok(());
    }
    let qe = &nb / &db;
    let re = &nb % &db;
    let q_exp: U<B, L> = mkb(&qe);
    let r_exp: U<B, L> = mkb(&re);
    // classes
    let dl = c.l[1].iter().rposition(|x| *x != 0).map_or(0, |i| i + 1);
    let nl = c.l[0].iter().rposition(|x| *x != 0).map_or(0, |i| i + 1);
    rec.class(match dl { 1 => "dlen=1", 2 => "dlen=2", 3 => "dlen=3", 4 => "dlen=4", _ => "dlen>=5" });
    rec.class_if(nl > dl, "nlen>dlen");
    rec.class_if(nl == dl, "nlen==dlen");
    rec.class_if(nl < dl, "nlen<dlen");
    rec.class_if(c.l[1][dl - 1] >> 63 == 1, "divisor_normalised");
    rec.class(match c.n.first() { Some(0) => "gen:independent", Some(1) => "gen:sized", Some(2) => "gen:constructed", Some(3) => "gen:copy_top", Some(4) => "gen:zero", Some(5) => "gen:near_or_largest_multiple", Some(6) => "gen:reciprocal_tie_divisor", _ => "gen:enum" });
    let nontrivial = !qe.is_zero() && db.count_ones() != 1;
    if nontrivial {
        rec.nontrivial(&(&c.l[0], &c.l[1]));
    }
    rec.sample(|| json!({"n": hex(&nb), "d": hex(&db), "q": hex(&qe), "r": hex(&re)}));

    let r = rec.no_panic("div_rem", catch(|| n.div_rem(d)))?;
    rec.eq("div_rem", &r, &(q_exp, r_exp))?;
    let r = rec.no_panic("div", catch(|| n / d))?;
    rec.eq("div", &r, &q_exp)?;
    let r = rec.no_panic("rem", catch(|| n % d))?;
    rec.eq("rem", &r, &r_exp)?;
    let r = rec.no_panic("div_assign", catch(|| { let mut x = n; x /= d; x }))?;
    rec.eq("div_assign", &r, &q_exp)?;
    // the reference-operand shapes of / and % are separate impls
    chk!(rec, "div(&,val)", &n / d, q_exp);
    chk!(rec, "div(val,&)", n / &d, q_exp);
    chk!(rec, "div(&,&)", &n / &d, q_exp);
    chk!(rec, "div_assign(&)", { let mut x = n; x /= &d; x }, q_exp);
    chk!(rec, "rem(&,val)", &n % d, r_exp);
    chk!(rec, "rem(val,&)", n % &d, r_exp);
    chk!(rec, "rem(&,&)", &n % &d, r_exp);
    chk!(rec, "rem_assign(&)", { let mut x = n; x %= &d; x }, r_exp);
    let r = rec.no_panic("rem_assign", catch(|| { let mut x = n; x %= d; x }))?;
    rec.eq("rem_assign", &r, &r_exp)?;
    let r = rec.no_panic("wrapping_div", catch(|| n.wrapping_div(d)))?;
    rec.eq("wrapping_div", &r, &q_exp)?;
    let r = rec.no_panic("wrapping_rem", catch(|| n.wrapping_rem(d)))?;
    rec.eq("wrapping_rem", &r, &r_exp)?;
    let r = rec.no_panic("checked_div", catch(|| n.checked_div(d)))?;
    rec.eq("checked_div", &r, &Some(q_exp))?;
    let r = rec.no_panic("checked_rem", catch(|| n.checked_rem(d)))?;
    rec.eq("checked_rem", &r, &Some(r_exp))?;
    // div_ceil
    let ce = if re.is_zero() { qe.clone() } else { &qe + 1u32 };
    rec.class_if(re.is_zero(), "exact_multiple");
    let r = rec.no_panic("div_ceil", catch(|| n.div_ceil(d)))?;
    rec.eq("div_ceil", &r, &mkb(&ce))?;
    // next multiple
    let m = &ce * &db;
    let fits = m < two_b;
    rec.class_if(!fits, "next_multiple_overflow");
    let exp_m: Option<U<B, L>> = if fits { Some(mkb(&m)) } else { None };
    let r = rec.no_panic("checked_next_multiple_of", catch(|| n.checked_next_multiple_of(d)))?;
    rec.eq("checked_next_multiple_of", &r, &exp_m)?;
    let r = catch(|| n.next_multiple_of(d));
    rec.eval(1);
    match (r, exp_m) {
        (Ok(v), Some(e)) if v == e => {}
        (Err(_), None) => {}
        (Ok(v), e) => rec.fail("next_multiple_of", "value_wrong", format!("got {v:?} expected {e:?}"))?,
        (Err(m), Some(e)) => rec.fail("next_multiple_of", "panic", format!("panicked ({m}) expected {e:?}"))?,
    }
    Ok(())
}

fn main() {
    let spec = PropSpec {
        id: "C03",
        rule_text: "cases (n,d) per width from 7 generator classes (divisors whose normalised leading 128 bits are solved onto the tie of the 3-by-2 reciprocal's last correction step, with limb-aligned power-of-two numerators; n = d + {-1,0,1} and the largest multiple of d that fits + {-1,0,1}; independent alphabet values; divisors of every limb length with 0..63 leading zero bits; n=q*d+r built from extreme q,d,r; numerators copying the divisor's top limbs with perturbed lower limbs; d=0) plus exhaustive enumeration of all pairs for BITS<=8 and of all pairs of values whose limbs come from {0,1,2,2^63-1,2^63,2^63+1,MAX-1,MAX} (2-3 limbs) or {0,1,2^63,MAX-1,MAX} (4 limbs) at 8 widths. / and % through all six operator shapes. Rule div_dense_single_limb: 2^18 single-limb divisors per row of the reciprocal lookup table (normalised or shifted down), three numerators each, at 128 bits against u128 arithmetic. Oracle: num-bigint quotient/remainder. Non-trivial: d!=0, quotient!=0 and d not a power of two; distinct by (rule,width,n,d).",
        assumptions: vec![
            "num-bigint division is correct (oracle)",
            "x86-64 little-endian target only",
            "harness profile has debug-assertions and overflow-checks on; any library panic on a non-zero divisor is a violation",
        ],
        thorough_mult: 50,
    };
    main_with(
        spec,
        |jobs, args| {
            reg_enum!(jobs, "div_all_pairs", enum_pairs, body; [0, 1, 2, 3, 4, 5, 6, 7, 8]);
            reg_enum!(jobs, "div_limb_alphabet", enum_alphabet_pairs, body; [65, 127, 128, 129, 190, 192, 250, 256]);
            w_all_wide!(reg_gen!(jobs, "div", 25000, strat, body;));
            reg_gen!(jobs, "div", 300, strat, body; [4160, 8256]);
            // 256 rows x 128 batches x 2048 divisors x 3 numerators = 2e8 divisions, in 16 jobs
            let batches: u64 = if args.tier == "thorough" { 1024 } else { 128 };
            for part in 0..16u64 {
                jobs.fixed_list("div_dense_single_limb", 128, move |f| enum_dense_part(part, batches, f), body_dense);
            }
        },
        |_| Map::new(),
    );
}
