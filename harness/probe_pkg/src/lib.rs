// intentionally empty
