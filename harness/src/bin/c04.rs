//! C04 — canonical values; ==, Hash, Ord follow the number; ill-formed types
//! unobtainable (DESIGN 4, C04).
//!
//! Part A: register-machine histories over the safe public producers, invariant after
//! every step (engine E1/E2). Part B: generated programs trying to obtain a value of an
//! ill-formed `Uint<BITS, LIMBS>` (engine E3).

use proptest::prelude::*;
use proptest::strategy::ValueTree;
use ruint::{Uint, UintTryFrom};
use std::collections::BTreeMap;
use std::hash::{Hash, Hasher};
use std::path::PathBuf;
use vcore::big::*;
use vcore::gen::*;
use vcore::probe::*;
use vcore::*;

// =====================================================================================
// Part A — histories
// =====================================================================================

const STRIDE: usize = 5;
const N_OPS: u64 = 171;

fn op_strategy() -> BoxedStrategy<[u64; STRIDE]> {
    (0..N_OPS, 0u64..4, 0u64..4, 0u64..4, prop_oneof![2 => limb(), 1 => 0u64..600, 1 => any::<u64>()])
        .prop_map(|(op, d, a, b, imm)| [op, d, a, b, imm])
        .boxed()
}

fn strat2(b1: usize, b2: usize) -> BoxedStrategy<Case> {
    let n1 = nlimbs(b1);
    let by1 = (b1 + 7) / 8;
    // raw limb vectors for constructors: canonical, out of range in the top limb, too long, too short
    let raw = (limbs(n1 + 2), 0usize..=n1 + 2, any::<bool>()).prop_map(move |(mut v, len, force_top)| {
        v.truncate(len);
        if force_top && len >= n1 && n1 > 0 {
            v[n1 - 1] |= 1 << 63;
        }
        v
    });
    let bytes = prop_oneof![
        proptest::collection::vec(byte(), 0..=by1 + 2),
        Just(vec![0xffu8; by1]),
        uint(b1).prop_map(move |v| { let mut d = big(&v).to_bytes_be(); while d.len() < by1 { d.insert(0, 0); } d }),
    ];
    let text = prop_oneof![
        "[0-9a-fA-F_]{0,40}",
        "0x[0-9a-f]{1,70}",
        "0b[01]{1,70}",
        "[0-9]{1,80}",
        uint(b1).prop_map(|v| format!("{}", big(&v))),
        uint(b1).prop_map(|v| format!("0x{:x}", big(&v) + 1u32)),
    ];
    (
        proptest::collection::vec(uint(b1), 4),
        proptest::collection::vec(uint(b2), 2),
        proptest::collection::vec(raw, 4),
        proptest::collection::vec(bytes, 3),
        proptest::collection::vec(text, 2),
        proptest::collection::vec(op_strategy(), 1..40),
    )
        .prop_map(|(r, q, pool, bytes, text, ops)| {
            let mut c = Case::new();
            c.l.extend(r);
            c.l.extend(q);
            c.l.extend(pool);
            c.b = bytes;
            c.s = text;
            for o in ops {
                c.n.extend(o);
            }
            c
        })
        .boxed()
}

/// E1: for small widths, every (a, b) pair x every producer once.
fn enum_small(b1: usize, b2: usize, f: &mut dyn FnMut(&Case) -> R) -> R {
    let m = 1u64 << b1;
    let w = |x: u64| if b1 == 0 { vec![] } else { vec![x] };
    for a in 0..m {
        for b in 0..m {
            let mut c = Case::new();
            c.l = vec![w(a), w(b), w(a ^ b), w(m - 1), mask_vec(vec![a], b2), mask_vec(vec![b.wrapping_mul(0x9E37_79B9_7F4A_7C15)], b2)];
            c.l.extend([w(a), vec![a, b], vec![b | 1 << 63], vec![]]);
            c.b = vec![vec![a as u8], vec![b as u8, a as u8], vec![]];
            c.s = vec![format!("{a}"), format!("0x{b:x}")];
            for op in 0..N_OPS {
                c.n.extend([op, op % 4, 0, 1, a * 7 + b]);
            }
            f(&c)?;
        }
    }
    Ok(())
}

fn hash_of<T: Hash>(x: &T) -> u64 {
    // DefaultHasher::new() is SipHash with fixed keys
    let mut h = std::collections::hash_map::DefaultHasher::new();
    x.hash(&mut h);
    h.finish()
}

fn seed32(x: u64) -> [u8; 32] {
    let mut s = [0u8; 32];
    for i in 0..4 {
        s[i * 8..i * 8 + 8].copy_from_slice(&x.wrapping_mul(0x9E37_79B9_7F4A_7C15).wrapping_add(i as u64).to_le_bytes());
    }
    s
}

fn invariant<const B: usize, const L: usize>(rec: &mut Rec, regs: &[Uint<B, L>], opname: &str) -> R {
    let two = pow2(B);
    for (i, x) in regs.iter().enumerate() {
        rec.eval(1);
        if !is_canonical(x) {
            rec.fail(opname, "non_canonical_value", format!("register {i} after {opname}: limbs {:x?} have bits at positions >= {B}", x.as_limbs()))?;
        }
    }
    for i in 0..regs.len() {
        for j in i..regs.len() {
            let (a, b) = (&regs[i], &regs[j]);
            let (na, nb) = (num(a), num(b));
            let (va, vb) = (&na % &two, &nb % &two); // the numbers the values denote
            rec.eval(6);
            let ctx = || format!("after {opname}: a={} b={}", hex(&na), hex(&nb));
            if (a == b) != (va == vb) {
                rec.fail(opname, "eq_disagrees_with_number", ctx())?;
            }
            if va == vb && hash_of(a) != hash_of(b) {
                rec.fail(opname, "hash_disagrees_with_number", ctx())?;
            }
            let ord = va.cmp(&vb);
            if a.cmp(b) != ord || a.partial_cmp(b) != Some(ord) {
                rec.fail(opname, "cmp_disagrees_with_number", ctx())?;
            }
            if (a < b) != (va < vb) || (a <= b) != (va <= vb) || (a > b) != (va > vb) || (a >= b) != (va >= vb) {
                rec.fail(opname, "lt_le_disagree_with_number", ctx())?;
            }
            let (mn, mx) = (std::cmp::min(*a, *b), std::cmp::max(*a, *b));
            if num(&mn) % &two != std::cmp::min(va.clone(), vb.clone()) || num(&mx) % &two != std::cmp::max(va.clone(), vb.clone()) {
                rec.fail(opname, "min_max_disagree_with_number", ctx())?;
            }
            if a.is_zero() != va.is_zero() {
                rec.fail(opname, "is_zero_disagrees_with_number", ctx())?;
            }
        }
    }
    Ok(())
}

/// One producer. Returns (name, new value for an r register, new value for a q register,
/// whether the constructor was handed an out-of-range input).
#[allow(clippy::too_many_lines)]
fn produce<const B: usize, const L: usize, const B2: usize, const L2: usize>(
    op: u64,
    r: &[Uint<B, L>; 4],
    q: &[Uint<B2, L2>; 2],
    a: usize,
    b: usize,
    imm: u64,
    c: &Case,
) -> (&'static str, Option<Uint<B, L>>, Option<Uint<B2, L2>>, bool) {
    type U<const B: usize, const L: usize> = Uint<B, L>;
    let x = r[a % 4];
    let y = r[b % 4];
    let z = r[(b + 1) % 4];
    let qa = q[a % 2];
    let pool = &c.l[6 + (imm as usize % 4)];
    let pool2 = &c.l[6 + ((imm as usize + 1) % 4)];
    let bytes = &c.b[imm as usize % 3];
    let text = &c.s[imm as usize % 2];
    let us = imm as usize;
    let raw_oob = pool.len() > L || (L > 0 && pool.len() == L && pool[L - 1] & !ruint::mask(B) != 0);
    let u128v = (pool2.first().copied().unwrap_or(0) as u128) << 64 | pool.first().copied().unwrap_or(imm) as u128;
    let f = f64::from_bits(imm);
    let mut oob = false;
    macro_rules! some {
        ($name:expr, $e:expr) => {
            ($name, Some($e), None, oob)
        };
    }
    macro_rules! opt {
        ($name:expr, $e:expr) => {
            ($name, $e, None, oob)
        };
    }
    macro_rules! toq {
        ($name:expr, $e:expr) => {
            ($name, None, Some($e), oob)
        };
    }
    match op {
        0 => some!("ZERO", U::<B, L>::ZERO),
        1 => some!("ONE", U::<B, L>::ONE),
        2 => some!("MIN", U::<B, L>::MIN),
        3 => some!("MAX", U::<B, L>::MAX),
        4 => some!("default", U::<B, L>::default()),
        5 => {
            oob = raw_oob;
            let mut arr = [0u64; L];
            for (i, v) in pool.iter().take(L).enumerate() {
                arr[i] = *v;
            }
            some!("from_limbs", U::<B, L>::from_limbs(arr))
        }
        6 => { oob = raw_oob; some!("from_limbs_slice", U::<B, L>::from_limbs_slice(pool)) }
        7 => { oob = raw_oob; opt!("checked_from_limbs_slice", U::<B, L>::checked_from_limbs_slice(pool)) }
        8 => { oob = raw_oob; some!("wrapping_from_limbs_slice", U::<B, L>::wrapping_from_limbs_slice(pool)) }
        9 => { oob = raw_oob; some!("overflowing_from_limbs_slice", U::<B, L>::overflowing_from_limbs_slice(pool).0) }
        10 => { oob = raw_oob; some!("saturating_from_limbs_slice", U::<B, L>::saturating_from_limbs_slice(pool)) }
        11 => some!("from(u64)", U::<B, L>::from(imm)),
        12 => opt!("try_from(u64)", U::<B, L>::try_from(imm).ok()),
        13 => some!("wrapping_from(u64)", U::<B, L>::wrapping_from(imm)),
        14 => some!("saturating_from(u64)", U::<B, L>::saturating_from(imm)),
        15 => opt!("try_from(i64)", U::<B, L>::try_from(imm as i64).ok()),
        16 => some!("wrapping_from(i64)", U::<B, L>::wrapping_from(imm as i64)),
        17 => some!("saturating_from(i64)", U::<B, L>::saturating_from(imm as i64)),
        18 => opt!("try_from(u128)", U::<B, L>::try_from(u128v).ok()),
        19 => some!("wrapping_from(u128)", U::<B, L>::wrapping_from(u128v)),
        20 => some!("wrapping_from(i128)", U::<B, L>::wrapping_from(u128v as i128)),
        21 => some!("saturating_from(u128)", U::<B, L>::saturating_from(u128v)),
        22 => opt!("try_from(f64)", U::<B, L>::try_from(f).ok()),
        23 => some!("saturating_from(f64)", U::<B, L>::saturating_from(f)),
        24 => some!("wrapping_from(f64)", U::<B, L>::wrapping_from(f)),
        25 => opt!("try_from(f32)", U::<B, L>::try_from(f32::from_bits(imm as u32)).ok()),
        26 => opt!("uint_try_from(Uint)", U::<B, L>::uint_try_from(qa).ok()),
        27 => some!("wrapping_from(Uint)", U::<B, L>::wrapping_from(qa)),
        28 => some!("saturating_from(Uint)", U::<B, L>::saturating_from(qa)),
        29 => some!("wrapping_to(Uint)", qa.wrapping_to::<U<B, L>>()),
        30 => some!("saturating_to(Uint)", qa.saturating_to::<U<B, L>>()),
        31 => { oob = true; opt!("try_from_be_slice", U::<B, L>::try_from_be_slice(bytes)) }
        32 => { oob = true; opt!("try_from_le_slice", U::<B, L>::try_from_le_slice(bytes)) }
        33 => { oob = true; some!("from_be_slice", U::<B, L>::from_be_slice(bytes)) }
        34 => { oob = true; some!("from_le_slice", U::<B, L>::from_le_slice(bytes)) }
        35 => opt!("from_str_radix", U::<B, L>::from_str_radix(text, imm % 66).ok()),
        36 => opt!("from_str", text.parse::<U<B, L>>().ok()),
        37 => opt!("from_base_le", U::<B, L>::from_base_le(imm | 2, pool.iter().copied()).ok()),
        38 => opt!("from_base_be", U::<B, L>::from_base_be(imm | 2, pool.iter().copied()).ok()),
        39 => some!("add", x + y),
        40 => some!("sub", x - y),
        41 => some!("mul", x * y),
        42 => some!("div", x / y),
        43 => some!("rem", x % y),
        44 => some!("wrapping_add", x.wrapping_add(y)),
        45 => some!("wrapping_sub", x.wrapping_sub(y)),
        46 => some!("wrapping_mul", x.wrapping_mul(y)),
        47 => some!("overflowing_add", x.overflowing_add(y).0),
        48 => some!("overflowing_sub", x.overflowing_sub(y).0),
        49 => some!("overflowing_mul", x.overflowing_mul(y).0),
        50 => some!("saturating_add", x.saturating_add(y)),
        51 => some!("saturating_sub", x.saturating_sub(y)),
        52 => some!("saturating_mul", x.saturating_mul(y)),
        53 => opt!("checked_add", x.checked_add(y)),
        54 => opt!("checked_sub", x.checked_sub(y)),
        55 => opt!("checked_mul", x.checked_mul(y)),
        56 => opt!("checked_div", x.checked_div(y)),
        57 => opt!("checked_rem", x.checked_rem(y)),
        58 => some!("neg", -x),
        59 => some!("wrapping_neg", x.wrapping_neg()),
        60 => some!("overflowing_neg", x.overflowing_neg().0),
        61 => opt!("checked_neg", x.checked_neg()),
        62 => some!("abs_diff", x.abs_diff(y)),
        63 => some!("div_rem.0", x.div_rem(y).0),
        64 => some!("div_rem.1", x.div_rem(y).1),
        65 => some!("div_ceil", x.div_ceil(y)),
        66 => opt!("checked_next_multiple_of", x.checked_next_multiple_of(y)),
        67 => some!("next_multiple_of", x.next_multiple_of(y)),
        68 => some!("pow", x.pow(y)),
        69 => some!("wrapping_pow", x.wrapping_pow(y)),
        70 => some!("overflowing_pow", x.overflowing_pow(y).0),
        71 => some!("saturating_pow", x.saturating_pow(y)),
        72 => opt!("checked_pow", x.checked_pow(y)),
        73 => some!("root", x.root(us % 300 + 1)),
        74 => opt!("inv_ring", x.inv_ring()),
        75 => some!("not", !x),
        76 => some!("bitand", x & y),
        77 => some!("bitor", x | y),
        78 => some!("bitxor", x ^ y),
        79 => some!("shl", x << us),
        80 => some!("shr", x >> us),
        81 => some!("wrapping_shl", x.wrapping_shl(us)),
        82 => some!("wrapping_shr", x.wrapping_shr(us)),
        83 => some!("overflowing_shl", x.overflowing_shl(us).0),
        84 => some!("overflowing_shr", x.overflowing_shr(us).0),
        85 => some!("saturating_shl", x.saturating_shl(us)),
        86 => opt!("checked_shl", x.checked_shl(us)),
        87 => opt!("checked_shr", x.checked_shr(us)),
        88 => some!("arithmetic_shr", x.arithmetic_shr(us)),
        89 => some!("rotate_left", x.rotate_left(us)),
        90 => some!("rotate_right", x.rotate_right(us)),
        91 => some!("reverse_bits", x.reverse_bits()),
        92 => some!("set_bit(true)", { let mut t = x; t.set_bit(us, true); t }),
        93 => some!("set_bit(false)", { let mut t = x; t.set_bit(us, false); t }),
        94 => some!("next_power_of_two", x.next_power_of_two()),
        95 => opt!("checked_next_power_of_two", x.checked_next_power_of_two()),
        96 => some!("shl(Uint)", x << y),
        97 => some!("shr(Uint)", x >> y),
        98 => some!("reduce_mod", x.reduce_mod(y)),
        99 => some!("add_mod", x.add_mod(y, z)),
        100 => some!("mul_mod", x.mul_mod(y, z)),
        101 => some!("pow_mod", x.pow_mod(U::<B, L>::from_limbs_slice(&mask_limbs(&[imm & 0xffff], B)), z)),
        102 => opt!("inv_mod", x.inv_mod(y)),
        103 => some!("gcd", x.gcd(y)),
        104 => opt!("lcm", x.lcm(y)),
        105 => some!("gcd_extended.0", x.gcd_extended(y).0),
        106 => some!("gcd_extended.1", x.gcd_extended(y).1),
        107 => some!("gcd_extended.2", x.gcd_extended(y).2),
        108 => {
            use rand_08::{Rng, SeedableRng};
            let mut rng = rand_08::rngs::StdRng::seed_from_u64(imm);
            some!("rand08::gen", rng.gen::<U<B, L>>())
        }
        109 => {
            use rand_09::SeedableRng;
            let mut rng = rand_09::rngs::StdRng::seed_from_u64(imm);
            some!("random_with(rand09)", U::<B, L>::random_with(&mut rng))
        }
        110 => {
            use rand_09::{Rng, SeedableRng};
            let mut rng = rand_09::rngs::StdRng::seed_from_u64(imm);
            let mut t = x;
            t.randomize_with(&mut rng);
            let _ = rng.random::<U<B, L>>();
            some!("randomize_with(rand09)", t)
        }
        111 => {
            let mut data = bytes.clone();
            data.extend_from_slice(&imm.to_le_bytes());
            data.extend(pool.iter().flat_map(|v| v.to_le_bytes()));
            let mut un = arbitrary::Unstructured::new(&data);
            opt!("arbitrary::Arbitrary", <U<B, L> as arbitrary::Arbitrary>::arbitrary(&mut un).ok())
        }
        112 => {
            let rng = proptest::test_runner::TestRng::from_seed(proptest::test_runner::RngAlgorithm::ChaCha, &seed32(imm));
            let mut runner = proptest::test_runner::TestRunner::new_with_rng(proptest::test_runner::Config::default(), rng);
            let mut tree = proptest::arbitrary::any::<U<B, L>>().new_tree(&mut runner).unwrap();
            if imm & 1 == 1 {
                // a shrunk value is also handed to users
                for _ in 0..(imm >> 1) % 8 {
                    if !tree.simplify() {
                        break;
                    }
                }
            }
            some!("proptest::any", tree.current())
        }
        113 => {
            let mut g = quickcheck::Gen::new(us % 100 + 1);
            let v = <U<B, L> as quickcheck::Arbitrary>::arbitrary(&mut g);
            some!("quickcheck::Arbitrary", v)
        }
        114 => opt!("serde_json", serde_json::to_string(&qa).ok().and_then(|s| serde_json::from_str::<U<B, L>>(&s).ok())),
        115 => opt!("bincode", bincode::serialize(&qa).ok().and_then(|s| bincode::deserialize::<U<B, L>>(&s).ok())),
        116 => opt!("rlp", rlp::decode::<U<B, L>>(&rlp::encode(&qa)).ok()),
        117 => opt!("alloy_rlp", <U<B, L> as alloy_rlp::Decodable>::decode(&mut &alloy_rlp::encode(qa)[..]).ok()),
        118 => opt!("scale", <U<B, L> as parity_scale_codec::Decode>::decode(&mut &parity_scale_codec::Encode::encode(&qa)[..]).ok()),
        119 => {
            use ruint::support::scale::{CompactRefUint, CompactUint};
            if B2 < 536 && B < 536 {
                let enc = parity_scale_codec::Encode::encode(&CompactRefUint(&qa));
                opt!("scale_compact", <CompactUint<B, L> as parity_scale_codec::Decode>::decode(&mut &enc[..]).ok().map(|v| v.0))
            } else {
                ("scale_compact", None, None, false)
            }
        }
        120 => opt!("ssz", <U<B, L> as ssz::Decode>::from_ssz_bytes(&ssz::Encode::as_ssz_bytes(&qa)).ok()),
        121 => opt!("borsh", borsh::to_vec(&qa).ok().and_then(|s| borsh::from_slice::<U<B, L>>(&s).ok())),
        122 => opt!("der", der::Encode::to_der(&qa).ok().and_then(|s| <U<B, L> as der::Decode>::from_der(&s).ok())),
        123 => some!("num_traits::Zero", <U<B, L> as num_traits::Zero>::zero()),
        124 => some!("num_traits::One", <U<B, L> as num_traits::One>::one()),
        125 => some!("num_traits::Bounded::max", <U<B, L> as num_traits::Bounded>::max_value()),
        126 => opt!("FromPrimitive::from_u64", <U<B, L> as num_traits::FromPrimitive>::from_u64(imm)),
        127 => opt!("FromPrimitive::from_i64", <U<B, L> as num_traits::FromPrimitive>::from_i64(imm as i64)),
        128 => opt!("Num::from_str_radix", <U<B, L> as num_traits::Num>::from_str_radix(text, (imm % 35 + 2) as u32).ok()),
        129 => opt!("NumCast::from", <U<B, L> as num_traits::NumCast>::from(imm)),
        130 => { oob = true; opt!("TryFrom<BigUint>", U::<B, L>::try_from(big(pool)).ok()) }
        131 => { oob = true; opt!("TryFrom<BigInt>", U::<B, L>::try_from(bigi(pool)).ok()) }
        132 => some!("Sum", [x, y, z].iter().sum::<U<B, L>>()),
        133 => some!("Product", [x, y, z].iter().copied().product::<U<B, L>>()),
        134 => some!("Bits::into_inner", ruint::Bits::<B, L>::from(x).into_inner()),
        135 => some!("Bits not", (!ruint::Bits::<B, L>::from(x)).into_inner()),
        // second-width producers (cross-width flows)
        136 => toq!("q=wrapping_from(r)", Uint::<B2, L2>::wrapping_from(x)),
        137 => toq!("q=saturating_from(r)", Uint::<B2, L2>::saturating_from(x)),
        138 => toq!("q=wrapping_to", x.wrapping_to::<Uint<B2, L2>>()),
        139 => toq!("q=q*q+MAX", qa.wrapping_mul(q[(a + 1) % 2]).wrapping_add(Uint::<B2, L2>::MAX)),
        140 => toq!("q=q<<imm", qa << (us % (B2 + 2))),
        141 => toq!("q=!q", !qa),
        // the two generators that draw from the thread-local RNG: their values are checked but
        // never stored (body2), so that a history stays a pure function of the case
        142 => some!("thread_rng random()", U::<B, L>::random()),
        143 => {
            let mut t = x;
            t.randomize();
            some!("thread_rng randomize()", t)
        }
        // num-traits PrimInt / byte-order surface (a panic, e.g. swap_bytes at a width that is not
        // a whole number of bytes, leaves the registers unchanged; a returned value must be canonical)
        144 => some!("PrimInt::swap_bytes", <U<B, L> as num_traits::PrimInt>::swap_bytes(x)),
        145 => some!("PrimInt::to_be", <U<B, L> as num_traits::PrimInt>::to_be(x)),
        146 => some!("PrimInt::from_be", <U<B, L> as num_traits::PrimInt>::from_be(x)),
        147 => some!("PrimInt::to_le", <U<B, L> as num_traits::PrimInt>::to_le(x)),
        148 => some!("PrimInt::from_le", <U<B, L> as num_traits::PrimInt>::from_le(x)),
        149 => some!("PrimInt::reverse_bits", <U<B, L> as num_traits::PrimInt>::reverse_bits(x)),
        150 => some!("PrimInt::rotate_left", <U<B, L> as num_traits::PrimInt>::rotate_left(x, imm as u32 % (B as u32 + 70))),
        151 => some!("PrimInt::rotate_right", <U<B, L> as num_traits::PrimInt>::rotate_right(x, imm as u32 % (B as u32 + 70))),
        152 => some!("PrimInt::signed_shl", <U<B, L> as num_traits::PrimInt>::signed_shl(x, imm as u32 % (B as u32 + 70))),
        153 => some!("PrimInt::signed_shr", <U<B, L> as num_traits::PrimInt>::signed_shr(x, imm as u32 % (B as u32 + 70))),
        154 => some!("PrimInt::unsigned_shl", <U<B, L> as num_traits::PrimInt>::unsigned_shl(x, imm as u32 % (B as u32 + 70))),
        155 => some!("PrimInt::unsigned_shr", <U<B, L> as num_traits::PrimInt>::unsigned_shr(x, imm as u32 % (B as u32 + 70))),
        156 => some!("PrimInt::pow", <U<B, L> as num_traits::PrimInt>::pow(x, imm as u32 % 70)),
        157 => some!("FromBytes::from_be_bytes", <U<B, L> as num_traits::FromBytes>::from_be_bytes(&num_traits::ToBytes::to_le_bytes(&x))),
        // num-integer surface (added after seeded round 10: `Integer::inc` rewritten on raw limbs)
        158 => {
            let mut t = x;
            num_integer::Integer::inc(&mut t);
            some!("Integer::inc", t)
        }
        159 => {
            let mut t = x;
            num_integer::Integer::dec(&mut t);
            some!("Integer::dec", t)
        }
        160 => some!("Integer::div_floor", num_integer::Integer::div_floor(&x, &y)),
        161 => some!("Integer::mod_floor", num_integer::Integer::mod_floor(&x, &y)),
        162 => some!("Integer::gcd", num_integer::Integer::gcd(&x, &y)),
        163 => some!("Integer::lcm", num_integer::Integer::lcm(&x, &y)),
        164 => some!("Integer::div_ceil", num_integer::Integer::div_ceil(&x, &y)),
        165 => some!("Integer::div_mod_floor.1", num_integer::Integer::div_mod_floor(&x, &y).1),
        166 => some!("Integer::extended_gcd.x", num_integer::Integer::extended_gcd(&x, &y).x),
        167 => some!("Integer::extended_gcd.y", num_integer::Integer::extended_gcd(&x, &y).y),
        168 => some!("Integer::next_multiple_of", num_integer::Integer::next_multiple_of(&x, &y)),
        169 => some!("Integer::prev_multiple_of", num_integer::Integer::prev_multiple_of(&x, &y)),
        _ => some!("Integer::gcd_lcm.1", num_integer::Integer::gcd_lcm(&x, &y).1),
    }
}

fn body2<const B: usize, const L: usize, const B2: usize, const L2: usize>(c: &Case, rec: &mut Rec) -> R {
    let mut r: [Uint<B, L>; 4] = [mk(&c.l[0]), mk(&c.l[1]), mk(&c.l[2]), mk(&c.l[3])];
    let mut q: [Uint<B2, L2>; 2] = [mk(&c.l[4]), mk(&c.l[5])];
    let nops = c.n.len() / STRIDE;
    let mut nontrivial = false;
    let mut trace: Vec<&'static str> = vec![];
    for k in 0..nops {
        let o = &c.n[k * STRIDE..(k + 1) * STRIDE];
        let (op, d, a, b, imm) = (o[0] % N_OPS, o[1] as usize, o[2] as usize, o[3] as usize, o[4]);
        let name;
        let res = catch(|| produce::<B, L, B2, L2>(op, &r, &q, a, b, imm, c));
        match res {
            Err(_) => {
                // an op that panics leaves the registers unchanged (unexpected panics belong to
                // the other properties)
                rec.class("step_panicked");
                continue;
            }
            Ok((n, nr, nq, oob)) => {
                name = n;
                if let (true, Some(v)) = (n.starts_with("thread_rng"), nr) {
                    invariant(rec, &[v], name)?;
                    trace.push(name);
                    continue;
                }
                if let Some(v) = nr {
                    if B % 64 != 0 && (oob || v.bit(B - 1)) {
                        nontrivial = true;
                    }
                    r[d % 4] = v;
                } else if nq.is_none() {
                    rec.class("step_returned_none");
                }
                if let Some(v) = nq {
                    q[d % 2] = v;
                }
            }
        }
        trace.push(name);
        invariant(rec, &r, name)?;
        invariant(rec, &q, name)?;
    }
    rec.class(if nops == 1 { "history_len=1" } else if nops < 10 { "history_len<10" } else { "history_len>=10" });
    if nontrivial {
        rec.nontrivial(c);
    }
    rec.sample(|| json!({"BITS": B, "BITS2": B2, "ops": trace.iter().take(40).collect::<Vec<_>>(), "final_registers": r.iter().map(|x| hex(&num(x))).collect::<Vec<_>>()}));
    Ok(())
}

macro_rules! reg_pair {
    ($jobs:expr, $cases:expr; $(($b1:literal, $b2:literal)),* $(,)?) => {
        $( $jobs.gen("history", $b1, $cases, move || strat2($b1, $b2), body2::<$b1, { ruint::nlimbs($b1) }, $b2, { ruint::nlimbs($b2) }>); )*
    };
}
macro_rules! reg_pair_enum {
    ($jobs:expr; $(($b1:literal, $b2:literal)),* $(,)?) => {
        $( $jobs.enumerate("all_pairs_x_all_producers", $b1, move |f| enum_small($b1, $b2, f), body2::<$b1, { ruint::nlimbs($b1) }, $b2, { ruint::nlimbs($b2) }>); )*
    };
}

// =====================================================================================
// Part B — ill-formed (BITS, LIMBS) pairs
// =====================================================================================

const PROBE_BITS: [usize; 7] = [0, 1, 63, 64, 65, 128, 129];
const PROBE_LIMBS: [usize; 4] = [0, 1, 2, 3];

/// Catalogue of constants and constructors. `{T}` = the Uint type, `{B}`, `{L}`, `{BY}` = BITS,
/// LIMBS, (BITS+7)/8.
const CATALOGUE: &[(&str, &str)] = &[
    ("ZERO", "<{T}>::ZERO"),
    ("ONE", "<{T}>::ONE"),
    ("MIN", "<{T}>::MIN"),
    ("MAX", "<{T}>::MAX"),
    ("default", "<{T}>::default()"),
    ("Default::default", "<{T} as Default>::default()"),
    ("from_limbs", "<{T}>::from_limbs([0u64; {L}])"),
    ("from_limbs_slice(empty)", "<{T}>::from_limbs_slice(&[])"),
    ("from_limbs_slice(zeros)", "<{T}>::from_limbs_slice(&[0u64; {L}])"),
    ("checked_from_limbs_slice", "<{T}>::checked_from_limbs_slice(&[]).unwrap()"),
    ("wrapping_from_limbs_slice", "<{T}>::wrapping_from_limbs_slice(&[0u64; 4])"),
    ("overflowing_from_limbs_slice", "<{T}>::overflowing_from_limbs_slice(&[0u64]).0"),
    ("saturating_from_limbs_slice", "<{T}>::saturating_from_limbs_slice(&[u64::MAX; 5])"),
    ("from(u64)", "<{T}>::from(0u64)"),
    ("from(u8)", "<{T}>::from(0u8)"),
    ("from(bool)", "<{T}>::from(false)"),
    ("try_from(u64)", "<{T}>::try_from(0u64).unwrap()"),
    ("try_from(u128)", "<{T}>::try_from(0u128).unwrap()"),
    ("try_from(i32)", "<{T}>::try_from(0i32).unwrap()"),
    ("try_from(f64)", "<{T}>::try_from(0.0f64).unwrap()"),
    ("wrapping_from(u64)", "<{T}>::wrapping_from(0u64)"),
    ("wrapping_from(u128 big)", "<{T}>::wrapping_from(u128::MAX)"),
    ("saturating_from(u64)", "<{T}>::saturating_from(u64::MAX)"),
    ("saturating_from(i64)", "<{T}>::saturating_from(-1i64)"),
    ("from(Uint)", "<{T}>::from(ruint::Uint::<64, 1>::ZERO)"),
    ("uint_try_from(Uint)", "<{T} as ruint::UintTryFrom<ruint::Uint<64, 1>>>::uint_try_from(ruint::Uint::<64, 1>::ZERO).unwrap()"),
    ("wrapping_from(Uint)", "<{T}>::wrapping_from(ruint::Uint::<64, 1>::MAX)"),
    ("saturating_from(Uint)", "<{T}>::saturating_from(ruint::Uint::<64, 1>::MAX)"),
    ("Uint::to", "ruint::Uint::<64, 1>::ZERO.to::<{T}>()"),
    ("Uint::wrapping_to", "ruint::Uint::<64, 1>::MAX.wrapping_to::<{T}>()"),
    ("Uint::saturating_to", "ruint::Uint::<64, 1>::MAX.saturating_to::<{T}>()"),
    ("from_be_bytes", "<{T}>::from_be_bytes([0u8; {BY}])"),
    ("from_le_bytes", "<{T}>::from_le_bytes([0u8; {BY}])"),
    ("from_be_slice", "<{T}>::from_be_slice(&[])"),
    ("from_le_slice", "<{T}>::from_le_slice(&[0u8; {BY}])"),
    ("try_from_be_slice", "<{T}>::try_from_be_slice(&[]).unwrap()"),
    ("try_from_le_slice", "<{T}>::try_from_le_slice(&[0u8; {BY}]).unwrap()"),
    ("from_str_radix", "<{T}>::from_str_radix(\"0\", 10).unwrap()"),
    ("from_str", "\"0\".parse::<{T}>().unwrap()"),
    ("from_base_le", "<{T}>::from_base_le(10, [0u64]).unwrap()"),
    ("from_base_be", "<{T}>::from_base_be(10, [0u64]).unwrap()"),
    ("from_base_be(empty)", "<{T}>::from_base_be(10, core::iter::empty::<u64>()).unwrap()"),
    ("random_with", "<{T}>::random_with(&mut <rand_09::rngs::StdRng as rand_09::SeedableRng>::seed_from_u64(1))"),
    ("random", "<{T}>::random()"),
    ("rand08 gen", "rand_08::Rng::gen::<{T}>(&mut <rand_08::rngs::StdRng as rand_08::SeedableRng>::seed_from_u64(1))"),
    ("rand09 random", "rand_09::Rng::random::<{T}>(&mut <rand_09::rngs::StdRng as rand_09::SeedableRng>::seed_from_u64(1))"),
    ("arbitrary", "<{T} as arbitrary::Arbitrary>::arbitrary(&mut arbitrary::Unstructured::new(&[0u8; 64])).unwrap()"),
    ("quickcheck", "<{T} as quickcheck::Arbitrary>::arbitrary(&mut quickcheck::Gen::new(10))"),
    ("proptest any", "proptest::strategy::ValueTree::current(&proptest::strategy::Strategy::new_tree(&proptest::arbitrary::any::<{T}>(), &mut proptest::test_runner::TestRunner::deterministic()).unwrap())"),
    ("iter sum", "core::iter::empty::<{T}>().sum::<{T}>()"),
    ("iter product", "core::iter::empty::<{T}>().product::<{T}>()"),
    ("num_traits::Zero", "<{T} as num_traits::Zero>::zero()"),
    ("num_traits::One", "<{T} as num_traits::One>::one()"),
    ("num_traits::Bounded", "<{T} as num_traits::Bounded>::max_value()"),
    ("num_traits::FromPrimitive", "<{T} as num_traits::FromPrimitive>::from_u64(0).unwrap()"),
    ("Bits::ZERO", "ruint::Bits::<{B}, {L}>::ZERO.into_inner()"),
    ("Bits::from_limbs", "ruint::Bits::<{B}, {L}>::from_limbs([0u64; {L}]).into_inner()"),
    ("Bits::default", "ruint::Bits::<{B}, {L}>::default().into_inner()"),
    ("Bits::from_str", "\"0\".parse::<ruint::Bits<{B}, {L}>>().unwrap().into_inner()"),
    ("Bits::try_from_be_slice", "ruint::Bits::<{B}, {L}>::try_from_be_slice(&[]).unwrap().into_inner()"),
];

/// (name, statement writing a non-canonical limb through the gate, expression template)
const GATES: &[(&str, &str, &str)] = &[
    ("Uint::as_limbs_mut", "v.as_limbs_mut()[{L} - 1] = u64::MAX;", "{ let mut v = <{T}>::ZERO; {STMT} v }"),
    ("Uint::as_le_slice_mut", "v.as_le_slice_mut()[{BY} - 1] = 0xff;", "{ let mut v = <{T}>::ZERO; {STMT} v }"),
    ("Bits::as_limbs_mut", "v.as_limbs_mut()[{L} - 1] = u64::MAX;", "{ let mut v = ruint::Bits::<{B}, {L}>::ZERO; {STMT} v.into_inner() }"),
];

/// rand 0.8 generator whose every output bit is one
const ONES_RNG: &str = "struct Ones; impl rand_08::RngCore for Ones { fn next_u32(&mut self) -> u32 { !0 } fn next_u64(&mut self) -> u64 { !0 } fn fill_bytes(&mut self, d: &mut [u8]) { for b in d.iter_mut() { *b = 0xff; } } fn try_fill_bytes(&mut self, d: &mut [u8]) -> Result<(), rand_08::Error> { self.fill_bytes(d); Ok(()) } }";

/// producers of the rand-0.8-only configuration (well-formed types; the value must be canonical)
const RAND08: &[(&str, &str)] = &[
    ("randomize_with", "{ {ONES} let mut v = <{T}>::ZERO; v.randomize_with(&mut Ones); v }"),
    ("random_with", "{ {ONES} <{T}>::random_with(&mut Ones) }"),
    ("Rng::gen", "{ {ONES} rand_08::Rng::gen::<{T}>(&mut Ones) }"),
    ("Rng::sample(Standard)", "{ {ONES} rand_08::Rng::sample::<{T}, _>(&mut Ones, rand_08::distributions::Standard) }"),
    ("random() x64", "{ let mut acc = <{T}>::ZERO; for _ in 0..64 { acc = acc | <{T}>::random(); } acc }"),
    ("randomize() x64", "{ let mut acc = <{T}>::ZERO; for _ in 0..64 { let mut v = <{T}>::ZERO; v.randomize(); acc = acc | v; } acc }"),
];

/// parses the `OBTAINED n [bytes]` line of a probe and tells whether all bits at positions >= bits are zero
fn dumped_canonical(line: &str, bits: usize) -> Option<bool> {
    let inner = line.split('[').nth(1)?.split(']').next()?;
    let bytes: Vec<u8> = inner.split(',').filter_map(|t| t.trim().parse::<u8>().ok()).collect();
    if bytes.is_empty() && !inner.trim().is_empty() {
        return None;
    }
    Some(bytes.iter().enumerate().all(|(i, b)| {
        let lo = 8 * i;
        if lo >= bits { *b == 0 } else if lo + 8 > bits { *b >> (bits - lo) == 0 } else { true }
    }))
}

fn probe_src(bits: usize, limbs: usize, expr: &str) -> String {
    let t = format!("ruint::Uint<{bits}, {limbs}>");
    let e = expr.replace("{T}", &t).replace("{B}", &bits.to_string()).replace("{L}", &limbs.to_string()).replace("{BY}", &((bits + 7) / 8).to_string());
    // The value is dumped as raw memory WITHOUT calling any other Uint method.
    format!(
        "#![allow(warnings)]\nuse ruint::UintTryFrom; use ruint::UintTryTo;\nfn dump<T>(x: &T) {{ let n = core::mem::size_of::<T>(); let s = unsafe {{ core::slice::from_raw_parts(x as *const T as *const u8, n) }}; println!(\"OBTAINED {{}} {{:?}}\", n, s); }}\nfn main() {{\n    let x: {t} = {e};\n    dump(&x);\n}}\n"
    )
}

#[derive(Clone, Debug)]
struct ProbeItem {
    bits: usize,
    limbs: usize,
    idx: usize,
}

/// true = the value was obtained (program built, ran, printed OBTAINED)
fn obtained(env: &ProbeEnv, name: &str, bits: usize, limbs: usize, expr: &str) -> (bool, String) {
    let c = env.compile(name, &probe_src(bits, limbs, expr));
    let r = if !c.ok {
        (false, format!("compile error: {}", c.errors().first().cloned().unwrap_or_default()))
    } else {
        let out = env.run(&c);
        if out.stdout.contains("OBTAINED") {
            (true, out.stdout.lines().next().unwrap_or("").to_string())
        } else {
            (false, format!("run-time failure: {}", out.stderr.lines().next().unwrap_or("")))
        }
    };
    env.cleanup(&c);
    r
}

fn part_b(args: &Args) -> ExtraResult {
    let mut ex = ExtraResult::default();
    let harness_dir = PathBuf::from(env!("CARGO_MANIFEST_DIR"));
    let env = match ProbeEnv::prepare(&harness_dir, "c04") {
        Ok(e) => e,
        Err(e) => harness_error(&e),
    };
    let known = load_known(&args.root, "C04");
    // all ill-formed pairs x catalogue
    let mut all: Vec<ProbeItem> = vec![];
    for &b in &PROBE_BITS {
        for &l in &PROBE_LIMBS {
            if l != (b + 63) / 64 {
                for idx in 0..CATALOGUE.len() {
                    all.push(ProbeItem { bits: b, limbs: l, idx });
                }
            }
        }
    }
    // quick tier: a seeded sample (every catalogue entry at least twice, every pair at least
    // five times); thorough: the full product
    let items: Vec<ProbeItem> = if args.tier == "thorough" {
        all.clone()
    } else {
        let picks = draw(&proptest::collection::vec(any::<u32>(), all.len()), args.seed ^ 0xC04, 1).remove(0);
        let mut chosen: Vec<ProbeItem> = vec![];
        let mut per_entry: BTreeMap<usize, usize> = BTreeMap::new();
        let mut order: Vec<usize> = (0..all.len()).collect();
        order.sort_by_key(|i| picks[*i]);
        for i in order {
            let it = &all[i];
            let c = per_entry.entry(it.idx).or_insert(0);
            if *c < 3 {
                *c += 1;
                chosen.push(it.clone());
            }
        }
        chosen
    };
    // controls: each catalogue entry with the well-formed LIMBS must be obtainable (otherwise the
    // probe is vacuous)
    let controls: Vec<(usize, usize)> = (0..CATALOGUE.len()).flat_map(|i| [(i, 64usize), (i, 129usize)]).collect();
    let ctrl = par_map(&controls, args.threads, |k, (i, b)| obtained(&env, &format!("ctrl{k}"), *b, (*b + 63) / 64, CATALOGUE[*i].1));
    let mut vacuous = vec![];
    for ((i, b), (ok, msg)) in controls.iter().zip(ctrl.iter()) {
        if !*ok {
            vacuous.push(format!("{} at BITS={b}: {msg}", CATALOGUE[*i].0));
        }
    }
    let mut vacuous_idx: std::collections::HashSet<usize> = Default::default();
    for ((i, _), (ok, _)) in controls.iter().zip(ctrl.iter()) {
        if !*ok {
            vacuous_idx.insert(*i);
        }
    }
    if vacuous_idx.len() * 4 > CATALOGUE.len() {
        // most controls fail: the probe environment or the catalogue is broken: harness problem
        harness_error(&format!("control probes (well-formed LIMBS) did not obtain a value: {}", vacuous.join("; ")));
    }
    // a catalogue entry whose control twin fails is vacuous: counted, not reported
    let items: Vec<ProbeItem> = items.into_iter().filter(|it| !vacuous_idx.contains(&it.idx)).collect();
    let res = par_map(&items, args.threads, |k, it| obtained(&env, &format!("probe{k}"), it.bits, it.limbs, CATALOGUE[it.idx].1));
    let mut rejected_compile = 0u64;
    let mut rejected_runtime = 0u64;
    let mut seen: std::collections::HashSet<String> = Default::default();
    let mut excluded: BTreeMap<String, u64> = BTreeMap::new();
    for (it, (ok, msg)) in items.iter().zip(res.iter()) {
        ex.evaluations += 1;
        let mut h = std::collections::hash_map::DefaultHasher::new();
        (it.bits, it.limbs, it.idx).hash(&mut h);
        ex.nontrivial_hashes.push(h.finish());
        let name = CATALOGUE[it.idx].0;
        if ex.samples.len() < 6 {
            ex.samples.push(json!({"ill_formed_type": format!("Uint<{}, {}>", it.bits, it.limbs), "constructor": name, "outcome": msg}));
        }
        if *ok {
            let class = format!("ill_formed_obtainable:{name}");
            if known.iter().any(|k| k.status == "known" && k.check == "ill_formed_probe" && (k.class == class || k.class == "ill_formed_obtainable:*")) {
                *excluded.entry(class).or_insert(0) += 1;
                continue;
            }
            println!("failure: a value of the ill-formed type Uint<{}, {}> was obtained through {name}: {msg}", it.bits, it.limbs);
            if seen.insert(class.clone()) {
                let p = write_replay_value(&args.root, "C04", "ill_formed", &json!({"property": "C04", "rule": "ill_formed_probe", "bits": it.bits, "limbs": it.limbs, "constructor": name, "expr": CATALOGUE[it.idx].1, "check": "ill_formed_probe", "failure_class": class, "message": msg}));
                ex.violations.push((class, p));
            }
        } else if msg.starts_with("compile") {
            rejected_compile += 1;
        } else {
            rejected_runtime += 1;
        }
    }
    // known findings (witness stored as JSON text in case.s[0])
    for k in &known {
        if k.check != "ill_formed_probe" {
            continue;
        }
        if let Some((_, _, case)) = &k.witness {
            if let Some(v) = case.s.first().and_then(|t| serde_json::from_str::<Value>(t).ok()) {
                let (b, l, e) = (v["bits"].as_u64().unwrap_or(64) as usize, v["limbs"].as_u64().unwrap_or(2) as usize, v["expr"].as_str().unwrap_or("<{T}>::MAX").to_string());
                let (ok, msg) = obtained(&env, &format!("known_{}", k.id.replace('-', "_")), b, l, &e);
                match (k.status.as_str(), ok) {
                    ("known", true) => ex.known_lines.push(format!("KNOWN-FINDING: property=C04 {} [{}]", k.what, k.id)),
                    ("fixed", true) => {
                        println!("regression of fixed finding {}: {msg}", k.id);
                        let p = write_replay_value(&args.root, "C04", "ill_formed", &json!({"property": "C04", "rule": "ill_formed_probe", "bits": b, "limbs": l, "expr": e, "check": "ill_formed_probe", "failure_class": k.class, "message": msg}));
                        ex.violations.push((k.class.clone(), p));
                    }
                    _ => {}
                }
            }
        }
    }
    // Part C: the three public functions that hand out mutable access to the raw limbs / bytes
    // are `unsafe fn`; called without an `unsafe` block a program writing a non-canonical limb must
    // not compile. The twin with the `unsafe` block is the control (it must obtain the value).
    {
        let mut probes: Vec<(usize, usize, usize, bool)> = vec![];
        for (b, l) in [(7usize, 1usize), (100, 2)] {
            for g in 0..GATES.len() {
                probes.push((b, l, g, false));
                probes.push((b, l, g, true));
            }
        }
        let res = par_map(&probes, args.threads, |k, (b, l, g, with_unsafe)| {
            let stmt = if *with_unsafe { format!("unsafe {{ {} }}", GATES[*g].1) } else { GATES[*g].1.to_string() };
            obtained(&env, &format!("gate{k}"), *b, *l, &GATES[*g].2.replace("{STMT}", &stmt))
        });
        let mut gate_ok = 0u64;
        let mut gate_vacuous = vec![];
        for ((b, l, g, with_unsafe), (ok, msg)) in probes.iter().zip(res.iter()) {
            ex.evaluations += 1;
            let name = GATES[*g].0;
            match (*with_unsafe, *ok) {
                (true, false) => gate_vacuous.push(format!("{name} at BITS={b}: {msg}")),
                (false, true) => {
                    let class = format!("non_canonical_through_safe_call:{name}");
                    println!("failure: {name} is callable without `unsafe` and yields a non-canonical Uint<{b}, {l}>: {msg}");
                    if seen.insert(class.clone()) {
                        let expr = GATES[*g].2.replace("{STMT}", GATES[*g].1);
                        let p = write_replay_value(&args.root, "C04", "unsafe_gate", &json!({"property": "C04", "rule": "ill_formed_probe", "bits": b, "limbs": l, "constructor": name, "expr": expr, "check": "unsafe_gate_probe", "failure_class": class, "message": msg}));
                        ex.violations.push((class, p));
                    }
                }
                (false, false) if msg.starts_with("compile") => gate_ok += 1,
                _ => {}
            }
        }
        ex.coverage.insert("unsafe_gate_probes".into(), json!(probes.len()));
        ex.coverage.insert("unsafe_gate_rejected_at_compile_time".into(), json!(gate_ok));
        ex.coverage.insert("unsafe_gate_vacuous".into(), json!(gate_vacuous));
    }
    // Part D: the feature configuration `rand` without `rand-09` (the only one that compiles the
    // rand-0.8 inherent generators): every value handed out by them must be canonical. The
    // all-ones generator makes a missing mask visible in one draw; the thread-RNG forms are OR-ed
    // over 64 draws.
    {
        let env2 = match ProbeEnv::prepare_pkg(&harness_dir, "probe_pkg_rand08", "c04_rand08", &["ruint", "rand_08"]) {
            Ok(e) => e,
            Err(e) => harness_error(&e),
        };
        let mut probes: Vec<(usize, usize, usize)> = vec![];
        for (b, l) in [(7usize, 1usize), (63, 1), (64, 1), (65, 2), (100, 2)] {
            for g in 0..RAND08.len() {
                probes.push((b, l, g));
            }
        }
        let res = par_map(&probes, args.threads, |k, (b, l, g)| obtained(&env2, &format!("r08_{k}"), *b, *l, &RAND08[*g].1.replace("{ONES}", ONES_RNG)));
        let mut ok_n = 0u64;
        let mut broken = vec![];
        for ((b, l, g), (ok, msg)) in probes.iter().zip(res.iter()) {
            ex.evaluations += 1;
            let name = RAND08[*g].0;
            if !*ok {
                // the program must build and run in this configuration: otherwise the probe is vacuous
                broken.push(format!("{name} at BITS={b}: {msg}"));
                continue;
            }
            match dumped_canonical(msg, *b) {
                Some(true) => ok_n += 1,
                Some(false) => {
                    let class = format!("non_canonical_value:rand08_only:{name}");
                    println!("failure: features [std, rand] without rand-09: {name} handed out a non-canonical Uint<{b}, {l}>: {msg}");
                    if seen.insert(class.clone()) {
                        let p = write_replay_value(&args.root, "C04", "rand08_config", &json!({"property": "C04", "rule": "rand08_config_probe", "bits": b, "limbs": l, "constructor": name, "expr": RAND08[*g].1.replace("{ONES}", ONES_RNG), "check": "rand08_config_probe", "failure_class": class, "message": msg}));
                        ex.violations.push((class, p));
                    }
                }
                None => broken.push(format!("{name} at BITS={b}: unparsable dump {msg}")),
            }
        }
        if broken.len() * 2 > probes.len() {
            harness_error(&format!("rand-0.8-only probes did not run: {}", broken.join("; ")));
        }
        ex.coverage.insert("rand08_config_probes".into(), json!(probes.len()));
        ex.coverage.insert("rand08_config_canonical".into(), json!(ok_n));
        ex.coverage.insert("rand08_config_vacuous".into(), json!(broken));
        let _ = std::fs::remove_dir_all(&env2.work);
    }
    ex.coverage.insert("ill_formed_probes".into(), json!(items.len()));
    ex.coverage.insert("ill_formed_probe_space".into(), json!(all.len()));
    ex.coverage.insert("ill_formed_space_exhausted".into(), json!(items.len() == all.len()));
    ex.coverage.insert("ill_formed_rejected_at_compile_time".into(), json!(rejected_compile));
    ex.coverage.insert("ill_formed_rejected_at_run_time".into(), json!(rejected_runtime));
    ex.coverage.insert("control_probes_ok".into(), json!(controls.len()));
    ex.coverage.insert("catalogue_entries".into(), json!(CATALOGUE.len()));
    ex.coverage.insert("vacuous_catalogue_entries".into(), json!(vacuous));
    ex.coverage.insert("ill_formed_excluded_known".into(), json!(excluded));
    let _ = std::fs::remove_dir_all(&env.work);
    ex
}

fn main() {
    let args = parse_args();
    // replay of a Part-B finding
    if let Some(path) = &args.replay {
        let v: Value = serde_json::from_str(&std::fs::read_to_string(path).unwrap_or_default()).unwrap_or(Value::Null);
        if v["rule"] == "ill_formed_probe" {
            let harness_dir = PathBuf::from(env!("CARGO_MANIFEST_DIR"));
            let env = match ProbeEnv::prepare(&harness_dir, "c04_replay") {
                Ok(e) => e,
                Err(e) => harness_error(&e),
            };
            let (ok, msg) = obtained(&env, "replay", v["bits"].as_u64().unwrap_or(0) as usize, v["limbs"].as_u64().unwrap_or(0) as usize, v["expr"].as_str().unwrap_or(""));
            println!("replay: {msg}");
            if ok {
                println!("VIOLATION property=C04 replay={}", path.display());
                std::process::exit(1);
            }
            println!("REPLAY-PASS property=C04");
            std::process::exit(0);
        }
        if v["rule"] == "rand08_config_probe" {
            let harness_dir = PathBuf::from(env!("CARGO_MANIFEST_DIR"));
            let env = match ProbeEnv::prepare_pkg(&harness_dir, "probe_pkg_rand08", "c04_replay08", &["ruint", "rand_08"]) {
                Ok(e) => e,
                Err(e) => harness_error(&e),
            };
            let bits = v["bits"].as_u64().unwrap_or(0) as usize;
            let (ok, msg) = obtained(&env, "replay", bits, v["limbs"].as_u64().unwrap_or(0) as usize, v["expr"].as_str().unwrap_or(""));
            println!("replay: {msg}");
            if ok && dumped_canonical(&msg, bits) == Some(false) {
                println!("VIOLATION property=C04 replay={}", path.display());
                std::process::exit(1);
            }
            println!("REPLAY-PASS property=C04");
            std::process::exit(0);
        }
    } else if args.only.is_none() {
        set_extra(part_b(&args));
    }
    let spec = PropSpec {
        id: "C04",
        rule_text: "Part A: register machine with 4 registers of Uint<BITS> and 2 of a second width; histories = 1..39 steps drawn from a catalogue of 171 safe public producers (constants; from_limbs / from_limbs_slice and its checked / wrapping / overflowing / saturating forms incl. out-of-range and over-long limb vectors; conversions from u64/i64/u128/i128/f64/f32 and other-width Uints; byte, string, digit decoders on generated inputs; all arithmetic, bit, shift, rotate, modular, gcd, pow, root operations; set_bit incl. out-of-range indices; rand 0.8 / 0.9 with seeded RNGs, random() and randomize() on the thread-local RNG (checked, never stored), arbitrary over generated bytes, proptest any() incl. shrunk values, quickcheck; serde_json, bincode, rlp, alloy-rlp, SCALE fixed/compact, SSZ, borsh, DER decoders fed encodings of the other-width registers; num-traits constructors and the PrimInt byte-order / bit / shift / pow methods; the num-integer Integer methods (inc, dec, floor / ceil division, gcd, lcm, extended_gcd, next / prev multiple); BigUint/BigInt conversions; Sum/Product; Bits wrapper). A step that panics leaves the registers unchanged. Invariant after every step: every register canonical (bits >= BITS zero, read through as_limbs), and for every register pair ==, Hash (SipHash, fixed keys), cmp, partial_cmp, <, <=, >, >=, min, max, is_zero agree with the integers. Width pairs include 1088 and 2112 bits (17 and 33 limbs). Exhaustive for BITS in {1,2,3,5,6}: all (a,b) pairs x every producer. Non-trivial history: non-aligned width and some step produced a value with bit BITS-1 set or was handed out-of-range input. Part B: generated programs for every ill-formed (BITS,LIMBS) in {0,1,63,64,65,128,129} x {0,1,2,3} x a catalogue of 60 constants/constructors; each obtains the value and dumps its raw memory without calling another Uint method; a compile error or run-time panic is correct, printing OBTAINED is a violation; every catalogue entry has control twins (well-formed LIMBS at 64 and 129 bits) that must print OBTAINED. Part C: programs that write a non-canonical limb through Uint::as_limbs_mut, Uint::as_le_slice_mut and Bits::as_limbs_mut without an `unsafe` block must be rejected by the compiler (twins with the block are the controls). Part D: in the feature configuration [std, rand] without rand-09 (second probe package) the rand-0.8 inherent generators randomize_with, random_with, Rng::gen, Rng::sample on an all-ones generator and random(), randomize() OR-ed over 64 thread-RNG draws must hand out canonical values at 7, 63, 64, 65 and 100 bits.",
        assumptions: vec![
            "Part A keeps no model of the operations' semantics: it can only alarm about the invariant",
            "quickcheck::Gen cannot be seeded: its values are checked but not reproducible from the seed (failing values are saved in the replay file)",
            "Part B samples a fixed catalogue of constants and constructors; bytemuck Zeroable and unsafe code are outside the property",
            "rustc accept/reject is trusted for Part B",
        ],
        thorough_mult: 20,
    };
    main_with(
        spec,
        |jobs, _| {
            reg_pair_enum!(jobs; (1, 2), (2, 1), (3, 7), (5, 3), (6, 64));
            // two wide widths with odd limb counts (17 and 33 limbs): few histories, the ordering
            // and equality invariants run over long limb arrays
            reg_pair!(jobs, 250; (1088, 64), (2112, 65));
            reg_pair!(jobs, 60; (4160, 64), (8256, 65));
            reg_pair!(jobs, 4000; (0, 65), (128, 0), (1, 64), (7, 8), (31, 32), (63, 64), (64, 63), (65, 128), (127, 128), (128, 129), (129, 64), (190, 255), (255, 256), (256, 257), (320, 63), (535, 60));
        },
        |_| Map::new(),
    );
}
