//! C05 — shifts and rotations (DESIGN 4, C05).

use proptest::prelude::*;
use ruint::Uint;
use vcore::big::*;
use vcore::gen::*;
use vcore::*;

fn special_amounts(bits: usize) -> Vec<u64> {
    let b = bits as u64;
    let l = 64 * nlimbs(bits) as u64;
    let mut v = vec![
        0, 1, 2, 7, 8, 31, 32, 33, 62, 63, 64, 65, 66, 127, 128, 129, 191, 192, 193,
        b.saturating_sub(2), b.saturating_sub(1), b, b + 1, b + 2, b + 63, b + 64, b + 65,
        l.saturating_sub(1), l, l + 1, l + 63, l + 64, l + 65, b + l, b + l + 1,
        255, 256, 257, 1 << 16, (1 << 16) + 1, 1 << 31, (1 << 31) - 1, 1 << 32, (1 << 32) + 1, (1 << 32) + 64,
        1 << 62, 1 << 63, (1 << 63) - 1, (1 << 63) + 1, u64::MAX - 1, u64::MAX, u64::MAX - 63, u64::MAX - 64,
    ];
    let mut k = 64;
    while k <= l + 64 {
        v.extend([k - 1, k, k + 1]);
        k += 64;
    }
    v.sort();
    v.dedup();
    v
}

fn amount(bits: usize) -> BoxedStrategy<u64> {
    let sp = special_amounts(bits);
    let hi = (bits + 64 * nlimbs(bits) + 1) as u64;
    prop_oneof![
        4 => 0..=hi,
        3 => proptest::sample::select(sp),
        1 => any::<u64>(),
        1 => (any::<u64>(), 0u32..64).prop_map(|(x, s)| x >> s),
        1 => index_huge(bits),
    ]
    .boxed()
}

/// Uint-typed shift amount (as limbs of a BITS-wide value), given the scalar s.
fn uint_amount(bits: usize) -> BoxedStrategy<(u64, Vec<u64>)> {
    let n = nlimbs(bits);
    if bits == 0 {
        return amount(0).prop_map(|s| (s, vec![])).boxed();
    }
    let embed = amount(bits).prop_map(move |s| (s, mask_vec(vec![s], bits)));
    // amounts with high limbs set (>= 2^64) whose low limb is a small plausible amount
    let high = (amount(bits), uint(bits), 1usize..n.max(2)).prop_map(move |(s, mut v, k)| {
        if n >= 2 {
            v[0] = s % (bits as u64 + 2);
            let k = k.min(n - 1);
            if v[k] == 0 {
                v[k] = 1;
            }
        }
        (s, mask_vec(v, bits))
    });
    let any_val = (amount(bits), uint(bits)).prop_map(|(s, v)| (s, v));
    prop_oneof![4 => embed, 2 => high, 1 => any_val].boxed()
}

fn strat(bits: usize) -> BoxedStrategy<Case> {
    let n = nlimbs(bits);
    // values whose set bits sit just below / at the top, to make single bits leave the word
    let edge_val = (0..bits.max(1), 0..bits.max(1)).prop_map(move |(i, j)| {
        if bits == 0 {
            return vec![];
        }
        let mut v = pow2_vec(i, n);
        let w = pow2_vec(j, n);
        for k in 0..n {
            v[k] |= w[k];
        }
        v
    });
    (prop_oneof![3 => uint(bits), 1 => edge_val], uint_amount(bits))
        .prop_map(|(v, (s, ua))| Case::new().l(v).l(ua).n(s))
        .boxed()
}

fn enum_all(bits: usize, f: &mut dyn FnMut(&Case) -> R) -> R {
    let m = 1u64 << bits;
    let mut amounts: Vec<u64> = (0..=(bits as u64 + 66)).collect();
    amounts.extend([127, 128, 129, 1 << 32, 1 << 63, u64::MAX]);
    for v in 0..m {
        for &s in &amounts {
            let lv = if bits == 0 { vec![] } else { vec![v] };
            let ua = if bits == 0 { vec![] } else { vec![s & (m - 1)] };
            f(&Case::new().l(lv).l(ua).n(s))?;
        }
    }
    Ok(())
}

// ---- oracle (BigUint over exactly `bits` bits)

fn o_shl(v: &BigUint, s: u64, bits: usize) -> (BigUint, bool) {
    if s >= bits as u64 {
        return (BigUint::zero(), !v.is_zero());
    }
    let full = v << (s as usize);
    let of = full >= pow2(bits);
    (full % pow2(bits), of)
}

fn o_shr(v: &BigUint, s: u64, bits: usize) -> (BigUint, bool) {
    if s >= bits as u64 {
        return (BigUint::zero(), !v.is_zero());
    }
    let r = v >> (s as usize);
    let lost = v != &(&r << (s as usize));
    (r, lost)
}

fn o_ashr(v: &BigUint, s: u64, bits: usize) -> BigUint {
    if bits == 0 {
        return BigUint::zero();
    }
    let sign = v.bit(bits as u64 - 1);
    let (r, _) = o_shr(v, s, bits);
    if !sign {
        return r;
    }
    let k = s.min(bits as u64) as usize; // number of replicated sign bits
    let fill = (pow2(k) - 1u32) << (bits - k);
    r | fill
}

fn o_rotl(v: &BigUint, s: u64, bits: usize) -> BigUint {
    if bits == 0 {
        return BigUint::zero();
    }
    let r = (s % bits as u64) as usize;
    ((v << r) | (v >> (bits - r))) % pow2(bits)
}

/// how the bits that leave a left shift get lost, relative to the limb layout
fn shl_loss_class(limbs: &[u64], s: u64, bits: usize) -> &'static str {
    let n = limbs.len();
    let (ls, bs) = ((s / 64) as usize, (s % 64) as u32);
    if ls >= n {
        return "all_limbs_dropped";
    }
    let carry = bs > 0 && (limbs[n - ls - 1] >> (64 - bs)) != 0;
    if carry {
        return "lost_in_bit_carry";
    }
    if limbs[n - ls..].iter().any(|x| *x != 0) {
        return "lost_in_dropped_limbs";
    }
    let _ = bits;
    "lost_in_mask"
}

fn shr_loss_class(limbs: &[u64], s: u64) -> &'static str {
    let n = limbs.len();
    let (ls, bs) = ((s / 64) as usize, (s % 64) as u32);
    if ls >= n {
        return "all_limbs_dropped";
    }
    let carry = bs > 0 && (limbs[ls] << (64 - bs)) != 0;
    if carry {
        return "lost_in_bit_carry";
    }
    "lost_in_dropped_limbs"
}

macro_rules! typed_ops {
    ($rec:expr, $v:expr, $s:expr, $vb:expr, $bits:expr; $($t:ty),*) => {
        $(
            {
                let st: $t = if $s > <$t>::MAX as u64 { <$t>::MAX } else { $s as $t };
                let (el, _) = o_shl(&$vb, st as u64, $bits);
                let (er, _) = o_shr(&$vb, st as u64, $bits);
                let el = mkb(&el);
                let er = mkb(&er);
                chk!($rec, concat!("shl_", stringify!($t)), $v << st, el);
                chk!($rec, concat!("shr_", stringify!($t)), $v >> st, er);
                chk!($rec, concat!("shl_ref_", stringify!($t)), $v << &st, el);
                chk!($rec, concat!("shr_ref_", stringify!($t)), $v >> &st, er);
                chk!($rec, concat!("shl_assign_", stringify!($t)), { let mut x = $v; x <<= st; x }, el);
                chk!($rec, concat!("shr_assign_", stringify!($t)), { let mut x = $v; x >>= st; x }, er);
                chk!($rec, concat!("shl_assign_ref_", stringify!($t)), { let mut x = $v; x <<= &st; x }, el);
                chk!($rec, concat!("shr_assign_ref_", stringify!($t)), { let mut x = $v; x >>= &st; x }, er);
            }
        )*
    };
}

// ---- optional overloads: amount types the pinned tree does not implement (u128, i128). If a
// tree implements them (all eight operator shapes), they must shift exactly like every other
// amount type; if not, `all` resolves to the fallback and returns None. Autoref dispatch: the
// `HasShift` impl on `OptShift<T>` is preferred over the `NoShift` impl on `&OptShift<T>` and
// only applies when its bounds hold.
struct OptShift<T>(T);

/// One optional group of operator shapes for one amount type: `$has` applies when the bounds
/// hold (the tree implements the shapes), otherwise method probing falls through to `$no` on the
/// extra reference. The traits carry no parameter for the amount type: with one, probing could
/// not evaluate the bounds and would not fall through.
macro_rules! optional_group {
    ($has:ident, $no:ident, $m:ident, $a:ty, [$($bound:tt)*], |$v:ident, $x:ident| $body:expr) => {
        trait $has<T> {
            fn $m(&self, a: $a) -> Option<[T; 2]>;
        }
        impl<T: Copy + $($bound)*> $has<T> for OptShift<T> {
            fn $m(&self, $x: $a) -> Option<[T; 2]> {
                let $v = self.0;
                Some($body)
            }
        }
        trait $no<T> {
            fn $m(&self, _a: $a) -> Option<[T; 2]> {
                None
            }
        }
        impl<T> $no<T> for &OptShift<T> {}
    };
}

use core::ops::{Shl, ShlAssign, Shr, ShrAssign};
optional_group!(HasValU, NoValU, val_u, u128, [Shl<u128, Output = T> + Shr<u128, Output = T>], |v, a| [v << a, v >> a]);
optional_group!(HasValI, NoValI, val_i, i128, [Shl<i128, Output = T> + Shr<i128, Output = T>], |v, a| [v << a, v >> a]);
optional_group!(HasRefU, NoRefU, ref_u, u128, [for<'a> Shl<&'a u128, Output = T> + for<'a> Shr<&'a u128, Output = T>], |v, a| [v << &a, v >> &a]);
optional_group!(HasRefI, NoRefI, ref_i, i128, [for<'a> Shl<&'a i128, Output = T> + for<'a> Shr<&'a i128, Output = T>], |v, a| [v << &a, v >> &a]);
optional_group!(HasAsgU, NoAsgU, asg_u, u128, [ShlAssign<u128> + ShrAssign<u128>], |v, a| [{ let mut x = v; x <<= a; x }, { let mut x = v; x >>= a; x }]);
optional_group!(HasAsgI, NoAsgI, asg_i, i128, [ShlAssign<i128> + ShrAssign<i128>], |v, a| [{ let mut x = v; x <<= a; x }, { let mut x = v; x >>= a; x }]);

/// Autoref dispatch only works on concrete types: the probe is instantiated for a fixed set of
/// widths. `None` = width not in the set; otherwise per group (value, ref, assign) `None` = the
/// tree has no such overload, `Some([shl, shr])` its results.
fn opt_probe(bits: usize, v: &[u64], a: u128, signed: bool) -> Option<[Option<[Vec<u64>; 2]>; 3]> {
    macro_rules! at {
        ($($b:literal),*) => {
            match bits {
                $( $b => {
                    let x: Uint<$b, { ruint::nlimbs($b) }> = mk(v);
                    let p = OptShift(x);
                    let r = if signed { [(&p).val_i(a as i128), (&p).ref_i(a as i128), (&p).asg_i(a as i128)] } else { [(&p).val_u(a), (&p).ref_u(a), (&p).asg_u(a)] };
                    Some(r.map(|g| g.map(|g| g.map(|y| y.as_limbs().to_vec()))))
                } )*
                _ => None,
            }
        };
    }
    at!(1, 8, 63, 64, 65, 127, 128, 129, 192, 256, 320)
}

const OPT_SHAPES: [&str; 6] = ["shl", "shr", "shl_ref", "shr_ref", "shl_assign", "shr_assign"];

fn body<const B: usize, const L: usize>(c: &Case, rec: &mut Rec) -> R {
    type U<const B: usize, const L: usize> = Uint<B, L>;
    let v: U<B, L> = mk(&c.l[0]);
    let ua: U<B, L> = mk(&c.l[1]);
    let s = c.n[0];
    let su = s as usize;
    let vb = num(&v);
    let max: U<B, L> = mkb(&(pow2(B) - 1u32));

    let (shl_e, shl_of) = o_shl(&vb, s, B);
    let (shr_e, shr_of) = o_shr(&vb, s, B);
    let shl_v: U<B, L> = mkb(&shl_e);
    let shr_v: U<B, L> = mkb(&shr_e);

    rec.class_if(s >= B as u64, "amount>=BITS");
    rec.class_if(s >= 64 * L as u64, "amount>=64*LIMBS");
    rec.class_if(s % 64 == 0 && s > 0, "whole_limb_shift");
    rec.class_if(s > u32::MAX as u64, "amount>u32");
    let shl_class = if shl_of { shl_loss_class(v.as_limbs(), s, B) } else { "" };
    let shr_class = if shr_of { shr_loss_class(v.as_limbs(), s) } else { "" };
    if shl_of {
        rec.class(match shl_class { "lost_in_bit_carry" => "shl:lost_in_bit_carry", "lost_in_dropped_limbs" => "shl:lost_in_dropped_limbs", "lost_in_mask" => "shl:lost_in_mask", _ => "shl:all_limbs_dropped" });
    }
    if shr_of {
        rec.class(match shr_class { "lost_in_bit_carry" => "shr:lost_in_bit_carry", "lost_in_dropped_limbs" => "shr:lost_in_dropped_limbs", _ => "shr:all_limbs_dropped" });
    }
    if !vb.is_zero() && s > 0 && (shl_of || shr_of || s >= 64) {
        rec.nontrivial(&(&c.l[0], s));
    }
    rec.sample(|| json!({"value": hex(&vb), "amount": s, "shl": hex(&shl_e), "shl_overflow": shl_of, "shr": hex(&shr_e), "shr_overflow": shr_of}));

    // ---- methods (usize amount)
    let r = rec.no_panic("overflowing_shl", catch(|| v.overflowing_shl(su)))?;
    rec.eqc("overflowing_shl", "value_wrong", &r.0, &shl_v)?;
    rec.eval(1);
    if r.1 != shl_of {
        let class = if shl_of { format!("flag_false_expected_true:{shl_class}") } else { "flag_true_expected_false".to_string() };
        rec.fail("overflowing_shl", &class, format!("value {} amount {s}: flag {} expected {}", hex(&vb), r.1, shl_of))?;
    }
    chk!(rec, "wrapping_shl", v.wrapping_shl(su), shl_v);
    {
        let r = rec.no_panic("checked_shl", catch(|| v.checked_shl(su)))?;
        let e = if shl_of { None } else { Some(shl_v) };
        rec.eval(1);
        if r != e {
            let class = if shl_of { format!("some_expected_none:{shl_class}") } else { "value_wrong".to_string() };
            rec.fail("checked_shl", &class, format!("value {} amount {s}: got {r:?} expected {e:?}", hex(&vb)))?;
        }
        let r = rec.no_panic("saturating_shl", catch(|| v.saturating_shl(su)))?;
        let e = if shl_of { max } else { shl_v };
        rec.eval(1);
        if r != e {
            let class = if shl_of { format!("not_saturated:{shl_class}") } else { "value_wrong".to_string() };
            rec.fail("saturating_shl", &class, format!("value {} amount {s}: got {r:?} expected {e:?}", hex(&vb)))?;
        }
    }
    let r = rec.no_panic("overflowing_shr", catch(|| v.overflowing_shr(su)))?;
    rec.eqc("overflowing_shr", "value_wrong", &r.0, &shr_v)?;
    rec.eval(1);
    if r.1 != shr_of {
        let class = if shr_of { format!("flag_false_expected_true:{shr_class}") } else { "flag_true_expected_false".to_string() };
        rec.fail("overflowing_shr", &class, format!("value {} amount {s}: flag {} expected {}", hex(&vb), r.1, shr_of))?;
    }
    chk!(rec, "wrapping_shr", v.wrapping_shr(su), shr_v);
    {
        let r = rec.no_panic("checked_shr", catch(|| v.checked_shr(su)))?;
        let e = if shr_of { None } else { Some(shr_v) };
        rec.eval(1);
        if r != e {
            let class = if shr_of { format!("some_expected_none:{shr_class}") } else { "value_wrong".to_string() };
            rec.fail("checked_shr", &class, format!("value {} amount {s}: got {r:?} expected {e:?}", hex(&vb)))?;
        }
    }
    let ashr: U<B, L> = mkb(&o_ashr(&vb, s, B));
    chk!(rec, "arithmetic_shr", v.arithmetic_shr(su), ashr);
    let rl: U<B, L> = mkb(&o_rotl(&vb, s, B));
    chk!(rec, "rotate_left", v.rotate_left(su), rl);
    // rotate right by s == rotate left by BITS - (s mod BITS)
    let rr: U<B, L> = if B == 0 { mkb(&BigUint::zero()) } else { mkb(&o_rotl(&vb, (B as u64) - (s % B as u64), B)) };
    chk!(rec, "rotate_right", v.rotate_right(su), rr);

    // ---- integer-typed operators (non-negative amounts, clamped to the type's range)
    typed_ops!(rec, v, s, vb, B; usize, u8, u16, u32, u64, isize, i8, i16, i32, i64);

    // ---- Uint-typed amounts of any magnitude
    let ab = num(&ua);
    let big_amount = ab.to_u64().unwrap_or(u64::MAX); // >= 2^64 certainly >= BITS
    let amount_ge_2_64 = ab.bits() > 64;
    rec.class_if(amount_ge_2_64, "uint_amount>=2^64");
    rec.class_if(!amount_ge_2_64 && big_amount >= B as u64, "uint_amount_in[BITS,2^64)");
    let (el, _) = o_shl(&vb, big_amount, B);
    let (er, _) = o_shr(&vb, big_amount, B);
    let (el, er): (U<B, L>, U<B, L>) = (mkb(&el), mkb(&er));
    let cls = if amount_ge_2_64 { "value_wrong:amount_high_limbs_ignored" } else { "value_wrong" };
    macro_rules! uchk {
        ($name:expr, $call:expr, $exp:expr) => {{
            let r = rec.no_panic($name, catch(|| $call))?;
            rec.eqc($name, cls, &r, &$exp)?;
        }};
    }
    // ---- optional 128-bit amount types: the low 128 bits of the Uint-typed amount (so amounts
    // >= 2^64 with a small low half occur)
    {
        let a128: u128 = ua.as_limbs().iter().take(2).enumerate().fold(0u128, |acc, (i, l)| acc | (*l as u128) << (64 * i));
        let a128 = if L < 2 { s as u128 } else { a128 };
        for signed in [false, true] {
            let a = if signed { a128 & (i128::MAX as u128) } else { a128 };
            let clamp = a.min(u64::MAX as u128) as u64;
            let (xl, _) = o_shl(&vb, clamp, B);
            let (xr, _) = o_shr(&vb, clamp, B);
            let (xl, xr): (U<B, L>, U<B, L>) = (mkb(&xl), mkb(&xr));
            let got = catch(|| opt_probe(B, &c.l[0], a, signed));
            match got {
                Ok(None) => {}
                Ok(Some(groups)) => {
                    for (gi, g) in groups.iter().enumerate() {
                        let Some(g) = g else {
                            rec.class("optional_overload_absent:128-bit amount");
                            continue;
                        };
                        rec.class("optional_overload_present:128-bit amount");
                        rec.eval(2);
                        for (i, l) in g.iter().enumerate() {
                            let got: U<B, L> = mk(l);
                            let e = if i == 0 { &xl } else { &xr };
                            let name = format!("{}_{}", OPT_SHAPES[2 * gi + i], if signed { "i128" } else { "u128" });
                            rec.ensure(&name, if a > u64::MAX as u128 { "value_wrong:amount_high_half_ignored" } else { "value_wrong" }, got == *e, || format!("amount {a}: got {got:?} expected {e:?}"))?;
                        }
                    }
                }
                Err(m) => rec.fail("shift_by_128_bit_amount", "panic", format!("amount {a}: {m}"))?,
            }
        }
    }
    // method syntax on a borrowed left operand: resolves to the by-value impls through auto-deref
    // on the pinned tree, and to an `impl Shl<..> for &Uint` if a tree has one
    {
        use core::ops::{Shl, Shr};
        uchk!("shl_uint(&self method)", (&v).shl(ua), el);
        uchk!("shl_uint_ref(&self method)", (&v).shl(&ua), el);
        uchk!("shr_uint(&self method)", (&v).shr(ua), er);
        uchk!("shr_uint_ref(&self method)", (&v).shr(&ua), er);
        // (integer-typed amounts are not called this way: once a tree implements any
        // `Shl<_> for &Uint`, `(&v).shl(usize)` no longer auto-derefs and would not compile)
    }
    uchk!("shl_uint", v << ua, el);
    uchk!("shr_uint", v >> ua, er);
    uchk!("shl_uint_ref", v << &ua, el);
    uchk!("shr_uint_ref", v >> &ua, er);
    uchk!("shl_assign_uint", { let mut x = v; x <<= ua; x }, el);
    uchk!("shr_assign_uint", { let mut x = v; x >>= ua; x }, er);
    uchk!("shl_assign_uint_ref", { let mut x = v; x <<= &ua; x }, el);
    uchk!("shr_assign_uint_ref", { let mut x = v; x >>= &ua; x }, er);
    Ok(())
}

fn main() {
    let spec = PropSpec {
        id: "C05",
        rule_text: "cases (value, amount s, Uint-typed amount) per width: values from the boundary alphabet plus two-set-bit values; s biased to 0,1,63,64,65,64k,64k+-1,BITS-1,BITS,BITS+1,64*LIMBS(+1),2^32,2^63,usize::MAX, huge amounts that wrap to something small when scaled, incremented or narrowed (k*2^61+j, k*2^58+j, 2^e+j, usize::MAX-j) and uniform in [0,BITS+64*LIMBS+1]; typed operator amounts are s clamped to the type's non-negative range; u128 / i128 amounts (not implemented on the pinned tree, probed by autoref dispatch: if a tree implements them they are checked like the others, with amounts >= 2^64 whose low half is small); shifts through method syntax on a borrowed left operand (&v).shl(..) / (&v).shr(..) with Uint amounts (auto-deref on the pinned tree, an impl for &Uint if a tree has one); Uint-typed amounts embed s, or have high limbs set (>= 2^64), or lie in [BITS,2^64); exhaustive enumeration of all values x s in 0..=BITS+66 (+6 large amounts) for BITS <= 8. Oracle: BigUint v*2^s mod 2^BITS with overflow iff v*2^s >= 2^BITS; floor(v/2^s) with overflow iff v mod 2^s != 0; sign-fill for arithmetic_shr; cyclic permutation for rotations. Non-trivial: v != 0, s > 0 and (a set bit leaves the word or s >= 64); flag-true cases are classified by how the bit left (dropped whole limb / top-limb mask / bit carry). Distinct by (width,value,s).",
        assumptions: vec![
            "num-bigint shifts are correct (oracle)",
            "signed shift operators are only exercised with non-negative amounts (the property's stated domain)",
            "x86-64: usize = u64",
        ],
        thorough_mult: 40,
    };
    main_with(
        spec,
        |jobs, _| {
            reg_enum!(jobs, "shift_all", enum_all, body; [0, 1, 2, 3, 4, 5, 6, 7, 8]);
            w_all_wide!(reg_gen!(jobs, "shift", 10000, strat, body;));
            w_giant!(reg_gen!(jobs, "shift", 600, strat, body;));
            w_dense!(reg_gen!(jobs, "shift", 1000, strat, body;));
        },
        |_| Map::new(),
    );
}
