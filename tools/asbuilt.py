#!/usr/bin/env python3
"""Prints the as-built table (DESIGN section 13) from the evidence files of the last quick runs."""
import json, glob
print("| check | tier | cases | oracle comparisons | distinct non-trivial | exhaustive sub-spaces | rules | wall s |")
print("|---|---|---|---|---|---|---|---|")
for f in sorted(glob.glob((__import__('sys').argv[1] if len(__import__('sys').argv) > 1 else '/verif/evidence') + '/C*.json')):
    e = json.load(open(f)); c = e['coverage']
    rules = ', '.join(sorted(c.get('per_rule', {}).keys())) or ('literal programs, pass-through programs' if e['property_id']=='C19' else '')
    if len(rules) > 110: rules = rules[:107] + '...'
    print("| %s | %s | %s | %s | %s | %s | %s | %.1f |" % (e['property_id'], e['tier'], c.get('cases', c.get('literals', '')), c['evaluations'], c['distinct_nontrivial'], len(c.get('exhaustive_subspaces', [])), rules, e['wall_s']))
