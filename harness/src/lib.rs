//! vcore: shared machinery of the recmo/uint property checks (see /verif/DESIGN.md).

pub mod big;
pub mod engine;
pub mod gen;
pub mod optional;
pub mod probe;
pub mod recip;

pub use engine::*;
pub use num_bigint::{BigInt, BigUint};
pub use num_traits::{One, ToPrimitive, Zero};
pub use proptest;
pub use serde_json::{self, json, Map, Value};

/// Register a generated rule for a list of widths:
/// `reg_gen!(jobs, "rule", cases, strat_fn, body_fn; [0, 1, 64])` where
/// `strat_fn: fn(usize) -> BoxedStrategy<Case>` and
/// `body_fn<const B: usize, const L: usize>(&Case, &mut Rec) -> R`.
#[macro_export]
macro_rules! reg_gen {
    ($jobs:expr, $rule:expr, $cases:expr, $strat:expr, $body:ident; [$($b:literal),* $(,)?]) => {
        $(
            {
                let st = $strat;
                $jobs.gen($rule, $b, $cases, move || st($b), $body::<$b, { ruint::nlimbs($b) }>);
            }
        )*
    };
}

/// Register an exhaustive rule for a list of (small) widths:
/// `reg_enum!(jobs, "rule", enum_fn, body_fn; [1, 2, 3])` where
/// `enum_fn: fn(usize, &mut dyn FnMut(&Case) -> R) -> R`.
#[macro_export]
macro_rules! reg_enum {
    ($jobs:expr, $rule:expr, $en:expr, $body:ident; [$($b:literal),* $(,)?]) => {
        $(
            {
                let en = $en;
                $jobs.enumerate($rule, $b, move |f| en($b, f), $body::<$b, { ruint::nlimbs($b) }>);
            }
        )*
    };
}

/// The standard width grid (DESIGN 3.2). Usage: `w_all!(reg_gen!(jobs, "r", 100, s, b;))`
#[macro_export]
macro_rules! w_all {
    ($m:ident ! ( $($pre:tt)* )) => {
        $m!($($pre)* [0, 1, 2, 3, 7, 8, 16, 31, 32, 40, 60, 63, 64, 65, 96, 100, 127, 128, 129, 160, 190, 192, 200, 250, 255, 256, 257, 320, 384, 512, 535])
    };
}

/// Standard grid plus two very wide types (cheap properties only).
#[macro_export]
macro_rules! w_all_wide {
    ($m:ident ! ( $($pre:tt)* )) => {
        $m!($($pre)* [0, 1, 2, 3, 7, 8, 16, 31, 32, 40, 60, 63, 64, 65, 96, 100, 127, 128, 129, 160, 190, 192, 200, 250, 255, 256, 257, 320, 384, 512, 535, 1024, 2112, 4096])
    };
}

/// Widths just above the natural capacity limits of word-sized bookkeeping: 65 limbs (a u64 bitmap
/// of limbs is full at 64), 129 limbs (u128 bitmap), 257 limbs (u8 limb index), 1025 limbs = 65600
/// bits (u16 bit index / exponent). Few cases each; added after seeded round 10.
#[macro_export]
macro_rules! w_giant {
    ($m:ident ! ( $($pre:tt)* )) => {
        $m!($($pre)* [4160, 8256, 16448, 65600])
    };
}

/// Dense small widths (cheap properties only, few cases each): every width from 9 to 72 - every
/// residue mod 64 on both sides of the one-limb / two-limb boundary - and every whole-byte width up
/// to 320 that the standard grid lacks (24, 48, 56, 72, 80, ... 312: whole bytes but not whole limbs).
#[macro_export]
macro_rules! w_dense {
    ($m:ident ! ( $($pre:tt)* )) => {
        $m!($($pre)* [9, 10, 11, 12, 13, 14, 15, 17, 18, 19, 20, 21, 22, 23, 24, 25, 26, 27, 28, 29, 30, 33, 34, 35, 36, 37, 38, 39, 41, 42, 43, 44, 45, 46, 47, 48, 49, 50, 51, 52, 53, 54, 55, 56, 57, 58, 59, 61, 62, 66, 67, 68, 69, 70, 71, 72, 80, 88, 104, 112, 120, 136, 144, 152, 168, 176, 184, 208, 216, 224, 232, 240, 248, 264, 272, 280, 288, 296, 304, 312])
    };
}

/// A reduced grid for expensive-to-compile or expensive-to-run rules.
#[macro_export]
macro_rules! w_mid {
    ($m:ident ! ( $($pre:tt)* )) => {
        $m!($($pre)* [0, 1, 2, 3, 7, 8, 63, 64, 65, 127, 128, 129, 192, 255, 256, 257, 320, 512])
    };
}

/// Small widths for exhaustive enumeration.
#[macro_export]
macro_rules! w_small {
    ($m:ident ! ( $($pre:tt)* )) => {
        $m!($($pre)* [0, 1, 2, 3, 4, 5, 6, 7, 8])
    };
}

/// `chk!(rec, "name", expr, expected)`: evaluate `expr` (a library call) under
/// `catch`, forbid a panic, compare with the expected value.
#[macro_export]
macro_rules! chk {
    ($rec:expr, $name:expr, $call:expr, $exp:expr) => {{
        let __r = $rec.no_panic($name, $crate::catch(|| $call))?;
        $rec.eq($name, &__r, &$exp)?;
    }};
}
