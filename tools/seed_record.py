#!/usr/bin/env python3
"""seed_record.py <seed-dir-name> <checks_run> CHECK=verdict ... — records what was run here in meta.json"""
import json, sys
d, run = sys.argv[1], sys.argv[2]
p = '/verif/seeded/%s/meta.json' % d
m = json.load(open(p))
how = ("tools/seed_verify.sh in the author's scratch worktree: `cargo test --workspace --offline` with the change: "
       "106+3+2 unit tests and 33+10 doctests pass; the demonstration fails with the change and passes with the patch reversed (git apply -R)")
m['confirmed_here'] = {'how': how, 'checks_run': run, 'results': dict(a.split('=', 1) for a in sys.argv[3:])}
json.dump(m, open(p, 'w'), indent=1); open(p, 'a').write('\n')
