#!/usr/bin/env python3
"""Regenerates MANIFEST.json from the table below (kept in one place so the
manifest stays valid and in sync with the implemented checks)."""
import json, os
ROOT = os.path.dirname(os.path.abspath(__file__))

# id -> (technique, level text, level note, design ref, has_thorough)
CHECKS = {
 "C03": ("property-based testing (proptest, boundary-alphabet generators) + exhaustive enumeration for BITS<=8, num-bigint differential oracle",
         "Exploration: every division entry point compared with exact BigUint quotient/remainder on generated (n,d) built to reach every dispatch arm, the Knuth add-back and forced-digit paths and all reciprocal corrections (reach measured by hook counters), complete enumeration of all operand pairs for widths <= 8 bits. No absence proof above 8 bits.",
         "Trusts num-bigint, the harness constructor (Uint::from_limbs), x86-64 LE; fixed width grid.", "DESIGN.md 4 C03"),
}
CHECKS.update({
 "C01": ("property-based testing (proptest, boundary-alphabet generators) + exhaustive enumeration for BITS<=8, num-bigint differential oracle",
         "Exploration: every add/sub/neg/abs_diff/Sum entry point compared with exact BigUint arithmetic mod 2^BITS and the exact overflow predicates, on generated pairs built to land within +-2 of the modulus and of zero and to ripple carries across limbs; complete enumeration of all pairs for widths <= 8 bits.",
         "Trusts num-bigint, Uint::from_limbs, x86-64 LE; fixed width grid (30 widths incl. 0, 1, non-aligned, 1024, 4096).", "DESIGN.md 4 C01"),
 "C02": ("property-based testing (proptest, zero-limb-shape and boundary-product generators) + exhaustive enumeration for BITS<=8, num-bigint differential oracle, validity predicate for inv_ring",
         "Exploration: wrapping/overflowing/checked/saturating mul, operators, Product and widening_mul (24 width pairs) compared with exact BigUint products; operands built with zero low/high/middle limbs to reach every trimming path of addmul and products within +-1 of 2^BITS; inv_ring checked by the defining identity; complete enumeration for widths <= 8 bits.",
         "Trusts num-bigint, Uint::from_limbs, x86-64 LE; fixed width grid and pair grid.", "DESIGN.md 4 C02"),
 "C14": ("property-based testing (proptest, slice-level generators per kernel domain) + fixed enumeration of all 256 reciprocal table rows, num-bigint/u128 differential oracle, branch-coverage hook counters",
         "Exploration: algorithms::div and every specialised kernel (n-by-1, n-by-2, n-by-m normalised and un-normalised, 2-by-1, 3-by-2, reciprocals) on their documented domains against exact quotient/remainder and the closed-form reciprocal; reach of every correction branch is measured by hook counters and reported in the evidence.",
         "Trusts num-bigint/u128 division; div_nxm_normalized only on the shape used by the repo's own tests; div_3x2_ref excluded (documented off by one).", "DESIGN.md 4 C14"),
})
CHECKS.update({
 "C05": ("property-based testing (proptest; amounts biased to limb/BITS boundaries, Uint-typed amounts incl. >= 2^64) + exhaustive enumeration for BITS<=8, num-bigint oracle",
         "Exploration: all shift/rotate methods, the <<, >>, <<=, >>= overloads for 10 integer types (value and reference amounts) and for Uint amounts compared with exact BigUint shifts and the documented lost-bit overflow predicate; flag-true cases classified by how the bit left the word (dropped limb / mask / bit carry); complete enumeration of value x amount for widths <= 8 bits.",
         "Trusts num-bigint; signed operator amounts non-negative only; x86-64 (usize = u64).", "DESIGN.md 4 C05"),
 "C06": ("property-based testing (proptest) + exhaustive enumeration for BITS<=8 (all pairs, all value x index), bit-level num-bigint oracle",
         "Exploration: logic operators, bit/set_bit/byte/checked_byte with in- and out-of-range indices, all counting functions, reverse_bits, power-of-two helpers and most_significant_bits compared with definitions over exactly BITS bits; complete enumeration for widths <= 8 bits.",
         "Trusts num-bigint; little-endian byte() arm only.", "DESIGN.md 4 C06"),
 "C15": ("property-based testing (proptest, slice-shape generators) + full-square enumeration of a 440-word boundary alphabet for the scalar primitives, exact integer identities in num-bigint/u128",
         "Exploration: addmul/addmul_n/mul_nx1/addmul_nx1/submul_nx1/add_nx1/adc_n/sbb_n/shift_*_small/cmp on lengths 0..=10 with zero-limb and all-ones shapes and accumulators shorter/equal/longer than the product, checked by exact identities (result limbs and carry/borrow word); adc/sbb/carrying_add/borrowing_sub on the complete square of the boundary alphabet x both carries.",
         "Trusts num-bigint/u128; carry-in > 1 and unequal nx1 lengths are outside the callers' domain (no-panic only / not exercised).", "DESIGN.md 4 C15"),
})
NOT_YET = {}

def main():
    props = [json.loads(l) for l in open(os.path.join(ROOT, "properties.jsonl"))]
    checks = []
    na = []
    for p in props:
        pid = p["id"]
        if pid in CHECKS:
            tech, text, note, ref = CHECKS[pid]
            checks.append({
                "property_id": pid,
                "quick_cmd": "./check %s --tier quick" % pid,
                "thorough_cmd": "./check %s --tier thorough" % pid,
                "evidence_file": "/verif/evidence/%s.json" % pid,
                "replay_cmd_template": "./check %s --replay {path}" % pid,
                "engine": "vcore",
                "level_claimed": {"category": "exploration", "text": text, "design_ref": ref},
                "level_note": note,
                "technique": tech,
            })
        else:
            na.append({"property_id": pid, "reason": NOT_YET.get(pid, "check not implemented yet in this revision (planned, see DESIGN.md section 4); not a statement that the technique cannot apply")})
    m = {
        "version": 1,
        "setup_cmd": "./check --setup",
        "hooks": {
            "guard": "cfg(recmo_uint_verif)",
            "enable": "RUSTFLAGS --cfg recmo_uint_verif via /verif/harness/.cargo/config.toml (and /verif/fuzz/.cargo/config.toml)",
            "baseline_off_cmd": "cd /repo && cargo test --workspace --no-fail-fast --offline",
            "source_commits": ["47fc03b"],
            "add_only": True,
        },
        "engines": [
            {"name": "vcore", "path": "/verif/harness", "serves_properties": sorted(CHECKS.keys()),
             "kind_free_text": "Rust crate: proptest-driven structured generation (TestRunner with fixed seeds, shrinking, replay files), exhaustive small-width enumeration, BigUint / reference-codec oracles, evidence writer"},
        ],
        "checks": checks,
        "not_applicable": na,
        "notes": "All checks are property-based testing / fuzzing (see DESIGN.md). Exit 0 = held on everything explored, 1 = VIOLATION line printed, 2 = inconclusive (build failure, watchdog) - never a violation. known_findings.json lists repaired (fixed:) and open (known) genuine defects.",
    }
    json.dump(m, open(os.path.join(ROOT, "MANIFEST.json"), "w"), indent=1)
    print("checks:", len(checks), "not_applicable:", len(na))

if __name__ == "__main__":
    main()
