#!/bin/bash
# Creates a private workspace for developing one check without touching /repo or /verif/target:
#   /tmp/w_<id>/repo     scratch copy of /repo's current HEAD (git worktree; apply mutants here)
#   /tmp/w_<id>/harness  copy of /verif/harness pointing at that repo, target dir /tmp/w_<id>/target
#   /tmp/w_<id>/root     private VERIF_ROOT (evidence/, replays/, known_findings.json)
set -e
id="$1"; [ -n "$id" ] || { echo "usage: agent_ws.sh <id>"; exit 2; }
W=/tmp/w_$id
rm -rf "$W/harness"
mkdir -p "$W/root"
if [ ! -d "$W/repo" ]; then git -C /repo worktree add --detach "$W/repo" HEAD >/dev/null; fi
cp -r /verif/harness "$W/harness"
sed -i "s#path = \"/repo\"#path = \"$W/repo\"#" "$W/harness/Cargo.toml"
sed -i "s#target-dir = \"/verif/target\"#target-dir = \"$W/target\"#" "$W/harness/.cargo/config.toml"
[ -f "$W/root/known_findings.json" ] || cp /verif/known_findings.json "$W/root/known_findings.json"
echo "workspace ready: $W"
echo "build: cd $W/harness && cargo build --release --bin <bin>"
echo "run:   VERIF_ROOT=$W/root $W/target/release/<bin> --tier quick"
