//! Generator support for the 3-by-2 reciprocal (MG10 algorithm 6): solves for the low limbs d0
//! at which, for a given high limb d1, the algorithm's final comparison is decided by its low
//! words (the running value p equals d1 after the carry). Random and boundary-biased divisors
//! meet that tie with probability about 2^-64 per draw; the solver finds it by bisection on the
//! monotone un-wrapped form of p. This is a model of *where* the decision boundary lies, used
//! only to generate inputs; the oracle stays the closed form floor((2^192-1)/d) - 2^64.

/// floor((2^128 - 1) / d1) - 2^64 for a normalised d1
pub fn recip1(d1: u64) -> u64 {
    debug_assert!(d1 >> 63 == 1);
    ((u128::MAX / d1 as u128) - (1u128 << 64)) as u64
}

/// The algorithm's final state for d = d1:d0: (p, t0, carry branch taken, total decrement k of step 1)
pub fn model(d1: u64, d0: u64) -> (u64, u64, bool, u64) {
    let mut v = recip1(d1);
    let mut p = d1.wrapping_mul(v).wrapping_add(d0);
    let mut k = 0;
    if p < d0 {
        v = v.wrapping_sub(1);
        k = 1;
        if p >= d1 {
            v = v.wrapping_sub(1);
            p = p.wrapping_sub(d1);
            k = 2;
        }
        p = p.wrapping_sub(d1);
    }
    let t = v as u128 * d0 as u128;
    let (t1, t0) = ((t >> 64) as u64, t as u64);
    let p2 = p.wrapping_add(t1);
    (p2, t0, p2 < t1, k)
}

/// All d0 for which the final p equals d1 with the carry branch taken (the tie of the last
/// correction step), for the given normalised d1. Usually zero, one or two values.
pub fn ties(d1: u64) -> Vec<u64> {
    let v1 = recip1(d1) as i128;
    let s = d1.wrapping_mul(v1 as u64) as i128;
    let mut out = vec![];
    for k in 0..3i128 {
        // U_k(d0) = s + d0 - k*d1 + floor((v1 - k) * d0 / 2^64), non-decreasing in d0
        let vk = v1 - k;
        if vk < 0 {
            continue;
        }
        let u = |d0: u64| -> i128 { s + d0 as i128 - k * d1 as i128 + ((vk as u128 * d0 as u128) >> 64) as i128 };
        for j in -1..=3i128 {
            let target = d1 as i128 + j * (1i128 << 64);
            if u(0) > target || u(u64::MAX) < target {
                continue;
            }
            // smallest d0 with u(d0) >= target
            let (mut lo, mut hi) = (0u64, u64::MAX);
            while lo < hi {
                let mid = lo + (hi - lo) / 2;
                if u(mid) >= target {
                    hi = mid;
                } else {
                    lo = mid + 1;
                }
            }
            for d0 in [lo.wrapping_sub(1), lo, lo.wrapping_add(1)] {
                let (p, _, carry, kk) = model(d1, d0);
                if p == d1 && carry && kk as i128 == k && !out.contains(&d0) {
                    out.push(d0);
                }
            }
        }
    }
    out
}

/// First tie (d1', d0) found for d1' in d1, d1+1, ... (at most `tries` high limbs); `pick`
/// selects among several ties of one high limb.
pub fn find_tie(d1: u64, tries: u64, pick: usize) -> Option<(u64, u64)> {
    let d1 = d1 | 1 << 63;
    for i in 0..tries {
        let c = d1.checked_add(i)?;
        let t = ties(c);
        if !t.is_empty() {
            return Some((c, t[pick % t.len()]));
        }
    }
    None
}

/// A divisor of `dl` >= 2 limbs with `lz` leading zero bits whose normalised leading 128 bits are
/// a tie (d1', d0 + delta); the limbs below come from `low`. For dl == 2 the divisor is normalised
/// (lz is ignored) because shifting would lose low bits of d0.
pub fn tie_divisor(d1: u64, pick: usize, delta: i64, dl: usize, lz: u32, low: &[u64]) -> Option<Vec<u64>> {
    let (t1, t0) = find_tie(d1, 24, pick)?;
    let t0 = t0.wrapping_add(delta as u64);
    let mut v: Vec<u64> = low.iter().copied().chain(std::iter::repeat(0)).take(dl - 2).collect();
    v.push(t0);
    v.push(t1);
    if dl >= 3 && lz > 0 {
        // shift the whole number right by lz bits (low bits fall off; the top 128 bits survive
        // normalisation because at least one more limb sits below them)
        let mut carry = 0u64;
        for x in v.iter_mut().rev() {
            let nx = (*x >> lz) | carry;
            carry = *x << (64 - lz);
            *x = nx;
        }
    }
    Some(v)
}

/// Numerator of at most `nl` limbs that is a power of two placed so that, after the division's
/// normalising shift by `lz`, its leading bit is the top bit of a limb (the 3-limb window
/// 2^63:0:0), optionally minus one or with low bits set far below the leading bit.
pub fn pow2_numerator(nl: usize, lz: u32, m: usize, variant: u8, low: &[u64]) -> Vec<u64> {
    if nl == 0 {
        return vec![];
    }
    let limb = m % nl;
    let bit = (64 * limb + 63).saturating_sub(lz as usize).min(64 * nl - 1);
    let mut v = vec![0u64; nl];
    v[bit / 64] = 1 << (bit % 64);
    match variant % 4 {
        1 => {
            // 2^bit - 1
            v[bit / 64] -= 1;
            for x in v[..bit / 64].iter_mut() {
                *x = u64::MAX;
            }
        }
        2 => {
            for (i, x) in v.iter_mut().enumerate() {
                if 64 * (i + 1) + 130 < bit {
                    *x = low.get(i).copied().unwrap_or(0);
                }
            }
        }
        3 => v[0] |= 1,
        _ => {}
    }
    v
}
