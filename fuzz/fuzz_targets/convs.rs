//! E4 target `convs`: coverage-guided differential fuzzing of the integer conversions (C07) and
//! the floating-point conversions (C18) against exact integer arithmetic (num-bigint, decoded
//! IEEE-754 bit patterns). Input layout: byte 0 selects the width, byte 1 the operation group,
//! the rest is the raw operand (a primitive's bytes, a float's bit pattern, or a BYTES-long
//! little-endian value). `VERIF_FUZZ_PROP=C07|C18` restricts byte 1 to that property's groups.
//! Only what the properties state is compared (no error payloads of float conversions, no
//! `wrapping_from` of out-of-range floats, no `ValueNegative` payload wider than the source).
#![no_main]
use libfuzzer_sys::fuzz_target;
use num_bigint::{BigInt, BigUint};
use num_traits::{One, Signed, Zero};
use ruint::{FromUintError, ToUintError, Uint};
use std::sync::OnceLock;

fn num<const B: usize, const L: usize>(x: &Uint<B, L>) -> BigUint {
    let mut bytes = Vec::with_capacity(L * 8);
    for l in x.as_limbs() {
        bytes.extend_from_slice(&l.to_le_bytes());
    }
    BigUint::from_bytes_le(&bytes)
}

fn operand<const B: usize, const L: usize>(data: &[u8]) -> Uint<B, L> {
    let bytes = (B + 7) / 8;
    let mut limbs = [0u64; L];
    for i in 0..bytes {
        if let Some(x) = data.get(i) {
            limbs[i / 8] |= (*x as u64) << (8 * (i % 8));
        }
    }
    if L > 0 {
        limbs[L - 1] &= ruint::mask(B);
    }
    Uint::from_limbs(limbs)
}

fn raw<const N: usize>(data: &[u8]) -> [u8; N] {
    let mut b = [0u8; N];
    for (i, x) in b.iter_mut().enumerate() {
        *x = data.get(i).copied().unwrap_or(0);
    }
    b
}

fn prop() -> &'static str {
    static P: OnceLock<String> = OnceLock::new();
    P.get_or_init(|| std::env::var("VERIF_FUZZ_PROP").unwrap_or_default())
}

fn fail(prop: &str, what: &str, width: usize, detail: String) -> ! {
    eprintln!("VERIF-ORACLE property={prop} check={what} width={width} {detail}");
    std::process::abort();
}

fn pow2(k: usize) -> BigUint {
    BigUint::one() << k
}

// ---------------------------------------------------------------- C07: primitive <-> Uint

macro_rules! prim_to_uint {
    ($t:ty, $tbits:expr, $data:expr, $B:ident, $L:ident) => {{
        let x = <$t>::from_le_bytes(raw::<{ $tbits / 8 }>($data));
        let v = BigInt::from(x);
        let m = BigInt::from(pow2($B));
        let wrapped = (((&v % &m) + &m) % &m).to_biguint().unwrap();
        let fits = !v.is_negative() && v < m;
        let r = Uint::<$B, $L>::try_from(x);
        let d = || format!("{}({x}) -> {r:?}", stringify!($t));
        match &r {
            Ok(u) => {
                if !fits || BigInt::from(num(u)) != v {
                    fail("C07", "try_from_accepts", $B, d());
                }
            }
            Err(ToUintError::ValueTooLarge(b, w)) => {
                if fits || v.is_negative() || *b != $B || num(w) != wrapped {
                    fail("C07", "try_from_too_large", $B, d());
                }
            }
            Err(ToUintError::ValueNegative(b, w)) => {
                if !v.is_negative() || *b != $B || ($B <= $tbits && num(w) != wrapped) {
                    fail("C07", "try_from_negative", $B, d());
                }
            }
            Err(ToUintError::NotANumber(_)) => fail("C07", "try_from_nan", $B, d()),
        }
        let s = Uint::<$B, $L>::saturating_from(x);
        let want_s = if v.is_negative() { BigUint::zero() } else if fits { v.to_biguint().unwrap() } else { pow2($B) - BigUint::one() };
        if num(&s) != want_s {
            fail("C07", "saturating_from", $B, format!("{}({x}) -> {s:?}", stringify!($t)));
        }
        if !v.is_negative() || $B <= $tbits {
            let w = Uint::<$B, $L>::wrapping_from(x);
            if num(&w) != wrapped {
                fail("C07", "wrapping_from", $B, format!("{}({x}) -> {w:?}", stringify!($t)));
            }
        }
    }};
}

macro_rules! uint_to_prim {
    ($t:ty, $tbits:expr, $u:expr, $B:ident) => {{
        let v = num(&$u);
        let max = BigUint::from(<$t>::MAX as u128);
        let fits = v <= max;
        // value mod 2^bits(T), read as two's complement of T
        let low = (&v % pow2($tbits)).to_bytes_le();
        let wrapped = <$t>::from_le_bytes(raw::<{ $tbits / 8 }>(&low));
        let r: Result<$t, FromUintError<$t>> = <$t>::try_from($u);
        let r2: Result<$t, FromUintError<$t>> = <$t>::try_from(&$u);
        let d = || format!("{:?} -> {}: {r:?} / by ref {r2:?}", $u, stringify!($t));
        if r != r2 {
            fail("C07", "try_to_ref_differs", $B, d());
        }
        match &r {
            Ok(x) => {
                if !fits || BigUint::from(*x as u128) != v {
                    fail("C07", "try_to_accepts", $B, d());
                }
            }
            Err(FromUintError::Overflow(b, w, m)) => {
                if fits || *b != $B || *w != wrapped || *m != <$t>::MAX {
                    fail("C07", "try_to_overflow", $B, d());
                }
            }
        }
        let w: $t = $u.wrapping_to();
        let s: $t = $u.saturating_to();
        if w != wrapped || s != (if fits { wrapped } else { <$t>::MAX }) {
            fail("C07", "wrapping_or_saturating_to", $B, format!("{:?} -> {} wrapping {w} saturating {s}", $u, stringify!($t)));
        }
    }};
}

#[allow(deprecated)] // the deprecated shim is part of the surface
fn uint_to_uint<const B: usize, const L: usize, const B2: usize, const L2: usize>(u: Uint<B, L>) {
    let v = num(&u);
    let m = pow2(B2);
    let fits = v < m;
    let w = Uint::<B2, L2>::wrapping_from(u);
    let s = Uint::<B2, L2>::saturating_from(u);
    let c = Uint::<B2, L2>::checked_from_uint(u);
    let t: Result<Uint<B2, L2>, _> = ruint::UintTryFrom::uint_try_from(u);
    let ok = num(&w) == &v % &m
        && num(&s) == (if fits { v.clone() } else { &m - BigUint::one() })
        && c.map(|x| num(&x)) == (if fits { Some(v.clone()) } else { None })
        && t.is_ok() == fits
        && (!fits || t.as_ref().map(num).ok() == Some(v.clone()));
    if !ok {
        fail("C07", "uint_to_uint", B, format!("{u:?} -> Uint<{B2}>: wrapping {w:?} saturating {s:?} checked {c:?} try {t:?}"));
    }
}

// ---------------------------------------------------------------- C18: floats

#[derive(Clone, Copy)]
struct Fmt {
    p: u32,     // significand bits incl. the hidden one
    ebits: u32, // exponent field width
}
const F64: Fmt = Fmt { p: 53, ebits: 11 };
const F32: Fmt = Fmt { p: 24, ebits: 8 };

enum Dec {
    Nan,
    Inf(bool),
    Fin { neg: bool, m: u64, e: i32 }, // value = m * 2^e
}

impl Fmt {
    fn dec(&self, pat: u64) -> Dec {
        let fb = self.p - 1;
        let neg = (pat >> (fb + self.ebits)) & 1 == 1;
        let ef = ((pat >> fb) & ((1u64 << self.ebits) - 1)) as i32;
        let frac = pat & ((1u64 << fb) - 1);
        let bias = (1i32 << (self.ebits - 1)) - 1;
        if ef == (1i32 << self.ebits) - 1 {
            return if frac == 0 { Dec::Inf(neg) } else { Dec::Nan };
        }
        if ef == 0 {
            Dec::Fin { neg, m: frac, e: 1 - bias - fb as i32 }
        } else {
            Dec::Fin { neg, m: frac | (1u64 << fb), e: ef - bias - fb as i32 }
        }
    }
    fn emax(&self) -> usize {
        1usize << (self.ebits - 1) // 1024 / 128: first power of two that is not finite
    }
    fn inf_limit(&self) -> BigUint {
        // MAX_FINITE + ulp/2
        let top = self.emax();
        pow2(top) - pow2(top - self.p as usize) + pow2(top - self.p as usize - 1)
    }
}

/// floor(m * 2^e + 1/2), exactly
fn round_half_up(m: u64, e: i32) -> BigUint {
    if m == 0 {
        return BigUint::zero();
    }
    if e >= 0 {
        return BigUint::from(m) << (e as usize);
    }
    let s = (-(e as i64)) as usize;
    ((BigUint::from(m) << 1usize) + pow2(s)) >> (s + 1)
}

fn f2u<const B: usize, const L: usize, T: Copy + std::fmt::Debug>(fmt: Fmt, pat: u64, x: T)
where
    Uint<B, L>: TryFrom<T, Error = ToUintError<Uint<B, L>>> + ruint::UintTryFrom<T>,
{
    let r = Uint::<B, L>::try_from(x);
    let s = Uint::<B, L>::saturating_from(x);
    let max = pow2(B) - BigUint::one();
    let d = || format!("float {x:?} (bits 0x{pat:x}) -> {r:?}, saturating {s:?}");
    let (want_ok, want_sat): (Option<BigUint>, BigUint) = match fmt.dec(pat) {
        Dec::Nan => {
            if !matches!(r, Err(ToUintError::NotANumber(b)) if b == B) {
                fail("C18", "nan_not_classified", B, d());
            }
            (None, BigUint::zero())
        }
        Dec::Inf(true) => {
            if !matches!(r, Err(ToUintError::ValueNegative(b, _)) if b == B) {
                fail("C18", "neg_inf", B, d());
            }
            (None, BigUint::zero())
        }
        Dec::Inf(false) => {
            if !matches!(r, Err(ToUintError::ValueTooLarge(b, _)) if b == B) {
                fail("C18", "pos_inf", B, d());
            }
            (None, max.clone())
        }
        Dec::Fin { neg, m, e } => {
            if neg && m != 0 {
                if !matches!(r, Err(ToUintError::ValueNegative(b, _)) if b == B) {
                    fail("C18", "negative_accepted", B, d());
                }
                (None, BigUint::zero())
            } else {
                let v = round_half_up(m, e);
                if v.bits() as usize <= B {
                    (Some(v.clone()), v)
                } else {
                    if !matches!(r, Err(ToUintError::ValueTooLarge(b, _)) if b == B) {
                        fail("C18", "too_large_accepted", B, d());
                    }
                    (None, max.clone())
                }
            }
        }
    };
    if let Some(v) = want_ok {
        match &r {
            Ok(u) if num(u) == v => {}
            _ => fail("C18", "value_wrong", B, format!("{} expected {v:x}", d())),
        }
    }
    if num(&s) != want_sat {
        fail("C18", "saturating_from_float", B, d());
    }
}

/// the two neighbours of v among integers with p significant bits
fn neighbours(v: &BigUint, p: u32) -> (BigUint, BigUint) {
    let n = v.bits() as usize;
    if n <= p as usize {
        return (v.clone(), v.clone());
    }
    let sh = n - p as usize;
    let lo = (v >> sh) << sh;
    if &lo == v {
        (lo.clone(), lo)
    } else {
        let hi = &lo + pow2(sh);
        (lo, hi)
    }
}

fn check_u2f(fmt: Fmt, v: &BigUint, pat: u64, width: usize, name: &str) {
    let (lo, hi) = neighbours(v, fmt.p);
    let d = || format!("{name}: value {v:x} -> bits 0x{pat:x}; neighbours {lo:x} / {hi:x}");
    match fmt.dec(pat) {
        Dec::Nan | Dec::Inf(true) => fail("C18", "u2f_special", width, d()),
        Dec::Inf(false) => {
            if *v < fmt.inf_limit() {
                fail("C18", "u2f_inf_below_limit", width, d());
            }
        }
        Dec::Fin { neg, m, e } => {
            if neg && m != 0 {
                fail("C18", "u2f_negative", width, d());
            }
            let r = if e >= 0 {
                Some(BigUint::from(m) << (e as usize))
            } else {
                let s = (-(e as i64)) as u32;
                if m == 0 {
                    Some(BigUint::zero())
                } else if s < 64 && m.trailing_zeros() >= s {
                    Some(BigUint::from(m >> s))
                } else {
                    None
                }
            };
            match r {
                Some(r) if r == lo || r == hi => {}
                _ => fail("C18", "u2f_not_a_neighbour", width, d()),
            }
        }
    }
}

fn u2f<const B: usize, const L: usize>(u: Uint<B, L>, data: &[u8]) {
    let v = num(&u);
    let a = f64::from(u);
    let b = f64::from(&u);
    let c = f32::from(u);
    let e = f32::from(&u);
    if a.to_bits() != b.to_bits() || c.to_bits() != e.to_bits() {
        fail("C18", "u2f_ref_differs", B, format!("{u:?}"));
    }
    check_u2f(F64, &v, a.to_bits(), B, "f64");
    check_u2f(F32, &v, u64::from(c.to_bits()), B, "f32");
    // monotone on (v, v + delta): delta is a small number placed at a bit position taken from the tail
    let bytes = (B + 7) / 8;
    let pos = data.get(bytes).copied().unwrap_or(0) as usize % (B.max(1));
    let delta = BigUint::from(u64::from(data.get(bytes + 1).copied().unwrap_or(1)) | 1) << pos;
    let w = &v + delta;
    if w.bits() as usize <= B {
        let mut limbs = [0u64; L];
        for (i, x) in w.to_u64_digits().into_iter().enumerate() {
            limbs[i] = x;
        }
        let u2 = Uint::<B, L>::from_limbs(limbs);
        let (a2, c2) = (f64::from(u2), f32::from(u2));
        if a2 < a || c2 < c {
            fail("C18", "u2f_not_monotone", B, format!("{u:?} -> {a:e} / {c:e} but larger {u2:?} -> {a2:e} / {c2:e}"));
        }
    }
}

const C07_GROUPS: u8 = 12;
const C18_GROUPS: u8 = 3;

fn run<const B: usize, const L: usize, const B2: usize, const L2: usize>(g: u8, data: &[u8]) {
    let group = match prop() {
        "C07" => g % C07_GROUPS,
        "C18" => C07_GROUPS + g % C18_GROUPS,
        _ => g % (C07_GROUPS + C18_GROUPS),
    };
    match group {
        0 => prim_to_uint!(u8, 8, data, B, L),
        1 => prim_to_uint!(u16, 16, data, B, L),
        2 => prim_to_uint!(u32, 32, data, B, L),
        3 => prim_to_uint!(u64, 64, data, B, L),
        4 => prim_to_uint!(u128, 128, data, B, L),
        5 => prim_to_uint!(i8, 8, data, B, L),
        6 => prim_to_uint!(i16, 16, data, B, L),
        7 => prim_to_uint!(i32, 32, data, B, L),
        8 => prim_to_uint!(i64, 64, data, B, L),
        9 => prim_to_uint!(i128, 128, data, B, L),
        10 => {
            let u = operand::<B, L>(data);
            uint_to_prim!(u8, 8, u, B);
            uint_to_prim!(u16, 16, u, B);
            uint_to_prim!(u32, 32, u, B);
            uint_to_prim!(u64, 64, u, B);
            uint_to_prim!(u128, 128, u, B);
            uint_to_prim!(i8, 8, u, B);
            uint_to_prim!(i16, 16, u, B);
            uint_to_prim!(i32, 32, u, B);
            uint_to_prim!(i64, 64, u, B);
            uint_to_prim!(i128, 128, u, B);
        }
        11 => {
            uint_to_uint::<B, L, B2, L2>(operand::<B, L>(data));
            uint_to_uint::<B2, L2, B, L>(operand::<B2, L2>(data));
        }
        12 => {
            let pat = u64::from_le_bytes(raw::<8>(data));
            f2u::<B, L, f64>(F64, pat, f64::from_bits(pat));
        }
        13 => {
            let pat = u32::from_le_bytes(raw::<4>(data));
            f2u::<B, L, f32>(F32, u64::from(pat), f32::from_bits(pat));
        }
        _ => u2f::<B, L>(operand::<B, L>(data), data),
    }
}

fuzz_target!(|data: &[u8]| {
    if data.len() < 2 {
        return;
    }
    let (w, g, rest) = (data[0], data[1], &data[2..]);
    match w % 14 {
        0 => run::<1, 1, 8, 1>(g, rest),
        1 => run::<7, 1, 64, 1>(g, rest),
        2 => run::<8, 1, 7, 1>(g, rest),
        3 => run::<24, 1, 25, 1>(g, rest),
        4 => run::<53, 1, 54, 1>(g, rest),
        5 => run::<63, 1, 65, 2>(g, rest),
        6 => run::<64, 1, 63, 1>(g, rest),
        7 => run::<65, 2, 64, 1>(g, rest),
        8 => run::<127, 2, 129, 3>(g, rest),
        9 => run::<128, 2, 127, 2>(g, rest),
        10 => run::<129, 3, 128, 2>(g, rest),
        11 => run::<200, 4, 256, 4>(g, rest),
        12 => run::<256, 4, 192, 3>(g, rest),
        _ => run::<1088, 17, 1024, 16>(g, rest),
    }
});
