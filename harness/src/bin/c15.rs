//! C15 — limb-slice multiply / add / subtract / shift / compare kernels (DESIGN 4, C15).

use proptest::prelude::*;
use ruint::algorithms as alg;
use vcore::big::*;
use vcore::gen::*;
use vcore::*;

const MAXLEN: usize = 10;

/// slice of length 0..=MAXLEN with prescribed zero/ones shapes
fn slice(max: usize) -> BoxedStrategy<Vec<u64>> {
    // one slice in six is stretched to a long length (11..=80 limbs) by a run inserted in the
    // middle: "all slice lengths" includes lengths at which a kernel could switch strategy
    (short_slice(max), 0u8..6, 11usize..=80, 0u8..4, limb(), 0..=MAXLEN).prop_map(move |(v, stretch, long, kind, w, at)| {
        if stretch != 0 || max < MAXLEN || v.is_empty() {
            return v;
        }
        let at = at.min(v.len());
        let mut out = v[..at].to_vec();
        for k in 0..long - v.len() {
            out.push(match kind {
                0 => 0,
                1 => u64::MAX,
                2 => w,
                _ => w.wrapping_mul(0x9E37_79B9_7F4A_7C15).wrapping_add(k as u64).rotate_left(k as u32 % 64),
            });
        }
        out.extend_from_slice(&v[at..]);
        out
    })
    .boxed()
}

fn short_slice(max: usize) -> BoxedStrategy<Vec<u64>> {
    (limbs(MAXLEN), 0..=max, 0u8..8, 0..=MAXLEN, 0..=MAXLEN)
        .prop_map(|(mut v, len, shape, i, j)| {
            v.truncate(len);
            let n = v.len();
            let (i, j) = (i.min(n), j.min(n));
            match shape {
                0 => v.iter_mut().take(i).for_each(|x| *x = 0),                  // zero low limbs
                1 => v.iter_mut().skip(n - i.min(n)).for_each(|x| *x = 0),       // zero high limbs
                2 => { let (a, b) = (i.min(j), i.max(j)); v.iter_mut().take(b).skip(a).for_each(|x| *x = 0) } // zero middle
                3 => v.iter_mut().for_each(|x| *x = u64::MAX),                   // all ones
                4 => v.iter_mut().take(i).for_each(|x| *x = u64::MAX),           // ones low run
                _ => {}
            }
            v
        })
        .boxed()
}

fn pw(len: usize) -> BigUint {
    pow2(64 * len)
}

fn hexv(v: &[u64]) -> Vec<String> {
    v.iter().map(|x| format!("{x:#x}")).collect()
}

fn zero_shape(v: &[u64]) -> bool {
    let n = v.len();
    if n == 0 {
        return false;
    }
    let f = v.iter().position(|x| *x != 0);
    let l = v.iter().rposition(|x| *x != 0);
    let mid = match (f, l) {
        (Some(i), Some(j)) => v[i..=j].iter().any(|x| *x == 0),
        _ => false,
    };
    v[0] == 0 || v[n - 1] == 0 || mid || v.iter().any(|x| *x == u64::MAX)
}

// ------------------------------------------------------------------ addmul

fn strat_addmul(_: usize) -> BoxedStrategy<Case> {
    (slice(MAXLEN), slice(MAXLEN), slice(MAXLEN), 0u8..4)
        .prop_map(|(mut lhs, a, b, fill)| {
            if fill == 0 {
                lhs.iter_mut().for_each(|x| *x = u64::MAX); // carry ripple through the accumulator
            }
            Case::new().l(lhs).l(a).l(b)
        })
        .boxed()
}

fn body_addmul<const B: usize, const L: usize>(c: &Case, rec: &mut Rec) -> R {
    let (l0, a, b) = (&c.l[0], &c.l[1], &c.l[2]);
    let total = big(l0) + big(a) * big(b);
    let m = pw(l0.len());
    let of = total >= m;
    let exp = limbs_of(&total, l0.len());
    let (ta, tb) = (big(a).bits().div_ceil(64) as usize, big(b).bits().div_ceil(64) as usize);
    let prod_len = if ta == 0 || tb == 0 { 0 } else { ta + tb };
    rec.class_if(l0.len() < prod_len, "acc_shorter_than_product");
    rec.class_if(l0.len() == prod_len, "acc_equal_product");
    rec.class_if(l0.len() > prod_len, "acc_longer_than_product");
    rec.class_if(of, "addmul_overflow");
    rec.class_if(of && l0.len() >= prod_len, "carry_ripples_beyond_product");
    rec.class_if(l0.is_empty(), "acc_empty");
    if !a.is_empty() && !b.is_empty() && (zero_shape(a) || zero_shape(b) || l0.len() < prod_len || (of && l0.len() >= prod_len)) {
        rec.nontrivial(&(l0, a, b));
    }
    rec.sample(|| json!({"kernel": "addmul", "lhs": hexv(l0), "a": hexv(a), "b": hexv(b), "overflow": of}));
    let mut lhs = l0.clone();
    let r = rec.no_panic("addmul", catch(|| alg::addmul(&mut lhs, a, b)))?;
    rec.eqc("addmul", "limbs_wrong", &lhs, &exp)?;
    rec.eqc("addmul", if of { "flag_false_expected_true" } else { "flag_true_expected_false" }, &r, &of)?;
    Ok(())
}

fn strat_addmul_n(_: usize) -> BoxedStrategy<Case> {
    (slice(MAXLEN), slice(MAXLEN), slice(MAXLEN), 0..=MAXLEN, 0u8..12)
        .prop_map(|(mut lhs, mut a, mut b, n, unequal)| {
            // mostly equal lengths (the wrapping form); sometimes unequal (must panic)
            if unequal != 0 {
                lhs.resize(n, u64::MAX);
                a.resize(n, 3);
                b.resize(n, 1 << 63);
            }
            Case::new().l(lhs).l(a).l(b)
        })
        .boxed()
}

fn body_addmul_n<const B: usize, const L: usize>(c: &Case, rec: &mut Rec) -> R {
    let (l0, a, b) = (&c.l[0], &c.l[1], &c.l[2]);
    let mut lhs = l0.clone();
    if l0.len() != a.len() || l0.len() != b.len() {
        rec.class("addmul_n_unequal_lengths");
        return rec.must_panic("addmul_n", catch(|| alg::addmul_n(&mut lhs, a, b)));
    }
    let total = big(l0) + big(a) * big(b);
    let exp = limbs_of(&total, l0.len());
    rec.class(match l0.len() { 0 => "n=0", 1 => "n=1", 2 => "n=2", 3 => "n=3", 4 => "n=4", _ => "n>=5" });
    if !l0.is_empty() && (zero_shape(a) || zero_shape(b) || total >= pw(l0.len())) {
        rec.nontrivial(&(l0, a, b));
    }
    rec.sample(|| json!({"kernel": "addmul_n", "lhs": hexv(l0), "a": hexv(a), "b": hexv(b)}));
    rec.no_panic("addmul_n", catch(|| alg::addmul_n(&mut lhs, a, b)))?;
    rec.eqc("addmul_n", "limbs_wrong", &lhs, &exp)?;
    Ok(())
}

// ------------------------------------------------------------------ nx1 kernels

fn strat_nx1(_: usize) -> BoxedStrategy<Case> {
    (slice(MAXLEN), slice(MAXLEN), limb(), limb())
        .prop_map(|(lhs, mut a, x, y)| {
            a.resize(lhs.len(), y); // equal lengths (stated precondition of addmul_nx1 / submul_nx1)
            Case::new().l(lhs).l(a).n(x)
        })
        .boxed()
}

fn body_nx1<const B: usize, const L: usize>(c: &Case, rec: &mut Rec) -> R {
    let (l0, a) = (&c.l[0], &c.l[1]);
    let x = c.n[0];
    let n = l0.len();
    let m = pw(n);
    if n > 0 && (zero_shape(l0) || zero_shape(a) || x == 0 || x == u64::MAX) {
        rec.nontrivial(&(l0, a, x));
    }
    rec.sample(|| json!({"kernel": "nx1", "lhs": hexv(l0), "a": hexv(a), "b": format!("{x:#x}")}));
    // mul_nx1: lhs*x = lhs' + carry*2^(64n)
    {
        let mut lhs = l0.clone();
        let cy = rec.no_panic("mul_nx1", catch(|| alg::mul_nx1(&mut lhs, x)))?;
        let t = big(l0) * u(x);
        rec.eqc("mul_nx1", "limbs_wrong", &lhs, &limbs_of(&t, n))?;
        rec.eqc("mul_nx1", "carry_wrong", &u(cy), &(&t / &m))?;
    }
    // addmul_nx1: lhs + a*x = lhs' + carry*2^(64n)
    {
        let mut lhs = l0.clone();
        let cy = rec.no_panic("addmul_nx1", catch(|| alg::addmul_nx1(&mut lhs, a, x)))?;
        let t = big(l0) + big(a) * u(x);
        rec.eqc("addmul_nx1", "limbs_wrong", &lhs, &limbs_of(&t, n))?;
        rec.eqc("addmul_nx1", "carry_wrong", &u(cy), &(&t / &m))?;
    }
    // submul_nx1: lhs_old + borrow*2^(64n) = lhs_new + a*x   (determines borrow uniquely)
    {
        let mut lhs = l0.clone();
        let bw = rec.no_panic("submul_nx1", catch(|| alg::submul_nx1(&mut lhs, a, x)))?;
        let p = big(a) * u(x);
        // expected: lhs_new = (lhs_old - p) mod 2^(64n), borrow = ceil((p - lhs_old)/2^(64n)) if p > lhs_old
        let l_old = big(l0);
        let k = if p > l_old { (&p - &l_old + &m - 1u32) / &m } else { BigUint::zero() };
        let new = &l_old + &k * &m - &p;
        rec.eqc("submul_nx1", "limbs_wrong", &lhs, &limbs_of(&new, n))?;
        rec.eqc("submul_nx1", "borrow_wrong", &u(bw), &k)?;
        rec.class_if(!k.is_zero(), "submul_borrow_nonzero");
    }
    // add_nx1: lhs + x = lhs' + carry*2^(64n)
    {
        let mut lhs = l0.clone();
        let cy = rec.no_panic("add_nx1", catch(|| alg::add_nx1(&mut lhs, x)))?;
        let t = big(l0) + u(x);
        rec.eqc("add_nx1", "limbs_wrong", &lhs, &limbs_of(&t, n))?;
        rec.eqc("add_nx1", "carry_wrong", &u(cy), &(&t / &m))?;
        rec.class_if(t >= m && n > 0, "add_nx1_full_ripple");
    }
    Ok(())
}

// ------------------------------------------------------------------ adc_n / sbb_n

fn strat_adc_n(_: usize) -> BoxedStrategy<Case> {
    (slice(MAXLEN), slice(MAXLEN), 0usize..3, prop_oneof![4 => Just(0u64), 4 => Just(1u64), 3 => limb(), 1 => Just(2u64), 1 => Just(u64::MAX)], 0u8..5)
        .prop_map(|(lhs, mut rhs, extra, cin, rel)| {
            // rhs.len() >= lhs.len() (only the low lhs.len() limbs of rhs are read)
            rhs.resize(lhs.len() + extra, u64::MAX);
            match rel {
                0 => rhs[..lhs.len()].copy_from_slice(&lhs),                                   // equal
                1 => rhs[..lhs.len()].iter_mut().zip(&lhs).for_each(|(r, l)| *r = !*l),       // sum = all ones
                _ => {}
            }
            Case::new().l(lhs).l(rhs).n(cin)
        })
        .boxed()
}

fn body_adc_n<const B: usize, const L: usize>(c: &Case, rec: &mut Rec) -> R {
    let (l0, r0) = (&c.l[0], &c.l[1]);
    let cin = c.n[0];
    let n = l0.len();
    let m = pw(n);
    let rl = big(&r0[..n]);
    // the carry / borrow parameter is a full word (u64), as the signatures state: the exact
    // identities below are asserted for every word, not only for 0 and 1
    rec.class_if(cin > 1, "carry_in>1");
    if n > 0 {
        rec.nontrivial(&(l0, r0, cin));
    }
    rec.sample(|| json!({"kernel": "adc_n/sbb_n", "lhs": hexv(l0), "rhs": hexv(r0), "carry_in": cin}));
    {
        let mut lhs = l0.clone();
        let cy = rec.no_panic("adc_n", catch(|| alg::adc_n(&mut lhs, r0, cin)))?;
        let t = big(l0) + &rl + u(cin);
        rec.eqc("adc_n", "limbs_wrong", &lhs, &limbs_of(&t, n))?;
        // with n == 0 the carry passes through unchanged
        rec.eqc("adc_n", "carry_wrong", &u(cy), &(&t / &m))?;
        rec.class_if(t >= m && n > 0, "adc_n_carry_out");
        rec.class_if(t >= &m * 2u32 && n > 0, "adc_n_carry_out=2");
    }
    {
        let mut lhs = l0.clone();
        let bw = rec.no_panic("sbb_n", catch(|| alg::sbb_n(&mut lhs, r0, cin)))?;
        let sub = &rl + u(cin);
        let l_old = big(l0);
        // exact borrow word k: lhs_old - rhs - borrow_in = lhs_new - k * 2^(64n), 0 <= lhs_new < 2^(64n)
        let k = if sub > l_old { (&sub - &l_old + &m - 1u32) / &m } else { BigUint::zero() };
        // for n == 0: nothing to subtract from; borrow passes through
        let (new, k) = if n == 0 { (BigUint::zero(), u(cin)) } else { (&l_old + &k * &m - &sub, k) };
        rec.class_if(k > BigUint::one() && n > 0, "sbb_n_borrow_out=2");
        rec.eqc("sbb_n", "limbs_wrong", &lhs, &limbs_of(&new, n))?;
        rec.eqc("sbb_n", "borrow_wrong", &u(bw), &k)?;
        rec.class_if(!k.is_zero() && n > 0, "sbb_n_borrow_out");
    }
    Ok(())
}

// ------------------------------------------------------------------ scalar adc/sbb/carrying_add/borrowing_sub

fn word_alphabet() -> Vec<u64> {
    let mut v = vec![0u64, 1, 2, 3, u64::MAX, u64::MAX - 1, u64::MAX - 2, 0x5555_5555_5555_5555, 0xAAAA_AAAA_AAAA_AAAA, 0x0123_4567_89AB_CDEF, 0xFEDC_BA98_7654_3210];
    for k in 0..64 {
        let p = 1u64 << k;
        v.extend([p, p.wrapping_sub(1), !p, p.wrapping_add(1), !p.wrapping_sub(1), p | 1, p | (1 << 63), p >> 1 | p]);
    }
    v.sort();
    v.dedup();
    v
}

fn enum_words(which: usize, f: &mut dyn FnMut(&Case) -> R) -> R {
    let al = word_alphabet();
    for &a in &al {
        for &b in &al {
            // adc / sbb take a full carry word; carrying_add / borrowing_sub a bool
            let carries: &[u64] = if which < 2 { &[0, 1, 2, 3, 1 << 32, 1 << 63, u64::MAX - 1, u64::MAX] } else { &[0, 1] };
            for &c in carries {
                f(&Case::new().n(a).n(b).n(c).n(which as u64))?;
            }
        }
    }
    Ok(())
}

fn strat_words(_: usize) -> BoxedStrategy<Case> {
    (limb(), limb(), prop_oneof![2 => 0u64..2, 1 => limb()], 0u64..4, 0u8..4)
        .prop_map(|(a, b, c, which, rel)| {
            let c = if which >= 2 { c & 1 } else { c };
            let b = match rel {
                0 => !a,               // a + b = all ones
                1 => (!a).wrapping_add(1), // a + b = 2^64
                _ => b,
            };
            Case::new().n(a).n(b).n(c).n(which)
        })
        .boxed()
}

fn body_words<const B: usize, const L: usize>(c: &Case, rec: &mut Rec) -> R {
    let (a, b, ci, which) = (c.n[0], c.n[1], c.n[2], c.n[3]);
    rec.nontrivial(&(a, b, ci, which));
    let kname = ["adc", "sbb", "carrying_add", "borrowing_sub"][which as usize];
    rec.sample(|| json!({"kernel": kname, "lhs": format!("{a:#x}"), "rhs": format!("{b:#x}"), "carry_in": ci}));
    let sum = a as u128 + b as u128 + ci as u128;
    let diff = (a as i128) - (b as i128) - (ci as i128);
    // two's complement low word and the exact borrow word (0, 1 or 2): diff = low - borrow * 2^64
    let sub_e = (diff as u64, ((diff as u64 as i128 - diff) >> 64) as u64);
    match which {
        0 => chk!(rec, "adc", alg::adc(a, b, ci), (sum as u64, (sum >> 64) as u64)),
        1 => chk!(rec, "sbb", alg::sbb(a, b, ci), sub_e),
        2 => chk!(rec, "carrying_add", alg::carrying_add(a, b, ci != 0), (sum as u64, (sum >> 64) != 0)),
        _ => chk!(rec, "borrowing_sub", alg::borrowing_sub(a, b, ci != 0), (sub_e.0, sub_e.1 != 0)),
    }
    Ok(())
}

// ------------------------------------------------------------------ small shifts

fn strat_shift(_: usize) -> BoxedStrategy<Case> {
    (slice(MAXLEN), prop_oneof![3 => 0u64..64, 1 => Just(0u64), 1 => Just(1u64), 1 => Just(63u64), 1 => Just(32u64)])
        .prop_map(|(v, amt)| Case::new().l(v).n(amt))
        .boxed()
}

fn body_shift<const B: usize, const L: usize>(c: &Case, rec: &mut Rec) -> R {
    let v0 = &c.l[0];
    let amt = c.n[0] as usize; // 0..=63: the only stated precondition is amount < 64
    let n = v0.len();
    let x = big(v0);
    let m = pw(n);
    rec.class_if(amt == 0, "amount=0");
    if n > 0 {
        rec.nontrivial(&(v0, amt));
    }
    rec.sample(|| json!({"kernel": "shift_small", "limbs": hexv(v0), "amount": amt}));
    let cls = |base: &str| if amt == 0 { format!("{base}:amount_zero") } else { base.to_string() };
    {
        let mut v = v0.clone();
        let r = catch(|| alg::shift_left_small(&mut v, amt));
        let shifted = &x << amt;
        let exp_limbs = limbs_of(&shifted, n);
        let exp_out = (&shifted / &m).to_u64().expect("bits shifted out fit a limb");
        rec.eval(2);
        match r {
            Err(msg) => rec.fail("shift_left_small", &cls("panic"), format!("panicked: {msg}"))?,
            Ok(out) => {
                if v != exp_limbs {
                    rec.fail("shift_left_small", &cls("limbs_wrong"), format!("limbs {:?} expected {:?}", hexv(&v), hexv(&exp_limbs)))?;
                }
                if out != exp_out {
                    rec.fail("shift_left_small", &cls("out_wrong"), format!("returned {out:#x} expected {exp_out:#x}"))?;
                }
            }
        }
    }
    {
        let mut v = v0.clone();
        let r = catch(|| alg::shift_right_small(&mut v, amt));
        let exp_limbs = limbs_of(&(&x >> amt), n);
        // the bits shifted out, left-aligned in the returned limb
        let low = (&x % pow2(amt)).to_u64().expect("low bits fit");
        let exp_out = if amt == 0 { 0 } else { low << (64 - amt) };
        rec.eval(2);
        match r {
            Err(msg) => rec.fail("shift_right_small", &cls("panic"), format!("panicked: {msg}"))?,
            Ok(out) => {
                if v != exp_limbs {
                    rec.fail("shift_right_small", &cls("limbs_wrong"), format!("limbs {:?} expected {:?}", hexv(&v), hexv(&exp_limbs)))?;
                }
                if out != exp_out {
                    rec.fail("shift_right_small", &cls("out_wrong"), format!("returned {out:#x} expected {exp_out:#x}"))?;
                }
            }
        }
    }
    Ok(())
}

// ------------------------------------------------------------------ cmp

fn strat_cmp(_: usize) -> BoxedStrategy<Case> {
    (slice(MAXLEN), slice(MAXLEN), 0u8..5, 0..100usize, limb())
        .prop_map(|(a, mut b, rel, pos, x)| {
            b.resize(a.len(), 0);
            match rel {
                0 => b.copy_from_slice(&a),
                1 if !a.is_empty() => {
                    // differ in exactly one limb
                    b.copy_from_slice(&a);
                    let p = pos % a.len();
                    b[p] = x;
                }
                2 if !a.is_empty() => {
                    // differ by +-1 in one limb
                    b.copy_from_slice(&a);
                    let p = pos % a.len();
                    b[p] = if x & 1 == 0 { a[p].wrapping_add(1) } else { a[p].wrapping_sub(1) };
                }
                _ => {}
            }
            Case::new().l(a).l(b)
        })
        .boxed()
}

/// Fixed list: for every length 1..=80 and every position p, two slices that agree everywhere
/// except that the limb at p differs by one, while the limbs below p order the other way round
/// (so that skipping the limb at p gives the opposite answer) or are equal (so that it gives
/// Equal).
fn enum_cmp_single_difference(f: &mut dyn FnMut(&Case) -> R) -> R {
    for len in 1..=80usize {
        for p in 0..len {
            for below in 0..2 {
                let mut a: Vec<u64> = (0..len).map(|i| (i as u64).wrapping_mul(0x9E37_79B9_7F4A_7C15) | 1).collect();
                let mut b = a.clone();
                b[p] = a[p].wrapping_add(1);
                if b[p] == 0 {
                    a[p] = 5;
                    b[p] = 6;
                }
                if below == 1 {
                    for i in 0..p {
                        a[i] = u64::MAX;
                        b[i] = 0;
                    }
                }
                f(&Case::new().l(a.clone()).l(b.clone()))?;
                f(&Case::new().l(b).l(a))?;
            }
        }
    }
    Ok(())
}

fn body_cmp<const B: usize, const L: usize>(c: &Case, rec: &mut Rec) -> R {
    let (a, b) = (&c.l[0], &c.l[1]);
    let e = big(a).cmp(&big(b));
    rec.class(match e { std::cmp::Ordering::Less => "cmp_less", std::cmp::Ordering::Equal => "cmp_equal", _ => "cmp_greater" });
    if !a.is_empty() {
        rec.nontrivial(&(a, b));
    }
    rec.sample(|| json!({"kernel": "cmp", "left": hexv(a), "right": hexv(b)}));
    chk!(rec, "cmp", alg::cmp(a, b), e);
    Ok(())
}

fn main() {
    let spec = PropSpec {
        id: "C15",
        rule_text: "slice-level generators: accumulator/operand lengths 0..=10 independently, one slice in six stretched to 11..=80 limbs by an inserted run (zeros, ones, a word, noise); contents from the boundary alphabet reshaped with zero low / high / middle limbs, all-ones limbs and runs, accumulators pre-filled with all-ones; equal lengths where a kernel states it (addmul_n panics on unequal lengths, which is checked); adc_n/sbb_n with rhs at least as long as lhs and a full carry / borrow word (0, 1, 2, u64::MAX, alphabet; exact identity incl. carry-out 2); scalar adc/sbb enumerated over the full square of a ~500-word boundary alphabet x 8 carry words, carrying_add/borrowing_sub x both flags; shift amounts 0..=63; cmp on equal-length slices incl. equal / one-limb-different pairs, plus the fixed list of all (length 1..=80, position) single-limb differences with opposite or equal ordering below the position. Oracle: exact integer identities in num-bigint / u128 (e.g. lhs + a*b = lhs' + carry*2^(64n); lhs_old + borrow*2^(64n) = lhs_new + a*b). Non-trivial: non-empty operands with a zero or all-ones limb, or an accumulator shorter than the product, or a carry rippling beyond the product window (addmul); every non-empty case for the other kernels; distinct by inputs.",
        assumptions: vec![
            "num-bigint / u128 arithmetic is correct (oracle)",
            "the carry / borrow parameter of adc, sbb, adc_n, sbb_n is taken to be a full u64 word as the signatures state (in-tree callers only pass 0 or 1); unequal lengths for addmul_nx1/submul_nx1 are outside the callers' domain and not asserted",
        ],
        thorough_mult: 50,
    };
    main_with(
        spec,
        |jobs, _| {
            jobs.gen("addmul", 0, 200_000, || strat_addmul(0), body_addmul::<0, 0>);
            jobs.gen("addmul_n", 0, 60_000, || strat_addmul_n(0), body_addmul_n::<0, 0>);
            jobs.gen("nx1", 0, 60_000, || strat_nx1(0), body_nx1::<0, 0>);
            jobs.gen("adc_n_sbb_n", 0, 60_000, || strat_adc_n(0), body_adc_n::<0, 0>);
            jobs.gen("words", 0, 40_000, || strat_words(0), body_words::<0, 0>);
            jobs.fixed_list("adc_alphabet_square", 0, |f| enum_words(0, f), body_words::<0, 0>);
            jobs.fixed_list("sbb_alphabet_square", 0, |f| enum_words(1, f), body_words::<0, 0>);
            jobs.fixed_list("carrying_add_alphabet_square", 0, |f| enum_words(2, f), body_words::<0, 0>);
            jobs.fixed_list("borrowing_sub_alphabet_square", 0, |f| enum_words(3, f), body_words::<0, 0>);
            jobs.gen("shift_small", 0, 60_000, || strat_shift(0), body_shift::<0, 0>);
            jobs.gen("cmp", 0, 40_000, || strat_cmp(0), body_cmp::<0, 0>);
            jobs.fixed_list("cmp_single_difference", 0, |f| enum_cmp_single_difference(f), body_cmp::<0, 0>);
        },
        |_| Map::new(),
    );
}
