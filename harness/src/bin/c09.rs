//! C09 — radix conversion, parsing, formatting (DESIGN 4, C09).
//!
//! Five rules:
//! * `to_base`   : to_base_le / to_base_be vs repeated BigUint divmod, round trip through
//!                 from_base_le / from_base_be, with zero padding; base < 2 must panic.
//! * `from_base` : arbitrary digit lists (digits of v, 2^BITS-1, 2^BITS, one extra digit, a digit
//!                 >= base, base 0/1, zero padding) vs Horner in BigUint / the documented error.
//! * `fmt`       : 6 traits x {plain, #} x {no width, 1, 12, 40, 70, 300} x 11 fill/align/0/sign/precision variants
//!                 vs the primitive u128 formatter (<= u128::MAX) / BigUint's formatter (above).
//! * `parse`     : from_str_radix over radix 0..=65 and a few larger.
//! * `from_str`  : FromStr with the six prefixes and none.

use proptest::collection::vec;
use proptest::prelude::*;
use ruint::{BaseConvertError, ParseError, Uint};
use std::fmt;
use std::str::FromStr;
use vcore::big::*;
use vcore::gen::*;
use vcore::*;

// ---------------------------------------------------------------------------
// Oracle helpers (BigUint only; nothing here calls ruint)

/// Little-endian base-`b` digits of `x` by repeated BigUint divmod (b >= 2). Zero has no digits.
fn digits_le(x: &BigUint, b: u64) -> Vec<u64> {
    assert!(b >= 2);
    let bb = BigUint::from(b);
    let mut x = x.clone();
    let mut out = vec![];
    while !x.is_zero() {
        let (q, r) = num_integer::Integer::div_rem(&x, &bb);
        out.push(r.to_u64().expect("digit fits u64"));
        x = q;
    }
    out
}

/// Horner over big-endian digits.
fn horner(digits_be: impl Iterator<Item = u64>, b: u64) -> BigUint {
    let mut acc = BigUint::zero();
    for d in digits_be {
        acc = acc * b + d;
    }
    acc
}

fn bce_kind(e: &BaseConvertError) -> &'static str {
    match e {
        BaseConvertError::Overflow => "overflow",
        BaseConvertError::InvalidBase(_) => "invalid_base",
        BaseConvertError::InvalidDigit(..) => "invalid_digit",
    }
}

fn pe_kind(e: &ParseError) -> &'static str {
    match e {
        ParseError::InvalidDigit(_) => "invalid_char",
        ParseError::InvalidRadix(_) => "invalid_radix",
        ParseError::BaseConvertError(b) => bce_kind(b),
    }
}

/// Compare a `Result<Uint, E>` with the expectation: `value` (when no fault applies) or any of
/// the applicable errors `errs`.
fn check_result<const B: usize, const L: usize, E: PartialEq + fmt::Debug>(
    rec: &mut Rec,
    check: &str,
    got: &Result<Uint<B, L>, E>,
    value: &Option<BigUint>,
    errs: &[E],
    kind: fn(&E) -> &'static str,
) -> R {
    rec.eval(1);
    match (got, value) {
        (Ok(g), Some(v)) => {
            if num(g) == *v {
                Ok(())
            } else {
                rec.fail(check, "value_wrong", format!("got {} expected {}", hex(&num(g)), hex(v)))
            }
        }
        (Ok(g), None) => {
            let k = if errs.iter().all(|e| kind(e) == kind(&errs[0])) { kind(&errs[0]) } else { "multi_fault" };
            rec.fail(check, &format!("accepted:{k}"), format!("got Ok({}) expected one of {:?}", hex(&num(g)), errs))
        }
        (Err(e), Some(v)) => rec.fail(check, &format!("rejected_valid:{}", kind(e)), format!("got Err({e:?}) expected Ok({})", hex(v))),
        (Err(e), None) => {
            if errs.contains(e) {
                Ok(())
            } else {
                let k = if errs.iter().all(|x| kind(x) == kind(&errs[0])) { kind(&errs[0]) } else { "multi_fault" };
                rec.fail(check, &format!("wrong_error:{}_for_{k}", kind(e)), format!("got Err({e:?}) expected one of {errs:?}"))
            }
        }
    }
}

// ---------------------------------------------------------------------------
// Shared generator pieces

const FIXED_BASES: [u64; 13] =
    [2, 3, 7, 10, 16, 36, 64, 255, 256, 1 << 32, 1 << 63, 10_000_000_000_000_000_000, u64::MAX];

fn base_strat() -> BoxedStrategy<u64> {
    prop_oneof![
        6 => prop::sample::select(FIXED_BASES.to_vec()),
        3 => limb().prop_map(|x| x.max(2)),
        1 => 2u64..=70,
    ]
    .boxed()
}

/// Selector for `pick_digits`: about 60 % in range, 40 % overflowing.
fn kind_strat() -> BoxedStrategy<u8> {
    prop_oneof![5 => 0u8..3, 1 => Just(3u8), 1 => Just(10u8), 5 => 4u8..10].boxed()
}

/// LE digit list in base `base` (>= 2) of a number chosen by `kind` around the value `v` and
/// the capacity 2^bits.
fn pick_digits(bits: usize, v: &[u64], base: u64, kind: u8, e: u64) -> Vec<u64> {
    let two = pow2(bits);
    let vb = big(v);
    let top = 1 + e % (base - 1); // a non-zero digit
    match kind {
        // in range
        0 | 1 | 2 => digits_le(&vb, base),
        3 => digits_le(&(&two - 1u32), base),
        // smallest overflowing value
        4 => digits_le(&two, base),
        5 => digits_le(&(&two + (e % 4)), base),
        6 => digits_le(&(&two + &vb), base),
        // one extra low digit: v*base + d (overflows for large v)
        7 => digits_le(&(&vb * base + (e % base)), base),
        // digits of MAX plus one extra top digit: overflow by exactly one digit
        8 => {
            let mut d = digits_le(&(&two - 1u32), base);
            d.push(top);
            d
        }
        // digits of v plus one extra top digit (overflows iff v already has the maximal length)
        9 => {
            let mut d = digits_le(&vb, base);
            d.push(top);
            d
        }
        // just below capacity
        _ => digits_le(&((&two - 1u32) - (e % 4).min(if bits >= 2 { 3 } else { 0 })), base),
    }
}

// ---------------------------------------------------------------------------
// Rule 1: to_base

fn strat_to_base(bits: usize) -> BoxedStrategy<Case> {
    let pad = prop_oneof![3 => Just(0u64), 3 => 1u64..4, 1 => Just(65u64)];
    let b = prop_oneof![30 => base_strat(), 1 => Just(0u64), 1 => Just(1u64)];
    (uint(bits), b, pad).prop_map(|(v, b, k)| Case::new().l(v).n(b).n(k)).boxed()
}

fn body_to_base<const B: usize, const L: usize>(c: &Case, rec: &mut Rec) -> R {
    let x: Uint<B, L> = mk(&c.l[0]);
    let xb = num(&x);
    let base = c.n[0];
    let pad = c.n[1] as usize;
    if base < 2 {
        rec.class("to_base:base<2");
        rec.must_panic("to_base_le", catch(|| x.to_base_le(base).collect::<Vec<u64>>()))?;
        rec.must_panic("to_base_be", catch(|| x.to_base_be(base).collect::<Vec<u64>>()))?;
        return Ok(());
    }
    let le = digits_le(&xb, base);
    let be: Vec<u64> = le.iter().rev().copied().collect();
    rec.class(match le.len() {
        0 => "to_base:digits=0",
        1 => "to_base:digits=1",
        2..=4 => "to_base:digits=2..4",
        5..=64 => "to_base:digits=5..64",
        _ => "to_base:digits>64",
    });
    rec.class(if FIXED_BASES.contains(&base) { "to_base:base_fixed_list" } else { "to_base:base_random" });
    rec.class_if(base > 1 << 32, "to_base:base>2^32");
    rec.class_if(base.is_power_of_two(), "to_base:base_pow2");
    rec.class_if(le.iter().any(|d| *d == 0), "to_base:has_zero_digit");
    rec.class_if(le.iter().any(|d| *d == base - 1), "to_base:has_max_digit");
    if le.len() >= 2 {
        rec.nontrivial(&(&c.l[0], base));
    }
    rec.sample(|| json!({"value": hex(&xb), "base": base, "digits_le": le.iter().take(8).collect::<Vec<_>>(), "ndigits": le.len()}));

    let g = rec.no_panic("to_base_le", catch(|| x.to_base_le(base).collect::<Vec<u64>>()))?;
    rec.eqc("to_base_le", "digits_wrong", &g, &le)?;
    let g = rec.no_panic("to_base_be", catch(|| x.to_base_be(base).collect::<Vec<u64>>()))?;
    rec.eqc("to_base_be", "digits_wrong", &g, &be)?;

    // round trip
    let exp = Some(xb.clone());
    let r = rec.no_panic("from_base_le", catch(|| Uint::<B, L>::from_base_le(base, le.iter().copied())))?;
    check_result(rec, "from_base_le", &r, &exp, &[], bce_kind)?;
    let r = rec.no_panic("from_base_be", catch(|| Uint::<B, L>::from_base_be(base, be.iter().copied())))?;
    check_result(rec, "from_base_be", &r, &exp, &[], bce_kind)?;
    if pad > 0 {
        rec.class("to_base:zero_padded_round_trip");
        let zeros = std::iter::repeat(0u64).take(pad);
        let r = rec.no_panic("from_base_le", catch(|| Uint::<B, L>::from_base_le(base, le.iter().copied().chain(zeros.clone()))))?;
        check_result(rec, "from_base_le", &r, &exp, &[], bce_kind)?;
        let r = rec.no_panic("from_base_be", catch(|| Uint::<B, L>::from_base_be(base, zeros.chain(be.iter().copied()))))?;
        check_result(rec, "from_base_be", &r, &exp, &[], bce_kind)?;
    }
    Ok(())
}

// ---------------------------------------------------------------------------
// Rule 2: from_base (arbitrary digit lists)

fn strat_from_base(bits: usize) -> BoxedStrategy<Case> {
    let b = prop_oneof![30 => base_strat(), 1 => Just(0u64), 1 => Just(1u64)];
    (uint(bits), b, kind_strat(), any::<u64>(), 0u8..8, any::<u64>(), 0u8..4, 1usize..4)
        .prop_map(move |(v, base, kind, e, mu, pos, badsel, pad)| {
            let mut d: Vec<u64>;
            if base < 2 {
                // a short list of small digits; all zero half of the time
                d = (0..(e % 5) as usize).map(|i| if kind % 2 == 0 { 0 } else { (pos >> (2 * i)) & 3 }).collect();
            } else {
                let bad = matches!(mu, 5 | 7);
                let padded = matches!(mu, 6 | 7);
                let kind = if bad && (e >> 40) % 4 != 0 { kind % 3 } else { kind };
                d = pick_digits(bits, &v, base, kind, e);
                if bad {
                    let bd = match badsel {
                        0 => base,
                        1 => base.saturating_add(1),
                        2 => u64::MAX,
                        _ => base.saturating_add(e % 1000),
                    };
                    if d.is_empty() {
                        d.push(bd);
                    } else {
                        let i = (pos % d.len() as u64) as usize;
                        d[i] = bd;
                    }
                }
                if padded {
                    d.extend(std::iter::repeat(0).take(pad));
                }
            }
            Case::new().n(base).l(d).n(kind as u64)
        })
        .boxed()
}

fn body_from_base<const B: usize, const L: usize>(c: &Case, rec: &mut Rec) -> R {
    let base = c.n[0];
    let dl = &c.l[0];
    let mut errs: Vec<BaseConvertError> = vec![];
    let mut value = None;
    let nbad = dl.iter().filter(|d| **d >= base).count();
    if base < 2 {
        errs.push(BaseConvertError::InvalidBase(base));
        for d in dl.iter().filter(|d| **d >= base) {
            errs.push(BaseConvertError::InvalidDigit(*d, base));
        }
        rec.class("from_base:base<2");
    } else {
        // faulty digits count as zero: the most lenient reading of "denotes a value >= 2^BITS"
        // when an invalid digit is present as well (precedence is not part of the property)
        let val = horner(dl.iter().rev().map(|d| if *d >= base { 0 } else { *d }), base);
        let over = val >= pow2(B);
        for d in dl.iter().filter(|d| **d >= base) {
            errs.push(BaseConvertError::InvalidDigit(*d, base));
        }
        if over {
            errs.push(BaseConvertError::Overflow);
        }
        if errs.is_empty() {
            value = Some(val.clone());
        }
        rec.class(match (nbad > 0, over) {
            (false, false) => "from_base:expect_ok",
            (false, true) => "from_base:expect_overflow",
            (true, false) => "from_base:expect_invalid_digit",
            (true, true) => "from_base:two_faults",
        });
        rec.class_if(over && val < pow2(B) * base, "from_base:overflow_within_one_digit");
        rec.class_if(val == pow2(B), "from_base:value=2^BITS");
        rec.class_if(B > 0 && val == mask_big(B), "from_base:value=MAX");
        rec.class_if(dl.last() == Some(&0), "from_base:zero_padded");
        if dl.len() >= 2 {
            rec.nontrivial(&(&c.l[0], base));
        }
        rec.sample(|| json!({"base": base, "digits_le": dl.iter().take(8).collect::<Vec<_>>(), "ndigits": dl.len(), "value": hex(&val), "expected_errors": format!("{errs:?}")}));
    }
    let r = rec.no_panic("from_base_le", catch(|| Uint::<B, L>::from_base_le(base, dl.iter().copied())))?;
    check_result(rec, "from_base_le", &r, &value, &errs, bce_kind)?;
    let r = rec.no_panic("from_base_be", catch(|| Uint::<B, L>::from_base_be(base, dl.iter().rev().copied())))?;
    check_result(rec, "from_base_be", &r, &value, &errs, bce_kind)?;
    Ok(())
}

// ---------------------------------------------------------------------------
// Rule 3: formatting grid

trait AllFmt: fmt::Display + fmt::Debug + fmt::LowerHex + fmt::UpperHex + fmt::Octal + fmt::Binary {}
impl<T: fmt::Display + fmt::Debug + fmt::LowerHex + fmt::UpperHex + fmt::Octal + fmt::Binary> AllFmt for T {}

const FMT_WIDTHS: [usize; 5] = [1, 12, 40, 70, 300];
const TRAITS: [&str; 6] = ["fmt::Display", "fmt::Debug", "fmt::LowerHex", "fmt::UpperHex", "fmt::Octal", "fmt::Binary"];
/// "no width" marker in the rows
const NOW: usize = usize::MAX;

type Row = (&'static str, usize, String);

/// One (fill/align, #, 0) combination of one trait: the spec without a width and with the
/// runtime widths.
macro_rules! spec {
    ($v:ident, $out:ident, $ty:literal, $fa:literal, $alt:literal, $zero:literal) => {
        spec!($v, $out, $ty, $fa, "", $alt, $zero, "");
    };
    ($v:ident, $out:ident, $ty:literal, $fa:literal, $sign:literal, $alt:literal, $zero:literal, $prec:literal) => {
        $out.push((concat!("{:", $fa, $sign, $alt, $zero, $prec, $ty, "}"), NOW, format!(concat!("{:", $fa, $sign, $alt, $zero, $prec, $ty, "}"), $v)));
        for w in FMT_WIDTHS {
            $out.push((concat!("{:", $fa, $sign, $alt, $zero, "w$", $prec, $ty, "}"), w, format!(concat!("{:", $fa, $sign, $alt, $zero, "w$", $prec, $ty, "}"), $v, w = w)));
        }
    };
}

/// The whole grid of one trait (type character `$ty`): 7 fill/align/0 variants x {plain, #}, plus
/// the sign flag `+` (primitive integers print it for unsigned values too) in three positions and
/// a precision (ignored by integer formatting, but visible to a shortcut keyed on the flags).
macro_rules! grid {
    ($v:ident, $out:ident, $ty:literal) => {
        grid!(@alt $v, $out, $ty, "");
        grid!(@alt $v, $out, $ty, "#");
    };
    (@alt $v:ident, $out:ident, $ty:literal, $alt:literal) => {
        spec!($v, $out, $ty, "", $alt, "");
        spec!($v, $out, $ty, "<", $alt, "");
        spec!($v, $out, $ty, ">", $alt, "");
        spec!($v, $out, $ty, "^", $alt, "");
        spec!($v, $out, $ty, "*<", $alt, "");
        spec!($v, $out, $ty, "_^", $alt, "");
        spec!($v, $out, $ty, "", $alt, "0");
        spec!($v, $out, $ty, "", "+", $alt, "", "");
        spec!($v, $out, $ty, "_^", "+", $alt, "", "");
        spec!($v, $out, $ty, "", "+", $alt, "0", "");
        spec!($v, $out, $ty, "", "", $alt, "", ".3");
    };
}

/// All rows of trait number `t` for a value behind a trait object, so that the 792 format
/// strings are compiled once and not once per width.
#[inline(never)]
fn fmt_rows(v: &dyn AllFmt, t: usize) -> Vec<Row> {
    let mut out: Vec<Row> = Vec::with_capacity(132);
    match t {
        0 => { grid!(v, out, ""); }
        1 => { grid!(v, out, "?"); }
        2 => { grid!(v, out, "x"); }
        3 => { grid!(v, out, "X"); }
        4 => { grid!(v, out, "o"); }
        _ => { grid!(v, out, "b"); }
    }
    out
}

/// Values around the chunk boundaries of write_digits! (powers of 2^63, 2^60, 10^19), values
/// made of hand-picked chunks, and the shared biased generator.
fn strat_fmt(bits: usize) -> BoxedStrategy<Case> {
    let n = nlimbs(bits);
    if bits == 0 {
        return Just(Case::new().l(vec![]).n(0)).boxed();
    }
    let chunk_base = || prop::sample::select(vec![1u64 << 63, 1u64 << 60, 10_000_000_000_000_000_000u64]);
    let maxj = (bits / 59 + 1) as u32;
    // k * C^j + {-1, 0, +1}
    let around = (chunk_base(), 1u32..=maxj, prop_oneof![Just(1u64), Just(2), Just(3), Just(9), Just(10), any::<u64>()], 0u8..3).prop_map(
        move |(cb, j, k, d)| {
            let mut x = BigUint::from(cb).pow(j) * (k % cb).max(1);
            match d {
                0 => x -= 1u32,
                1 => {}
                _ => x += 1u32,
            }
            Case::new().l(limbs_of(&(x % pow2(bits)), n)).n(1)
        },
    );
    // sum of chunk_i * C^i with chunks from {0, 1, C-1, small, random}
    let chunks = (chunk_base(), vec((0u8..6, any::<u64>()), 1..=(maxj as usize + 1))).prop_map(move |(cb, cs)| {
        let mut x = BigUint::zero();
        for (sel, r) in cs.iter().rev() {
            let ch = match sel {
                0 => 0,
                1 => 1,
                2 => cb - 1,
                3 => r % 1000,
                4 => cb / 10 + r % 7,
                _ => r % cb,
            };
            x = x * cb + ch;
        }
        Case::new().l(limbs_of(&(x % pow2(bits)), n)).n(2)
    });
    let fixed = (0u8..8, 0u8..3).prop_map(move |(which, d)| {
        let p = |k: usize| pow2(k);
        let mut x = match which {
            0 => BigUint::zero() + 1u32,
            1 => mask_big(bits),
            2 => BigUint::from(10u32).pow(19),
            3 => BigUint::from(10u32).pow(38),
            4 => p(63),
            5 => p(126),
            6 => p(60),
            _ => p(120),
        };
        match d {
            0 => x -= 1u32,
            1 => {}
            _ => x += 1u32,
        }
        Case::new().l(limbs_of(&(x % pow2(bits)), n)).n(3)
    });
    prop_oneof![
        4 => uint(bits).prop_map(|v| Case::new().l(v).n(0)),
        3 => around,
        3 => chunks,
        1 => fixed,
    ]
    .boxed()
}

fn body_fmt<const B: usize, const L: usize>(c: &Case, rec: &mut Rec) -> R {
    let x: Uint<B, L> = mk(&c.l[0]);
    let xb = num(&x);
    let small = xb.to_u128();
    rec.class(match c.n.first() {
        Some(0) => "fmt:gen_biased",
        Some(1) => "fmt:gen_chunk_power_neighbourhood",
        Some(2) => "fmt:gen_chunk_list",
        _ => "fmt:gen_fixed_specials",
    });
    rec.class(if small.is_some() { "fmt:oracle_u128" } else { "fmt:oracle_biguint" });
    let bl = bit_len(&xb);
    rec.class(match bl {
        0 => "fmt:zero",
        1..=60 => "fmt:single_chunk_all_bases",
        61..=63 => "fmt:hex_2_chunks_only",
        _ => "fmt:multi_chunk",
    });
    if bl > 60 || (B <= 60 && bl > 0) {
        rec.nontrivial(&c.l[0]);
    }
    // chunk with leading zeros inside: the zero-padding of inner chunks matters
    {
        let d = digits_le(&xb, 10_000_000_000_000_000_000);
        rec.class_if(d.len() >= 2 && d[..d.len() - 1].iter().any(|c| *c < 1_000_000_000_000_000_000), "fmt:dec_inner_chunk_needs_zero_pad");
        let h = digits_le(&xb, 1 << 60);
        rec.class_if(h.len() >= 2 && h[..h.len() - 1].iter().any(|c| *c < 1 << 56), "fmt:hex_inner_chunk_needs_zero_pad");
        let b = digits_le(&xb, 1 << 63);
        rec.class_if(b.len() >= 2 && b[..b.len() - 1].iter().any(|c| *c < 1 << 62), "fmt:bin_inner_chunk_needs_zero_pad");
        rec.class_if(b.len() >= 2 && b[..b.len() - 1].iter().any(|c| *c < 1 << 60), "fmt:oct_inner_chunk_needs_zero_pad");
    }
    rec.sample(|| json!({"value": hex(&xb), "display": xb.to_string(), "specs": 132 * 6}));
    for (t, name) in TRAITS.iter().enumerate() {
        let got = rec.no_panic(name, catch(|| fmt_rows(&x, t)))?;
        let exp = match small {
            Some(u) => fmt_rows(&u, t),
            None => fmt_rows(&xb, t),
        };
        for (i, (g, e)) in got.iter().zip(exp.iter()).enumerate() {
            rec.eval(1);
            if g.2 != e.2 {
                let class = if i == 0 { "digits_wrong" } else { "flags_or_padding_wrong" };
                let w = if g.1 == NOW { "none".to_string() } else { g.1.to_string() };
                rec.fail(name, class, format!("value {} spec {} width {}: got {:?} expected {:?}", hex(&xb), g.0, w, g.2, e.2))?;
            }
        }
    }
    // to_string goes through Display
    let s = rec.no_panic("to_string", catch(|| x.to_string()))?;
    rec.eqc("to_string", "digits_wrong", &s, &xb.to_str_radix(10))?;
    Ok(())
}

// ---------------------------------------------------------------------------
// Rules 4/5: parsing

const ALPHA36: &[u8] = b"0123456789abcdefghijklmnopqrstuvwxyz";
/// standard base-64 value order (the doc comment promises compatibility with the common
/// base64 variants): A-Z = 0..25, a-z = 26..51, 0-9 = 52..61, then {+,-} = 62, {/,',',_} = 63
const ALPHA64: &[u8] = b"ABCDEFGHIJKLMNOPQRSTUVWXYZabcdefghijklmnopqrstuvwxyz0123456789";

/// characters inserted as "invalid" (some are valid in one of the two alphabets; the body
/// classifies them by the reference alphabet, the generator does not care)
const ODD_CHARS: &[char] = &[
    ' ', '+', '-', '/', ',', '=', '.', ':', '@', '[', '`', '{', '~', '\0', '\t', '\n', '\r', '*', '_', '\u{7f}', 'é', 'ß', '٣',
    '０', 'Ａ', '\u{212a}', '\u{17f}', '\u{200b}', '😀', '\u{ff10}', '\u{661}',
];

#[derive(Clone, Copy, PartialEq, Debug)]
enum Ch {
    Digit(u64),
    /// `_` for radix <= 36: documented as ignored
    Ignored,
    /// `=`, `\r`, `\n` for radix > 36: ignored by the code, not mentioned in the docs; the
    /// check accepts both "ignored" and InvalidDigit(c)
    Lenient,
    Invalid,
}

/// The reference alphabets, written from the doc comment of from_str_radix and the
/// property statement (tables, not the library's match arms).
fn classify(c: char, radix: u64) -> Ch {
    if !c.is_ascii() {
        return Ch::Invalid;
    }
    let b = c as u8;
    if radix <= 36 {
        if b == b'_' {
            return Ch::Ignored;
        }
        match ALPHA36.iter().position(|a| *a == b.to_ascii_lowercase()) {
            Some(d) => Ch::Digit(d as u64),
            None => Ch::Invalid,
        }
    } else {
        match b {
            b'+' | b'-' => Ch::Digit(62),
            b'/' | b',' | b'_' => Ch::Digit(63),
            b'=' | b'\r' | b'\n' => Ch::Lenient,
            _ => match ALPHA64.iter().position(|a| *a == b) {
                Some(d) => Ch::Digit(d as u64),
                None => Ch::Invalid,
            },
        }
    }
}

struct PExp {
    value: Option<BigUint>,
    errs: Vec<ParseError>,
    /// additionally acceptable errors (undocumented ignorable characters)
    lenient: Vec<ParseError>,
    ndigits: usize,
    ninvalid: usize,
    nbad_digit: usize,
    nignored: usize,
    over: bool,
    /// the lower-case letters g..z that are valid digits of the base-64 alphabet (known defect #7)
    b64_g_to_z: Vec<char>,
}

fn parse_oracle(s: &str, radix: u64, bits: usize) -> PExp {
    let mut p = PExp { value: None, errs: vec![], lenient: vec![], ndigits: 0, ninvalid: 0, nbad_digit: 0, nignored: 0, over: false, b64_g_to_z: vec![] };
    if radix > 64 {
        p.errs.push(ParseError::InvalidRadix(radix));
        // count digits by the <= 36 alphabet only for the statistics
        p.ndigits = s.chars().filter(|c| matches!(classify(*c, 36), Ch::Digit(_))).count();
        return p;
    }
    let mut digits: Vec<u64> = vec![];
    for c in s.chars() {
        match classify(c, radix) {
            Ch::Digit(d) => {
                p.ndigits += 1;
                if radix > 36 && ('g'..='z').contains(&c) {
                    p.b64_g_to_z.push(c);
                }
                if d >= radix {
                    p.nbad_digit += 1;
                    p.errs.push(ParseError::BaseConvertError(BaseConvertError::InvalidDigit(d, radix)));
                    digits.push(0);
                } else {
                    digits.push(d);
                }
            }
            Ch::Ignored => p.nignored += 1,
            Ch::Lenient => {
                p.nignored += 1;
                p.lenient.push(ParseError::InvalidDigit(c));
            }
            Ch::Invalid => {
                p.ninvalid += 1;
                p.errs.push(ParseError::InvalidDigit(c));
            }
        }
    }
    if radix < 2 {
        p.errs.push(ParseError::BaseConvertError(BaseConvertError::InvalidBase(radix)));
        return p;
    }
    let val = horner(digits.iter().copied(), radix);
    if val >= pow2(bits) {
        p.over = true;
        p.errs.push(ParseError::BaseConvertError(BaseConvertError::Overflow));
    }
    if p.errs.is_empty() {
        p.value = Some(val);
    }
    p
}

/// Compare one parse result with the oracle. `check` is the API name.
fn check_parse<const B: usize, const L: usize>(rec: &mut Rec, check: &str, s: &str, radix: u64, got: &Result<Uint<B, L>, ParseError>, p: &PExp) -> R {
    // known defect #7 gets its own class: a lower-case letter g..z that is a digit of the
    // documented base-64 alphabet is rejected as an invalid character
    if let Err(ParseError::InvalidDigit(c)) = got {
        if p.b64_g_to_z.contains(c) {
            rec.eval(1);
            return rec.fail(
                "from_str_radix",
                "b64_lowercase_g_to_z_rejected",
                format!("{check}({s:?}, {radix}) = Err(InvalidDigit({c:?})) but {c:?} is digit {} of the base-64 alphabet", 26 + (*c as u64 - 'a' as u64)),
            );
        }
    }
    if radix <= 64 && p.ndigits == 0 {
        // strings without any digit: the docs are silent (0 or an error); no panic, an invalid
        // character must still be an error, and a value, if any, can only be zero
        rec.eval(1);
        return match got {
            Ok(v) if p.ninvalid > 0 => rec.fail(check, "accepted:invalid_char", format!("{check}({s:?}, {radix}) = Ok({}) but the string has a non-digit", hex(&num(v)))),
            Ok(v) if !num(v).is_zero() => rec.fail(check, "value_wrong", format!("{check}({s:?}, {radix}) = Ok({}) for a string without digits", hex(&num(v)))),
            _ => Ok(()),
        };
    }
    if let Err(e) = got {
        if p.lenient.contains(e) {
            rec.eval(1);
            return Ok(());
        }
    }
    let r = check_result(rec, check, got, &p.value, &p.errs, pe_kind);
    match r {
        Err(mut f) => {
            f.msg = format!("{check}({s:?}, {radix}): {}", f.msg);
            Err(f)
        }
        ok => ok,
    }
}

/// Deterministic stream of small choices taken from the generated random bytes.
struct Dice<'a> {
    b: &'a [u8],
    i: usize,
}
impl Dice<'_> {
    fn next(&mut self) -> u8 {
        if self.b.is_empty() {
            return 0;
        }
        let x = self.b[self.i % self.b.len()];
        self.i += 1;
        x
    }
}

/// Render big-endian digits (each < 36 resp. < 64) in the alphabet of `radix`.
/// style: 0 plain, 1 random case, 2 random case + `_`, 3 upper case, 4 (radix > 36) also
/// sprinkle the undocumented ignorable characters.
fn render(digits_be: &[u64], radix: u64, style: u8, dice: &mut Dice) -> String {
    let mut s = String::new();
    for d in digits_be {
        let r = dice.next();
        if radix <= 36 {
            if style == 2 && r & 0xe0 == 0xe0 {
                s.push('_');
            }
            let mut ch = ALPHA36[*d as usize] as char;
            if (style == 1 || style == 2) && r & 1 == 1 || style == 3 {
                ch = ch.to_ascii_uppercase();
            }
            s.push(ch);
            if style == 2 && r & 0x0e == 0x0e {
                s.push('_');
            }
        } else {
            let ch = match *d {
                62 => [b'+', b'-'][(r & 1) as usize],
                63 => [b'/', b',', b'_'][(r % 3) as usize],
                d => ALPHA64[d as usize],
            } as char;
            s.push(ch);
            if style == 4 && r >> 5 == 7 {
                s.push(['=', '\r', '\n'][(r % 3) as usize]);
            }
        }
    }
    s
}

/// Insert the character `c` before the `pos`-th character of `s` (pos taken modulo len+1).
fn insert_char(s: &str, pos: u64, c: char) -> String {
    let n = s.chars().count() as u64 + 1;
    let at = (pos % n) as usize;
    let mut out = String::new();
    for (i, ch) in s.chars().enumerate() {
        if i == at {
            out.push(c);
        }
        out.push(ch);
    }
    if at as u64 == n - 1 {
        out.push(c);
    }
    out
}

/// Build the text of a number for `radix` (any u64): digits by `kind`, optional leading zeros,
/// optional digit >= radix, optional invalid character.
#[allow(clippy::too_many_arguments)]
fn build_text(bits: usize, v: &[u64], radix: u64, kind: u8, e: u64, style: u8, mu: u8, pos: u64, sanitize: bool, rnd: &[u8]) -> String {
    let mut dice = Dice { b: rnd, i: 0 };
    // the base the digits are computed in
    let db = if (2..=64).contains(&radix) { radix } else { 10 };
    let alph = if radix <= 36 || radix > 64 { 36u64 } else { 64u64 };
    // a fault is mostly injected into an otherwise valid text, so that the expected error is exact
    let kind = if mu & 3 != 0 && (e >> 40) % 4 != 0 { kind % 3 } else { kind };
    let mut d = pick_digits(bits, v, db, kind, e);
    d.reverse(); // big endian
    if radix < 2 && (e >> 44) & 1 == 0 {
        // all-zero text: at radix 1 the only fault is the base itself
        d = vec![0; 1 + d.len() % 4];
    }
    if alph == 64 && sanitize {
        // keep the digits outside 32..=51 (letters g..z) so that the known base-64 defect does
        // not shadow everything else at radix > 36
        for x in d.iter_mut() {
            if (32..=51).contains(x) {
                *x -= 26;
            }
        }
    }
    // zero is mostly written "0", sometimes as the empty text
    if d.is_empty() && (e >> 45) & 3 != 0 {
        d.push(0);
    }
    // leading zeros
    if mu & 8 != 0 {
        let k = 1 + (e >> 8) % 3;
        for _ in 0..k {
            d.insert(0, 0);
        }
    }
    // a digit >= radix (only possible when the alphabet is larger than the radix)
    if mu & 1 != 0 && db < alph {
        let bd = db + (e >> 16) % (alph - db);
        if d.is_empty() {
            d.push(bd);
        } else {
            let i = (pos % d.len() as u64) as usize;
            d[i] = bd;
        }
    }
    let mut s = render(&d, if radix > 64 { 36 } else { radix }, style, &mut dice);
    // an odd character
    if mu & 2 != 0 {
        let c = ODD_CHARS[(dice.next() as usize) % ODD_CHARS.len()];
        s = insert_char(&s, pos >> 7, c);
    }
    s
}

fn radix_strat() -> BoxedStrategy<u64> {
    prop_oneof![
        6 => 2u64..=36,
        4 => prop::sample::select(vec![2u64, 8, 10, 16, 36]),
        6 => 37u64..=64,
        2 => Just(64u64),
        1 => prop_oneof![Just(0u64), Just(1u64)],
        1 => prop::sample::select(vec![65u64, 66, 100, 256, 1 << 32, u64::MAX]),
    ]
    .boxed()
}

fn strat_parse(bits: usize) -> BoxedStrategy<Case> {
    // mutation mask: bit0 digit >= radix, bit1 odd character, bit3 leading zeros
    let mu = prop_oneof![8 => Just(0u8), 2 => Just(1u8), 4 => Just(2u8), 2 => Just(8u8), 1 => Just(3u8), 1 => Just(10u8), 1 => Just(9u8)];
    (uint(bits), radix_strat(), kind_strat(), any::<u64>(), 0u8..5, mu, any::<u64>(), prop::bool::weighted(0.6), vec(any::<u8>(), 40))
        .prop_map(move |(v, radix, kind, e, style, mu, pos, sanitize, rnd)| {
            let s = build_text(bits, &v, radix, kind, e, style, mu, pos, sanitize, &rnd);
            Case::new().s(s).n(radix).n(kind as u64)
        })
        .boxed()
}

fn parse_classes(rec: &mut Rec, rule: &'static str, s: &str, radix: u64, p: &PExp) {
    macro_rules! cl {
        ($a:literal, $b:literal) => {
            if rule == "parse" { $a } else { $b }
        };
    }
    rec.class(match radix {
        0 | 1 => cl!("parse:radix<2", "from_str:radix<2"),
        2..=36 => cl!("parse:radix_2..36", "from_str:radix_2..36"),
        37..=64 => cl!("parse:radix_37..64", "from_str:radix_37..64"),
        _ => cl!("parse:radix>64", "from_str:radix>64"),
    });
    if radix > 64 {
        return;
    }
    rec.class(match (p.ndigits, p.ninvalid > 0, p.nbad_digit > 0, p.over) {
        (0, _, _, _) => cl!("parse:no_digit_no_panic_only", "from_str:no_digit_no_panic_only"),
        (_, false, false, false) if radix < 2 => cl!("parse:expect_invalid_base", "from_str:expect_invalid_base"),
        (_, false, false, false) => cl!("parse:expect_ok", "from_str:expect_ok"),
        (_, true, false, false) => cl!("parse:expect_invalid_char", "from_str:expect_invalid_char"),
        (_, false, true, false) => cl!("parse:expect_digit_ge_radix", "from_str:expect_digit_ge_radix"),
        (_, false, false, true) => cl!("parse:expect_overflow", "from_str:expect_overflow"),
        _ => cl!("parse:several_faults", "from_str:several_faults"),
    });
    let lower = s.chars().any(|c| c.is_ascii_lowercase());
    let upper = s.chars().any(|c| c.is_ascii_uppercase());
    rec.class_if(lower && upper && radix <= 36, cl!("parse:mixed_case", "from_str:mixed_case"));
    rec.class_if(p.nignored > 0 && radix <= 36, cl!("parse:underscore_ignored", "from_str:underscore_ignored"));
    rec.class_if(!p.lenient.is_empty(), cl!("parse:b64_undocumented_ignorable(lenient)", "from_str:b64_undocumented_ignorable(lenient)"));
    rec.class_if(!s.is_ascii(), cl!("parse:non_ascii", "from_str:non_ascii"));
    rec.class_if(!p.b64_g_to_z.is_empty(), cl!("parse:b64_has_g_to_z", "from_str:b64_has_g_to_z"));
    rec.class_if(radix > 36 && s.chars().any(|c| "+-/,_".contains(c)), cl!("parse:b64_symbol_62_63", "from_str:b64_symbol_62_63"));
}

fn parse_nontrivial(s: &str, radix: u64, p: &PExp) -> bool {
    if radix > 64 {
        return false;
    }
    let lower = s.chars().any(|c| c.is_ascii_lowercase());
    let upper = s.chars().any(|c| c.is_ascii_uppercase());
    p.ndigits >= 2 && ((lower && upper) || p.nignored > 0 || !p.errs.is_empty() || radix > 36)
}

fn body_parse<const B: usize, const L: usize>(c: &Case, rec: &mut Rec) -> R {
    let s = &c.s[0];
    let radix = c.n[0];
    let p = parse_oracle(s, radix, B);
    parse_classes(rec, "parse", s, radix, &p);
    if parse_nontrivial(s, radix, &p) {
        rec.nontrivial(&(s, radix));
    }
    rec.sample(|| json!({"s": s, "radix": radix, "expected_value": p.value.as_ref().map(hex), "expected_errors": format!("{:?}", p.errs)}));
    let got = rec.no_panic("from_str_radix", catch(|| Uint::<B, L>::from_str_radix(s, radix)))?;
    check_parse(rec, "from_str_radix", s, radix, &got, &p)
}

const PREFIXES: [(&str, u64); 7] = [("", 10), ("0x", 16), ("0X", 16), ("0o", 8), ("0O", 8), ("0b", 2), ("0B", 2)];

const ODD_FROM_STR: &[&str] = &[
    "", "0", "0x", "0X", "0b", "0o", "0_x1", "0é1", "é0", "é0x1", "x1", "00x1", "0x0x1", "0xg", "0b2", "0o8", "0b_1", "0x_f_", "１２", "0\u{661}", "0b1é",
    "0Xff", "0O7", "0B1", " 1", "1 ", "+1", "-1", "0x+1", "1_000", "_", "__", "0x_", "0b\n1", "a", "0xA_b",
];

fn strat_from_str(bits: usize) -> BoxedStrategy<Case> {
    let mu = prop_oneof![8 => Just(0u8), 2 => Just(1u8), 4 => Just(2u8), 2 => Just(8u8), 1 => Just(3u8), 1 => Just(10u8)];
    let built = (uint(bits), 0usize..7, 0u8..10, kind_strat(), any::<u64>(), 0u8..4, mu, any::<u64>(), vec(any::<u8>(), 40)).prop_map(
        move |(v, pi, mism, kind, e, style, mu, pos, rnd)| {
            let (prefix, pr) = PREFIXES[pi];
            // mostly the matching radix, sometimes digits of a different one
            let r = if mism == 0 { [2u64, 8, 10, 16, 36][(e % 5) as usize] } else { pr };
            let body = build_text(bits, &v, r, kind, e, style, mu, pos, false, &rnd);
            Case::new().s(format!("{prefix}{body}")).n(1)
        },
    );
    let odd = prop::sample::select(ODD_FROM_STR.to_vec()).prop_map(|s| Case::new().s(s.to_string()).n(0));
    prop_oneof![12 => built, 1 => odd].boxed()
}

fn body_from_str<const B: usize, const L: usize>(c: &Case, rec: &mut Rec) -> R {
    let s = &c.s[0];
    // documented prefixes (CHANGELOG: decimal, hex, octal and binary; property: 0x 0X 0o 0O 0b 0B)
    let (rest, radix, pfx) = PREFIXES[1..]
        .iter()
        .find_map(|(p, r)| s.strip_prefix(p).map(|rest| (rest, *r, *p)))
        .unwrap_or((s.as_str(), 10, ""));
    rec.class(match pfx {
        "" => "from_str:no_prefix",
        "0x" | "0X" => "from_str:prefix_hex",
        "0o" | "0O" => "from_str:prefix_oct",
        _ => "from_str:prefix_bin",
    });
    rec.class_if(matches!(pfx, "0X" | "0O" | "0B"), "from_str:prefix_upper_case");
    let p = parse_oracle(rest, radix, B);
    parse_classes(rec, "from_str", rest, radix, &p);
    if parse_nontrivial(rest, radix, &p) {
        rec.nontrivial(s);
    }
    rec.sample(|| json!({"s": s, "radix": radix, "expected_value": p.value.as_ref().map(hex), "expected_errors": format!("{:?}", p.errs)}));
    let got = rec.no_panic("from_str", catch(|| Uint::<B, L>::from_str(s)))?;
    check_parse(rec, "from_str", s, radix, &got, &p)?;
    // str::parse is the same entry point
    let got2 = rec.no_panic("from_str", catch(|| s.parse::<Uint<B, L>>()))?;
    rec.eqc("from_str", "parse_differs_from_from_str", &got2, &got)
}

// ---------------------------------------------------------------------------
// Oracle self-tests (a failure here is a harness error, never a violation)

fn self_test() {
    // 1. BigUint formatting == u128 formatting over the whole grid
    let mut vals: Vec<u128> = vec![0, 1, 9, 10, u64::MAX as u128, 1 << 64, u128::MAX, u128::MAX - 1, 10u128.pow(19), 10u128.pow(19) - 1, 10u128.pow(38), 10u128.pow(38) + 1, 1 << 63, 1 << 126, (1 << 60) + 1, (1 << 120) - 1, 0xdead_beef_0000_0000_0000_0001];
    let mut z: u128 = 0x9E37_79B9_7F4A_7C15_F39C_C060_5CED_C835;
    for i in 0..40 {
        z = z.wrapping_mul(0xDA94_2042_E4DD_58B5).wrapping_add(0x1234_5678_9abc_def1);
        vals.push(z >> (i * 3));
    }
    for v in &vals {
        let b = BigUint::from(*v);
        for t in 0..6 {
            let a = fmt_rows(v, t);
            let c = fmt_rows(&b, t);
            if a.len() != 132 || a != c {
                let bad = a.iter().zip(c.iter()).find(|(x, y)| x != y);
                harness_error(&format!("BigUint formatting differs from u128 formatting for {v} trait {}: {bad:?}", TRAITS[t]));
            }
        }
        // 2. digit oracle vs u128 arithmetic and num-bigint's own radix conversion
        for base in [2u64, 3, 7, 10, 36, 64, 255, 256, 1 << 32, 1 << 63, u64::MAX] {
            let d = digits_le(&b, base);
            let mut x = *v;
            let mut e = vec![];
            while x != 0 {
                e.push((x % base as u128) as u64);
                x /= base as u128;
            }
            if d != e {
                harness_error(&format!("digits_le({v}, {base}) wrong"));
            }
            if horner(d.iter().rev().copied(), base) != b {
                harness_error(&format!("horner(digits_le({v}, {base})) wrong"));
            }
            if base <= 256 && !b.is_zero() {
                let r: Vec<u64> = b.to_radix_le(base as u32).iter().map(|x| *x as u64).collect();
                if r != d {
                    harness_error(&format!("digits_le({v}, {base}) differs from to_radix_le"));
                }
            }
        }
        // 3. reference parser vs std for radix 2..=36
        for radix in 2u32..=36 {
            let s = b.to_str_radix(radix);
            for s in [s.clone(), s.to_ascii_uppercase()] {
                let p = parse_oracle(&s, radix as u64, 128);
                if p.value != Some(b.clone()) || u128::from_str_radix(&s, radix) != Ok(*v) {
                    harness_error(&format!("reference parser wrong on {s:?} radix {radix}"));
                }
            }
        }
    }
    // 4. the alphabets against independent definitions
    for c in (0u32..0x250).filter_map(char::from_u32).chain(ODD_CHARS.iter().copied()) {
        let exp = if c == '_' {
            Ch::Ignored
        } else if c.is_ascii() {
            c.to_digit(36).map_or(Ch::Invalid, |d| Ch::Digit(d as u64))
        } else {
            Ch::Invalid
        };
        if classify(c, 36) != exp || classify(c, 2) != exp {
            harness_error(&format!("radix<=36 alphabet wrong at {c:?}"));
        }
    }
    let std64 = "ABCDEFGHIJKLMNOPQRSTUVWXYZabcdefghijklmnopqrstuvwxyz0123456789+/";
    let url64 = "ABCDEFGHIJKLMNOPQRSTUVWXYZabcdefghijklmnopqrstuvwxyz0123456789-_";
    let imap64 = "ABCDEFGHIJKLMNOPQRSTUVWXYZabcdefghijklmnopqrstuvwxyz0123456789+,";
    for a in [std64, url64, imap64] {
        for (i, c) in a.chars().enumerate() {
            if classify(c, 64) != Ch::Digit(i as u64) || classify(c, 37) != Ch::Digit(i as u64) {
                harness_error(&format!("base-64 alphabet wrong at {c:?}"));
            }
        }
    }
    for c in (0u32..0x250).filter_map(char::from_u32) {
        let known = std64.contains(c) || url64.contains(c) || imap64.contains(c);
        let cl = classify(c, 64);
        let ok = match cl {
            Ch::Digit(_) => known,
            Ch::Lenient => "=\r\n".contains(c),
            Ch::Invalid => !known && !"=\r\n".contains(c),
            Ch::Ignored => false,
        };
        if !ok {
            harness_error(&format!("base-64 classification wrong at {c:?}: {cl:?}"));
        }
    }
    // 5. the text builder produces what the reference parser reads back
    for (i, v) in vals.iter().enumerate() {
        let l = [*v as u64, (*v >> 64) as u64];
        for radix in [2u64, 10, 16, 36, 37, 50, 64] {
            for style in 0..5u8 {
                let rnd: Vec<u8> = (0..40).map(|k| (z >> (k % 100)) as u8 ^ (i as u8).wrapping_mul(37) ^ k as u8).collect();
                let s = build_text(128, &l, radix, 0, 0, style, 8, 0, false, &rnd);
                let p = parse_oracle(&s, radix, 128);
                if p.value != Some(BigUint::from(*v)) && !(*v == 0 && p.ndigits > 0 && p.value == Some(BigUint::zero())) {
                    harness_error(&format!("build_text/parse_oracle disagree: {s:?} radix {radix} value {v}: {:?} {:?}", p.value, p.errs));
                }
            }
        }
    }
}

fn main() {
    let spec = PropSpec {
        id: "C09",
        rule_text: "to_base: (value, base) with bases 2,3,7,10,16,36,64,255,256,2^32,2^63,10^19,2^64-1 + boundary-alphabet random + 2..=70, oracle = repeated BigUint divmod, round trip through from_base_le/be incl. zero padding, base<2 must panic. from_base: digit lists of v, 2^BITS-1, 2^BITS(+k), v*b+d, MAX's digits plus one extra digit, optionally one digit >= base, zero padding, base 0/1; oracle = Horner in BigUint or the documented error (any applicable error when two faults coincide). fmt: 6 traits x {plain,#} x {no width,1,12,40,70,300 via w$} x {default,<,>,^,*<,_^,0, +, _^+, +0, .3} = 792 specs per value vs u128 formatting (<= u128::MAX) / BigUint formatting (above, self-tested against u128); values: biased random, k*C^j+-1 and chunk lists for the chunk bases C in {2^63,2^60,10^19}, fixed specials. parse / from_str: strings rendered from digit lists in the documented alphabets (random case and _ for radix<=36; A-Za-z0-9 {+-} {/,_} for 37..=64), leading zeros, a digit >= radix, an inserted odd character (ASCII neighbours of the alphabet ranges, control, non-ASCII digits and letters), radix 0..=65 and larger; FromStr with the 6 prefixes and none. Non-trivial: >= 2 digits for digit conversion; multi-chunk value (>= 2^60; any non-zero value for BITS <= 60) under the padded grid; parse strings with >= 2 digits and (mixed case | ignorable character | expected error | radix > 36).",
        assumptions: vec![
            "num-bigint arithmetic and radix conversion are correct (oracle; digit/Horner helpers self-tested against u128)",
            "the primitive u128 formatter is the reference; BigUint's pad_integral formatter is self-tested against it over the whole grid at start-up",
            "base-64 digit values follow the common base64 order A-Z,a-z,0-9,{+-},{/,_} (doc comment: 'compatible with all the common base64 variants'); the doc's listing 'a-z, A-Z' is read as an enumeration, not as value order",
            "`=`, CR, LF at radix 37..=64 are not documented: both 'ignored' and InvalidDigit(c) are accepted",
            "strings without any digit: no panic, Err if an invalid character is present, a value can only be 0",
            "error precedence when two faults coincide is not checked; `+` and `x?` format flags are not in the grid",
            "x86-64 little-endian target only",
        ],
        thorough_mult: 20,
    };
    self_test();
    main_with(
        spec,
        |jobs, _| {
            jobs.shard_size = 1000;
            w_all_wide!(reg_gen!(jobs, "to_base", 3000, strat_to_base, body_to_base;));
            w_all_wide!(reg_gen!(jobs, "from_base", 4000, strat_from_base, body_from_base;));
            reg_gen!(jobs, "to_base", 200, strat_to_base, body_to_base; [4160]);
            reg_gen!(jobs, "from_base", 200, strat_from_base, body_from_base; [4160]);
            reg_gen!(jobs, "fmt", 500, strat_fmt, body_fmt; [0, 1, 2, 3, 7, 8, 16, 60, 63, 64, 65, 96, 127, 128, 129, 190, 192, 255, 256, 257, 320, 384, 512, 1024]);
            w_all_wide!(reg_gen!(jobs, "parse", 6000, strat_parse, body_parse;));
            w_all!(reg_gen!(jobs, "from_str", 3000, strat_from_str, body_from_str;));
        },
        |_| Map::new(),
    );
}
