//! C01 — add / sub / neg exact in the ring mod 2^BITS (DESIGN 4, C01).

use proptest::collection::vec;
use proptest::prelude::*;
use ruint::Uint;
use vcore::big::*;
use vcore::gen::*;
use vcore::*;

fn enum_pairs(bits: usize, f: &mut dyn FnMut(&Case) -> R) -> R {
    let m = 1u64 << bits;
    for a in 0..m {
        for b in 0..m {
            let (la, lb) = if bits == 0 { (vec![], vec![]) } else { (vec![a], vec![b]) };
            // the Sum list: a, b, a (three terms)
            f(&Case::new().l(la.clone()).l(lb.clone()).l(la).l(lb).n(9))?;
        }
    }
    Ok(())
}

/// all pairs of values whose limbs come from a small alphabet (complete enumeration)
fn enum_alphabet_pairs(bits: usize, f: &mut dyn FnMut(&Case) -> R) -> R {
    let alpha: &[u64] = if nlimbs(bits) <= 3 { &LIMB_ALPHABET8 } else { &LIMB_ALPHABET5 };
    let vals = alphabet_values(bits, alpha);
    for la in &vals {
        for lb in &vals {
            let (la, lb) = (la.clone(), lb.clone());
            f(&Case::new().l(la.clone()).l(lb.clone()).l(la).l(lb).n(9))?;
        }
    }
    Ok(())
}

fn strat(bits: usize) -> BoxedStrategy<Case> {
    let n = nlimbs(bits);
    let list = vec(uint(bits), 0..6);
    let indep = (uint(bits), uint(bits)).prop_map(|(a, b)| (a, b, 0u64));
    // b = 2^BITS - a + delta  (sum lands within +-2 of the modulus)
    let complement = (uint(bits), 0u8..5).prop_map(move |(a, k)| {
        let m = pow2(bits);
        let ab = big(&a);
        let delta: i32 = k as i32 - 2;
        let t = (&m * 4u32 - &ab + BigUint::from((delta + 2) as u32) - 2u32) % &m;
        (a, limbs_of(&t, n), 1u64)
    });
    // b = a + delta  (difference within +-2 of zero)
    let near = (uint(bits), 0u8..5).prop_map(move |(a, k)| {
        let m = pow2(bits);
        let t = (big(&a) + &m * 4u32 + BigUint::from(k as u32) - 2u32) % &m;
        (a, limbs_of(&t, n), 2u64)
    });
    (prop_oneof![4 => indep, 3 => complement, 3 => near], list)
        .prop_map(|((a, b, k), list)| {
            let mut c = Case::new().l(a).l(b);
            for x in list {
                c = c.l(x);
            }
            c.n(k)
        })
        .boxed()
}

/// Does adding/subtracting limb-wise produce a carry/borrow out of any limb below
/// the top one?
fn inner_carry(a: &[u64], b: &[u64], sub: bool) -> bool {
    let mut c = false;
    for i in 0..a.len().saturating_sub(1) {
        let (x, c1) = if sub { a[i].overflowing_sub(b[i]) } else { a[i].overflowing_add(b[i]) };
        let (_, c2) = if sub { x.overflowing_sub(c as u64) } else { x.overflowing_add(c as u64) };
        c = c1 | c2;
        if c {
            return true;
        }
    }
    false
}

fn body<const B: usize, const L: usize>(c: &Case, rec: &mut Rec) -> R {
    type U<const B: usize, const L: usize> = Uint<B, L>;
    let a: U<B, L> = mk(&c.l[0]);
    let b: U<B, L> = mk(&c.l[1]);
    let (ab, bb) = (num(&a), num(&b));
    let m = pow2(B);
    let max: U<B, L> = mkb(&(&m - 1u32));
    let zero: U<B, L> = mk(&[]);
    rec.class(match c.n.last() { Some(0) => "gen:independent", Some(1) => "gen:complement", Some(2) => "gen:near", _ => "gen:enum" });

    // ---- add
    let s = &ab + &bb;
    let add_of = s >= m;
    let add_w: U<B, L> = mkb(&(&s % &m));
    // ---- sub
    let sub_of = ab < bb;
    let sub_w: U<B, L> = mkb(&((&ab + &m - &bb) % &m));
    // ---- neg
    let neg_of = !ab.is_zero();
    let neg_w: U<B, L> = mkb(&((&m - &ab) % &m));

    let la = a.as_limbs();
    let lb = b.as_limbs();
    let carry_in = inner_carry(la, lb, false);
    let borrow_in = inner_carry(la, lb, true);
    let premask = L > 0 && B % 64 != 0 && {
        // unreduced top limb exceeds MASK while no carry out of the array
        let t = (&s >> (64 * (L - 1))).to_u128().unwrap_or(u128::MAX);
        t > ruint::mask(B) as u128 && t <= u64::MAX as u128
    };
    rec.class_if(add_of, "add_overflow");
    rec.class_if(sub_of, "sub_overflow");
    rec.class_if(carry_in, "inner_carry");
    rec.class_if(borrow_in, "inner_borrow");
    rec.class_if(premask, "overflow_through_mask_only");
    if add_of || sub_of || carry_in || borrow_in || premask {
        rec.nontrivial(&(&c.l[0], &c.l[1]));
    }
    rec.sample(|| json!({"a": hex(&ab), "b": hex(&bb), "a+b": hex(&s), "add_overflow": add_of, "sub_overflow": sub_of}));

    let r = rec.no_panic("overflowing_add", catch(|| a.overflowing_add(b)))?;
    rec.eqc("overflowing_add", "value_wrong", &r.0, &add_w)?;
    rec.eqc("overflowing_add", if add_of { "flag_false_expected_true" } else { "flag_true_expected_false" }, &r.1, &add_of)?;
    chk!(rec, "wrapping_add", a.wrapping_add(b), add_w);
    chk!(rec, "checked_add", a.checked_add(b), if add_of { None } else { Some(add_w) });
    chk!(rec, "saturating_add", a.saturating_add(b), if add_of { max } else { add_w });
    chk!(rec, "add", a + b, add_w);
    chk!(rec, "add_assign", { let mut x = a; x += b; x }, add_w);
    // the six operator shapes are separate impls (value/reference operands, assign forms)
    chk!(rec, "add(&,val)", &a + b, add_w);
    chk!(rec, "add(val,&)", a + &b, add_w);
    chk!(rec, "add(&,&)", &a + &b, add_w);
    chk!(rec, "add_assign(&)", { let mut x = a; x += &b; x }, add_w);

    let r = rec.no_panic("overflowing_sub", catch(|| a.overflowing_sub(b)))?;
    rec.eqc("overflowing_sub", "value_wrong", &r.0, &sub_w)?;
    rec.eqc("overflowing_sub", if sub_of { "flag_false_expected_true" } else { "flag_true_expected_false" }, &r.1, &sub_of)?;
    chk!(rec, "wrapping_sub", a.wrapping_sub(b), sub_w);
    chk!(rec, "checked_sub", a.checked_sub(b), if sub_of { None } else { Some(sub_w) });
    chk!(rec, "saturating_sub", a.saturating_sub(b), if sub_of { zero } else { sub_w });
    chk!(rec, "sub", a - b, sub_w);
    chk!(rec, "sub_assign", { let mut x = a; x -= b; x }, sub_w);
    chk!(rec, "sub(&,val)", &a - b, sub_w);
    chk!(rec, "sub(val,&)", a - &b, sub_w);
    chk!(rec, "sub(&,&)", &a - &b, sub_w);
    chk!(rec, "sub_assign(&)", { let mut x = a; x -= &b; x }, sub_w);

    let r = rec.no_panic("overflowing_neg", catch(|| a.overflowing_neg()))?;
    rec.eqc("overflowing_neg", "value_wrong", &r.0, &neg_w)?;
    rec.eqc("overflowing_neg", "flag_wrong", &r.1, &neg_of)?;
    chk!(rec, "wrapping_neg", a.wrapping_neg(), neg_w);
    chk!(rec, "checked_neg", a.checked_neg(), if neg_of { None } else { Some(neg_w) });
    chk!(rec, "neg", -a, neg_w);
    chk!(rec, "neg_ref", -&a, neg_w);

    let ad: U<B, L> = mkb(&(if ab >= bb { &ab - &bb } else { &bb - &ab }));
    chk!(rec, "abs_diff", a.abs_diff(b), ad);
    chk!(rec, "abs_diff", b.abs_diff(a), ad);

    // ---- iterator sums over the whole list (a, b, extra...)
    let items: Vec<U<B, L>> = c.l.iter().map(|v| mk::<B, L>(v)).collect();
    let total = items.iter().fold(BigUint::zero(), |acc, x| acc + num(x));
    let sum_e: U<B, L> = mkb(&(&total % &m));
    rec.class(match items.len() { 2 => "sum_len=2", 3 => "sum_len=3", 4 => "sum_len=4", _ => "sum_len>=5" });
    rec.class_if(total >= m, "sum_wraps");
    chk!(rec, "sum_by_value", items.iter().copied().sum::<U<B, L>>(), sum_e);
    chk!(rec, "sum_by_ref", items.iter().sum::<U<B, L>>(), sum_e);
    // iterator shapes whose size_hint is not exact (lower bound 0), chained and owned iterators
    chk!(rec, "sum(filter)", items.iter().filter(|_| true).sum::<U<B, L>>(), sum_e);
    chk!(rec, "sum(from_fn)", { let mut it = items.iter().copied(); core::iter::from_fn(move || it.next()).sum::<U<B, L>>() }, sum_e);
    chk!(rec, "sum(chain)", items[..1].iter().chain(items[1..].iter()).sum::<U<B, L>>(), sum_e);
    chk!(rec, "sum(into_iter)", items.clone().into_iter().sum::<U<B, L>>(), sum_e);
    chk!(rec, "sum(rev)", items.iter().rev().sum::<U<B, L>>(), sum_e);
    let empty: Vec<U<B, L>> = vec![];
    chk!(rec, "sum_empty", empty.iter().sum::<U<B, L>>(), zero);
    Ok(())
}


fn main() {
    let spec = PropSpec {
        id: "C01",
        rule_text: "operand pairs (a,b) per width from 3 generator classes (independent boundary-alphabet values; b = 2^BITS - a + {-2..2}; b = a + {-2..2}) plus 0..5 extra alphabet values for iterator sums (slice, copied, filter, from_fn, chain, into_iter, rev iterators); + and - through all six operator shapes; exhaustive enumeration of all pairs for BITS <= 8 and of all pairs of values whose limbs come from {0,1,2,2^63-1,2^63,2^63+1,MAX-1,MAX} (2-3 limbs) or {0,1,2^63,MAX-1,MAX} (4 limbs) at 8 widths. Oracle: num-bigint a+b, a-b, -a reduced mod 2^BITS and the exact overflow predicates. Non-trivial: a carry or borrow crosses a limb boundary, or the unreduced result lies outside [0,2^BITS), or (non-aligned width) the pre-mask top limb exceeds MASK; distinct by (rule,width,a,b).",
        assumptions: vec![
            "num-bigint arithmetic is correct (oracle)",
            "x86-64 little-endian target; fixed width grid",
        ],
        thorough_mult: 50,
    };
    main_with(
        spec,
        |jobs, _| {
            reg_enum!(jobs, "addsub_all_pairs", enum_pairs, body; [0, 1, 2, 3, 4, 5, 6, 7, 8]);
            reg_enum!(jobs, "addsub_limb_alphabet", enum_alphabet_pairs, body; [65, 127, 128, 129, 190, 192, 250, 256]);
            w_all_wide!(reg_gen!(jobs, "addsub", 20000, strat, body;));
            w_giant!(reg_gen!(jobs, "addsub", 1500, strat, body;));
            w_dense!(reg_gen!(jobs, "addsub", 1500, strat, body;));
        },
        |_| Map::new(),
    );
}
