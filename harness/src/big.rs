//! BigUint bridge: the exact-integer oracle side. Nothing here calls into
//! ruint's arithmetic; `mk` uses only `Uint::from_limbs` (an assert + a move)
//! and `num` only `as_limbs`.

use num_bigint::{BigInt, BigUint};
use num_traits::{One, Zero};
use ruint::Uint;

/// BigUint from little-endian limbs.
pub fn big(l: &[u64]) -> BigUint {
    let mut bytes = Vec::with_capacity(l.len() * 8);
    for x in l {
        bytes.extend_from_slice(&x.to_le_bytes());
    }
    BigUint::from_bytes_le(&bytes)
}

pub fn bigi(l: &[u64]) -> BigInt {
    BigInt::from(big(l))
}

/// Low `n` limbs of `b` (i.e. `b mod 2^(64n)`), little-endian.
pub fn limbs_of(b: &BigUint, n: usize) -> Vec<u64> {
    let mut v = b.to_u64_digits();
    v.resize(n.max(v.len()), 0);
    v.truncate(n);
    v
}

pub fn pow2(k: usize) -> BigUint {
    BigUint::one() << k
}

pub fn mask_big(bits: usize) -> BigUint {
    pow2(bits) - 1u32
}

pub fn u(x: u64) -> BigUint {
    BigUint::from(x)
}

pub fn u128b(x: u128) -> BigUint {
    BigUint::from(x)
}

/// Mask a limb vector to `bits` bits and pad/truncate to nlimbs(bits).
pub fn mask_limbs(v: &[u64], bits: usize) -> Vec<u64> {
    let n = ruint::nlimbs(bits);
    let mut o = vec![0u64; n];
    for (i, x) in v.iter().take(n).enumerate() {
        o[i] = *x;
    }
    if n > 0 {
        o[n - 1] &= ruint::mask(bits);
    }
    o
}

/// Trusted constructor: masks in the harness, then `from_limbs`.
pub fn mk<const B: usize, const L: usize>(v: &[u64]) -> Uint<B, L> {
    let m = mask_limbs(v, B);
    let mut a = [0u64; L];
    a.copy_from_slice(&m);
    Uint::from_limbs(a)
}

/// Trusted constructor from a BigUint (reduced mod 2^B).
pub fn mkb<const B: usize, const L: usize>(b: &BigUint) -> Uint<B, L> {
    mk::<B, L>(&limbs_of(b, L))
}

/// The integer denoted by *all 64*LIMBS bits* of the value (so a non-canonical
/// value compares unequal to every canonical expectation).
pub fn num<const B: usize, const L: usize>(x: &Uint<B, L>) -> BigUint {
    big(x.as_limbs())
}

pub fn is_canonical<const B: usize, const L: usize>(x: &Uint<B, L>) -> bool {
    L == 0 || x.as_limbs()[L - 1] & !ruint::mask(B) == 0
}

pub fn hex(b: &BigUint) -> String {
    format!("0x{:x}", b)
}

pub fn hexl(l: &[u64]) -> String {
    hex(&big(l))
}

pub fn bit_len(b: &BigUint) -> usize {
    b.bits() as usize
}

pub fn is_zero(b: &BigUint) -> bool {
    b.is_zero()
}
