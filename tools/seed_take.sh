#!/bin/bash
# seed_take.sh <workdir> <dest-name> [features] -- <checks...>
# verifies a seeded change, copies it to /verif/seeded/<dest-name>/ and runs the given checks on it
W=$1; D=$2; shift 2; F=""; if [ "$1" != "--" ]; then F=$1; shift; fi; shift
/verif/tools/seed_verify.sh $W $F 2>&1 | grep -E '^==|test result|error|^ M|NOTE' 
mkdir -p /verif/seeded/$D; cp $W/out/patch.diff $W/out/RUN.md $W/out/meta.json /verif/seeded/$D/ 2>/dev/null; cp $W/out/demo*.rs /verif/seeded/$D/ 2>/dev/null
cd /verif && tools/mut.py --patch /verif/seeded/$D/patch.diff "$@"
