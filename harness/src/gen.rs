//! Shared proptest strategies: the boundary-alphabet limb generator and the
//! value generators built on it (DESIGN 3.1). All values are plain `Vec<u64>`
//! limb vectors (little endian), so strategies are not generic over the width.

use proptest::collection::vec;
use proptest::prelude::*;
use proptest::strategy::BoxedStrategy;

pub fn pow2_limb() -> impl Strategy<Value = u64> {
    (0u32..64).prop_map(|k| 1u64 << k)
}

/// One 64-bit limb from the boundary alphabet.
pub fn limb() -> BoxedStrategy<u64> {
    prop_oneof![
        2 => Just(0u64),
        1 => Just(1u64),
        2 => Just(u64::MAX),
        1 => prop_oneof![
            Just(u64::MAX - 1),
            Just(1u64 << 63),
            Just((1u64 << 63) - 1),
            Just((1u64 << 63) + 1),
            Just(1u64 << 32),
            Just((1u64 << 32) - 1),
            Just(2u64),
            Just(3u64),
        ],
        1 => pow2_limb(),
        1 => (1u32..64).prop_map(|k| (1u64 << k) - 1),
        1 => (0u32..64).prop_map(|k| !(1u64 << k)),
        1 => (any::<u64>(), 0u32..64).prop_map(|(x, s)| x >> s),
        1 => (any::<u64>(), 0u32..64).prop_map(|(x, s)| x << s),
        3 => any::<u64>(),
    ]
    .boxed()
}

/// `n` limbs, several structural styles.
pub fn limbs(n: usize) -> BoxedStrategy<Vec<u64>> {
    if n == 0 {
        return Just(vec![]).boxed();
    }
    let total_bits = 64 * n;
    prop_oneof![
        // independent alphabet limbs
        4 => vec(limb(), n),
        // uniform
        2 => vec(any::<u64>(), n),
        // two-value run: k limbs of x then n-k of y (long carry chains)
        2 => (limb(), limb(), 0..=n).prop_map(move |(x, y, k)| {
            (0..n).map(|i| if i < k { x } else { y }).collect::<Vec<u64>>()
        }),
        // global power-of-two neighbourhood: 2^k + {-2,-1,0,+1}
        2 => (0..total_bits, 0u8..4).prop_map(move |(k, d)| {
            let mut v = vec![0u64; n];
            v[k / 64] = 1u64 << (k % 64);
            match d {
                0 => {}
                1 => sub_small(&mut v, 1),
                2 => sub_small(&mut v, 2),
                _ => add_small(&mut v, 1),
            }
            v
        }),
        // short operand in a wide type: low j limbs from the alphabet, rest zero
        2 => (vec(limb(), n), 0..=n).prop_map(move |(mut v, j)| {
            for x in v.iter_mut().skip(j) {
                *x = 0;
            }
            v
        }),
        // zero low limbs
        1 => (vec(limb(), n), 0..=n).prop_map(move |(mut v, j)| {
            for x in v.iter_mut().take(j) {
                *x = 0;
            }
            v
        }),
    ]
    .boxed()
}

pub fn add_small(v: &mut [u64], mut c: u64) {
    for x in v.iter_mut() {
        let (y, o) = x.overflowing_add(c);
        *x = y;
        c = o as u64;
        if c == 0 {
            break;
        }
    }
}

pub fn sub_small(v: &mut [u64], mut c: u64) {
    for x in v.iter_mut() {
        let (y, o) = x.overflowing_sub(c);
        *x = y;
        c = o as u64;
        if c == 0 {
            break;
        }
    }
}

pub fn nlimbs(bits: usize) -> usize {
    (bits + 63) / 64
}

pub fn mask(bits: usize) -> u64 {
    ruint::mask(bits)
}

pub fn mask_vec(mut v: Vec<u64>, bits: usize) -> Vec<u64> {
    let n = nlimbs(bits);
    v.resize(n, 0);
    if n > 0 {
        v[n - 1] &= mask(bits);
    }
    v
}

/// 2^k as an n-limb vector.
pub fn pow2_vec(k: usize, n: usize) -> Vec<u64> {
    let mut v = vec![0u64; n];
    if k / 64 < n {
        v[k / 64] = 1u64 << (k % 64);
    }
    v
}

/// A canonical value of a `bits`-wide Uint: nlimbs(bits) limbs, top masked.
pub fn uint(bits: usize) -> BoxedStrategy<Vec<u64>> {
    let n = nlimbs(bits);
    if bits == 0 {
        return Just(vec![]).boxed();
    }
    let specials = prop_oneof![
        Just(0u8), Just(1), Just(2), Just(3), Just(4), Just(5), Just(6), Just(7), Just(8), Just(9)
    ]
    .prop_map(move |which| {
        let mut v = vec![0u64; n];
        match which {
            0 => {}
            1 => v[0] = 1,
            2 => v[0] = 2,
            3 => v = vec![u64::MAX; n],                    // MAX
            4 => { v = vec![u64::MAX; n]; v[0] = u64::MAX - 1; } // MAX-1
            5 => v = pow2_vec(bits - 1, n),                // 2^(BITS-1)
            6 => { v = pow2_vec(bits - 1, n); sub_small(&mut v, 1); } // 2^(BITS-1)-1
            7 => { v = pow2_vec(bits - 1, n); add_small(&mut v, 1); } // 2^(BITS-1)+1
            8 => { if n > 1 { v[1] = 1; } else { v[0] = u64::MAX; } } // 2^64
            _ => { if n > 1 { v[1] = 1; v[0] = 1; } else { v[0] = 1u64 << 63; } } // 2^64+1
        }
        mask_vec(v, bits)
    });
    prop_oneof![
        8 => limbs(n).prop_map(move |v| mask_vec(v, bits)),
        2 => specials,
        // 2^k neighbourhood within the width
        1 => (0..bits, 0u8..3).prop_map(move |(k, d)| {
            let mut v = pow2_vec(k, n);
            match d { 0 => {}, 1 => sub_small(&mut v, 1), _ => add_small(&mut v, 1) }
            mask_vec(v, bits)
        }),
    ]
    .boxed()
}

/// A non-zero canonical value.
pub fn uint_nz(bits: usize) -> BoxedStrategy<Vec<u64>> {
    assert!(bits > 0);
    uint(bits)
        .prop_map(move |mut v| {
            if v.iter().all(|x| *x == 0) {
                v[0] = 1;
            }
            v
        })
        .boxed()
}

/// Value with exact limb length `len` (top limb non-zero) inside an n-limb vector,
/// with `lz` leading zero bits in its top limb; for divisors.
pub fn sized_value(n: usize, bits: usize) -> BoxedStrategy<Vec<u64>> {
    assert!(n >= 1);
    (1..=n, 0u32..64, limbs(n), any::<bool>())
        .prop_map(move |(len, lz, mut v, force_top)| {
            for x in v.iter_mut().skip(len) {
                *x = 0;
            }
            let top = &mut v[len - 1];
            if *top == 0 {
                *top = 1;
            }
            if force_top {
                // exactly `lz` leading zeros
                *top = (*top | (1u64 << 63)) >> lz;
            }
            let mut v = mask_vec(v, bits);
            if v.iter().all(|x| *x == 0) {
                v[0] = 1;
            }
            v
        })
        .boxed()
}

/// Index-like scalar biased to interesting places relative to `bits`.
pub fn index_around(bits: usize, extra: usize) -> BoxedStrategy<u64> {
    let b = bits as u64;
    let hi = (bits + extra) as u64;
    prop_oneof![
        3 => 0..=hi,
        1 => prop_oneof![Just(0u64), Just(1), Just(63), Just(64), Just(65), Just(127), Just(128), Just(129)],
        2 => prop_oneof![Just(b.saturating_sub(1)), Just(b), Just(b + 1), Just(b.saturating_sub(2))],
        1 => (0..=(hi / 64)).prop_flat_map(|k| prop_oneof![Just(64 * k), Just((64 * k).saturating_sub(1)), Just(64 * k + 1)]),
    ]
    .boxed()
}

/// Huge index-like scalars: values whose scaling (x8, x64), increment or narrowing to a smaller
/// integer type wraps around to something small relative to `bits`.
pub fn index_huge(bits: usize) -> BoxedStrategy<u64> {
    let j = 0..=(bits as u64 / 8 + 2);
    let jb = 0..=(bits as u64 + 2);
    prop_oneof![
        2 => (1u64..=7, j.clone()).prop_map(|(k, j)| k << 61 | j),
        2 => (1u64..=63, jb.clone()).prop_map(|(k, j)| k << 58 | j),
        2 => (prop_oneof![Just(8u32), Just(16), Just(31), Just(32), Just(33), Just(48), Just(61), Just(62), Just(63)], jb.clone()).prop_map(|(e, j)| (1u64 << e) + j),
        2 => jb.prop_map(|j| u64::MAX - j),
        1 => any::<u64>(),
    ]
    .boxed()
}

/// `index_around` with a share of huge values.
pub fn index_any(bits: usize, extra: usize) -> BoxedStrategy<u64> {
    prop_oneof![6 => index_around(bits, extra), 1 => index_huge(bits)].boxed()
}

/// Random bytes of length 0..=max.
pub fn bytes_upto(max: usize) -> BoxedStrategy<Vec<u8>> {
    vec(any::<u8>(), 0..=max).boxed()
}

/// Byte alphabet biased to boundary values.
pub fn byte() -> BoxedStrategy<u8> {
    prop_oneof![
        2 => Just(0u8), 1 => Just(1u8), 2 => Just(0xffu8), 1 => Just(0x7fu8), 1 => Just(0x80u8), 3 => any::<u8>()
    ]
    .boxed()
}

/// Limb alphabets for complete enumerations over multi-limb values.
pub const LIMB_ALPHABET8: [u64; 8] = [0, 1, 2, (1 << 63) - 1, 1 << 63, (1 << 63) + 1, u64::MAX - 1, u64::MAX];
pub const LIMB_ALPHABET5: [u64; 5] = [0, 1, 1 << 63, u64::MAX - 1, u64::MAX];

/// Every value of `bits` bits whose limbs all come from `alpha` (top limb masked; duplicates
/// that arise from masking removed). Several carries / borrows that are exactly 0 or all ones at
/// once only occur for such operands.
pub fn alphabet_values(bits: usize, alpha: &[u64]) -> Vec<Vec<u64>> {
    let n = nlimbs(bits);
    let k = alpha.len() as u64;
    let mut out: Vec<Vec<u64>> = vec![];
    let mut seen = std::collections::HashSet::new();
    for mut idx in 0..k.pow(n as u32) {
        let mut v = Vec::with_capacity(n);
        for _ in 0..n {
            v.push(alpha[(idx % k) as usize]);
            idx /= k;
        }
        let v = mask_vec(v, bits);
        if seen.insert(v.clone()) {
            out.push(v);
        }
    }
    out
}
