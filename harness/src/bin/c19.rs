//! C19 — `uint!` literals (DESIGN 4, C19): generated programs compiled against the
//! working tree (engine E3).

use proptest::prelude::*;
use proptest::strategy::ValueTree;
use proptest::test_runner::{Config, RngAlgorithm, TestRng, TestRunner};
use std::collections::{BTreeMap, HashSet};
use std::hash::{Hash, Hasher};
use std::path::PathBuf;
use std::time::Instant;
use vcore::big::*;
use vcore::probe::*;
use vcore::*;

// ------------------------------------------------------------------ literal model

#[derive(Clone, Debug, PartialEq, Eq, Hash)]
struct Lit {
    base: u32,        // 2, 8, 10, 16
    digits: String,   // digit string as written (underscores, mixed case, maybe an invalid letter)
    sep: bool,        // '_' between digits and suffix
    kind: char,       // 'U' or 'B'
    bits: usize,
    wrap: Vec<u8>,    // nesting layers around the literal
    form: u8,         // macro invocation form for per-literal invocation: 0 (), 1 {}, 2 []
}

#[derive(Clone, Debug, PartialEq)]
enum Model {
    Valid(Vec<u64>),
    Reject(&'static str),
}

fn digit_val(c: char) -> Option<u32> {
    c.to_digit(16)
}

impl Lit {
    fn prefix(&self) -> &'static str {
        match self.base {
            2 => "0b",
            8 => "0o",
            16 => "0x",
            _ => "",
        }
    }
    fn text(&self) -> String {
        format!("{}{}{}{}{}", self.prefix(), self.digits, if self.sep { "_" } else { "" }, self.kind, self.bits)
    }
    fn clean_digits(&self) -> String {
        self.digits.chars().filter(|c| *c != '_').collect()
    }
    /// Reference literal model: the value denoted by the digits in the base, accepted iff
    /// every digit is valid in the base and the value is below 2^bits.
    fn model(&self) -> Model {
        let mut v = BigUint::zero();
        for c in self.clean_digits().chars() {
            let d = match digit_val(c) {
                Some(d) => d,
                None => return Model::Reject("invalid_character"),
            };
            if d >= self.base {
                return Model::Reject(if d == self.base { "digit_equals_base" } else { "digit_above_base" });
            }
            v = v * self.base + d;
        }
        if v >= pow2(self.bits) {
            let by_one_digit = &v / self.base < pow2(self.bits);
            return Model::Reject(if by_one_digit { "too_large_by_one_digit" } else { "too_large" });
        }
        Model::Valid(limbs_of(&v, (self.bits + 63) / 64))
    }
    fn ty(&self) -> String {
        format!("ruint::{}<{}, {}>", if self.kind == 'U' { "Uint" } else { "Bits" }, self.bits, (self.bits + 63) / 64)
    }
    /// the literal inside its nesting layers (an expression of type `ty()`)
    fn wrapped(&self, inner: &str) -> String {
        let ty = self.ty();
        let mut e = inner.to_string();
        let mut const_ok = true; // a `const` item may only contain const-evaluable layers
        for w in &self.wrap {
            let w = if w % 8 == 6 && !const_ok { 1 } else { *w };
            if matches!(w % 8, 4 | 5 | 7) {
                const_ok = false;
            }
            e = match w % 8 {
                0 => format!("({e})"),
                1 => format!("{{ {e} }}"),
                2 => format!("[{e}][0]"),
                3 => format!("({e},).0"),
                4 => format!("id({e})"),
                5 => format!("(|| {e})()"),
                6 => format!("{{ const C: {ty} = {e}; C }}"),
                // inside another macro's token tree
                _ => format!("vec![{e}].remove(0)"),
            };
        }
        e
    }
    fn invoke(&self) -> String {
        let t = self.text();
        match self.form % 6 {
            0 => format!("ruint::uint!({t})"),
            1 => format!("ruint::uint!{{ {t} }}"),
            2 => format!("ruint::uint![{t}]"),
            // forwarded through macro_rules fragments: expr / literal fragments reach the proc macro
            // inside invisible (None-delimited) groups, tt fragments as plain tokens
            3 => format!("via_expr!({t})"),
            4 => format!("via_lit!({t})"),
            _ => format!("via_tt!({t})"),
        }
    }
    fn nontrivial(&self) -> bool {
        let m = self.model();
        let multi_limb = matches!(&m, Model::Valid(l) if l.iter().skip(1).any(|x| *x != 0));
        let boundary = {
            // value in {2^bits - 1, 2^bits, 2^bits + 1}
            let mut v = BigUint::zero();
            let mut ok = true;
            for c in self.clean_digits().chars() {
                match digit_val(c) {
                    Some(d) if d < self.base => v = v * self.base + d,
                    _ => ok = false,
                }
            }
            ok && (v.clone() + 1u32 == pow2(self.bits) || v == pow2(self.bits) || v == pow2(self.bits) + 1u32)
        };
        let decorated = self.digits.contains('_') || (self.digits.len() > 1 && self.digits.starts_with('0'));
        multi_limb || boundary || decorated || matches!(m, Model::Reject("too_large_by_one_digit") | Model::Reject("digit_equals_base"))
    }
    fn to_json(&self) -> Value {
        json!({"base": self.base, "digits": self.digits, "sep": self.sep, "kind": self.kind.to_string(), "bits": self.bits, "wrap": self.wrap, "form": self.form, "text": self.text()})
    }
    fn from_json(v: &Value) -> Option<Lit> {
        Some(Lit {
            base: v["base"].as_u64()? as u32,
            digits: v["digits"].as_str()?.to_string(),
            sep: v["sep"].as_bool()?,
            kind: v["kind"].as_str()?.chars().next()?,
            bits: v["bits"].as_u64()? as usize,
            wrap: v["wrap"].as_array()?.iter().map(|x| x.as_u64().unwrap_or(0) as u8).collect(),
            form: v["form"].as_u64()? as u8,
        })
    }
}

// ------------------------------------------------------------------ generator

fn render(v: &BigUint, base: u32) -> String {
    v.to_str_radix(base)
}

fn lit_strategy() -> BoxedStrategy<Lit> {
    let bits = prop_oneof![
        4 => proptest::sample::select(vec![0usize, 1, 2, 7, 8, 63, 64, 65, 127, 128, 129, 256, 4096]),
        3 => 0usize..=300,
        1 => 0usize..=4096,
    ];
    let base = proptest::sample::select(vec![10u32, 16, 16, 8, 2]);
    (
        (bits, base, 0u8..16, proptest::collection::vec(any::<u64>(), 5), 0usize..4),
        (proptest::collection::vec(any::<u16>(), 0..4), any::<u64>(), any::<bool>(), any::<bool>(), 0u8..8, any::<u16>()),
        (proptest::collection::vec(0u8..8, 0..=4), 0u8..6),
    )
        .prop_map(|((bits, base, vk, raw, lead0), (us, case_bits, sep, is_b, bad, badpos), (wrap, form))| {
            // digit budget: at most 300 digits
            let max_bits = match base { 2 => 300, 8 => 900, 10 => 990, _ => 1200 };
            let two = pow2(bits);
            let r = big(&raw);
            let mut v = match vk {
                0 => BigUint::zero(),
                1 => BigUint::one(),
                2 => &two - 1u32,                       // MAX: just fits
                3 => two.clone(),                         // 2^bits: too large by the smallest amount
                4 => &two + 1u32,
                5 => pow2(bits.saturating_sub(1)),
                6 => &r % &two,                           // random below 2^bits
                7 => (&r % &two) + &two,                  // one bit too long
                8 => &two * 16u32 - 1u32,                 // too large by one hex digit
                9 => &two * (base as u32),                // too large by exactly one digit
                10 => &r % pow2(64.min(bits.max(1))),      // small value in a wide type
                // too large by more than one limb, with an all-zero limb directly above the
                // width's own limbs and a low part that fits (limb-wise trimming must not drop
                // the non-zero limbs above the gap)
                12 => (&r % &two) + pow2(64 * ((bits + 63) / 64 + 1) + (raw[4] % 64) as usize),
                13 => pow2(64 * ((bits + 63) / 64 + 1 + (raw[4] % 2) as usize)),
                14 => (&r % &two) + (BigUint::from(raw[3] | 1) << (64 * ((bits + 63) / 64 + 2))),
                15 => (&r % &two) + pow2(64 * ((bits + 63) / 64)) * BigUint::from(raw[3] >> (raw[4] % 64)), // non-zero limb directly above
                _ => &r >> (raw[4] % 320) as usize,
            };
            if v.bits() as usize > max_bits {
                v = &v % pow2(max_bits);
            }
            let mut d: Vec<char> = render(&v, base).chars().collect();
            // mixed-case hex
            if base == 16 {
                for (i, c) in d.iter_mut().enumerate() {
                    if (case_bits >> (i % 64)) & 1 == 1 {
                        *c = c.to_ascii_uppercase();
                    }
                }
            }
            // leading zeros
            for _ in 0..lead0 {
                d.insert(0, '0');
            }
            // an invalid letter (never e/E: exponent; never right after a leading 0: base prefix)
            if bad == 0 && base != 16 && d.len() >= 2 {
                let pos = 1 + (badpos as usize % (d.len() - 1)).max(if d[0] == '0' { 1 } else { 0 });
                let pos = pos.min(d.len());
                let letters = ['a', 'A', 'b', 'a', 'c', 'A', 'd', 'f', 'C', 'D', 'F'];
                let l = letters[(badpos as usize / 7) % letters.len()];
                // 'b' directly after a single leading "0" would lex as a binary literal
                if !(pos == 1 && d[0] == '0') {
                    d.insert(pos, l);
                }
            }
            // a prefixed literal whose digits start with "0" and a base letter again (0b0b1, 0x0x1,
            // 0o0x7: one token for the lexer, an invalid digit for the base; stripping repeated
            // prefixes would accept it), or a hex literal with a letter beyond f
            if bad == 2 && base != 10 {
                let own = match base { 2 => 'b', 8 => 'o', _ => 'x' };
                let letter = [own, own, 'b', 'o', 'x', 'g', 'z'][badpos as usize % 7];
                // 'b' is a valid hex digit: keep the literal invalid
                let letter = if base == 16 && letter == 'b' { 'x' } else { letter };
                let mut t = vec!['0', letter];
                if badpos % 3 == 0 {
                    t.extend(['0', letter]);
                }
                t.extend(d.iter().copied());
                d = t;
            }
            // a decimal literal that turns into a prefixed one if separators are dropped before the
            // prefix is looked at: "0", one to three '_', a base letter, digits valid in that base
            // and small enough to fit (to the lexer and to run-time parsing this is a decimal
            // digit string with an invalid digit)
            if bad == 1 && base == 10 {
                let (letter, b2) = [('b', 2u32), ('o', 8), ('x', 16), ('B', 2), ('X', 16), ('O', 8)][badpos as usize % 6];
                let small = &r % pow2(bits.clamp(1, 64));
                let mut t = String::from("0");
                // 0..=3 separators; without a separator only the upper-case letters are possible
                // (`0X1F_U8` is the integer `0` with a suffix for the lexer, `0x1F_U8` a hex literal):
                // a case-insensitive prefix test would accept them
                let nsep = (badpos as usize / 6) % 4;
                let letter = if nsep == 0 { letter.to_ascii_uppercase() } else { letter };
                for _ in 0..nsep {
                    t.push('_');
                }
                t.push(letter);
                t.push_str(&render(&small, b2));
                d = t.chars().collect();
            }
            // underscores between digits / at the end (never first)
            for u in us {
                let pos = 1 + (u as usize % d.len());
                d.insert(pos.min(d.len()), '_');
            }
            let kind = if is_b { 'B' } else { 'U' };
            // a hexadecimal Bits literal needs the separating underscore (otherwise it is a
            // plain hex literal by design; that shape is covered by the pass-through programs)
            let sep = sep || (kind == 'B' && base == 16);
            // an upper-case B digit directly before the suffix would still be fine; keep as is
            Lit { base, digits: d.into_iter().collect(), sep, kind, bits, wrap, form }
        })
        .boxed()
}

// ------------------------------------------------------------------ programs

const PRELUDE: &str = "#![allow(warnings)]\nuse core::str::FromStr;\nfn id<T>(x: T) -> T { x }\nfn ty<T>(_: &T) -> &'static str { core::any::type_name::<T>() }\nmacro_rules! via_expr { ($e:expr) => { ruint::uint!($e) } }\nmacro_rules! via_lit { ($l:literal) => { ruint::uint!($l) } }\nmacro_rules! via_tt { ($($t:tt)*) => { ruint::uint!($($t)*) } }\n";

/// One statement checking a VALID literal at run time. `whole` = the enclosing program is
/// wrapped in a single `uint!{}` invocation (so the bare literal is used).
fn positive_stmt(idx: usize, l: &Lit, whole: bool) -> String {
    let inner = if whole { l.text() } else { l.invoke() };
    let e = l.wrapped(&inner);
    let ty = l.ty();
    format!(
        "{{ let x: {ty} = {e}; let p = <{ty}>::from_str_radix(\"{}\", {}); let lim: Vec<String> = x.as_limbs().iter().map(|v| format!(\"{{:x}}\", v)).collect(); println!(\"R {idx} {{}} {{}}\", lim.join(\",\"), p == Ok(x)); }}\n",
        l.clean_digits(),
        l.base
    )
}

fn positive_program(lits: &[(usize, Lit)], whole: bool) -> String {
    let mut s = String::from(PRELUDE);
    s.push_str("fn main() {\n");
    if whole {
        s.push_str("ruint::uint! {\n");
    }
    for (i, l) in lits {
        s.push_str(&positive_stmt(*i, l, whole));
    }
    if whole {
        s.push_str("}\n");
    }
    s.push_str("}\n");
    s
}

/// REJECT literals one per line; returns (source, line -> item index)
fn negative_program(lits: &[(usize, Lit)], whole: bool) -> (String, BTreeMap<usize, usize>) {
    let mut s = String::from(PRELUDE);
    s.push_str("fn main() {\n");
    if whole {
        s.push_str("ruint::uint! {\n");
    }
    let mut map = BTreeMap::new();
    for (i, l) in lits {
        let line = s.matches('\n').count() + 1;
        map.insert(line, *i);
        let inner = if whole { l.text() } else { l.invoke() };
        s.push_str(&format!("let _ = {};\n", l.wrapped(&inner)));
    }
    if whole {
        s.push_str("}\n");
    }
    s.push_str("}\n");
    (s, map)
}

// ---- pass-through expressions

fn soup_strategy() -> BoxedStrategy<String> {
    let atom = proptest::sample::select(vec![
        "0xBBBB_B432_u64", "0xAB12", "0xB8", "0xABB16", "0x1B_u8", "0xbb_i64", "0xB0B_usize", "7usize", "12u8", "0b11u8", "0o17_i16",
        "1.5f32", "2e3", "1E2", "2.5_f64", "0.25", "\"12_U8\"", "\"0xff_B8\"", "r\"1_U8\"", "'U'", "'B'", "b\"_B8\"", "b'U'", "true",
        "u_256", "b_8", "U256", "B8", "1_000", "0xU8 as u8", "1i128", "0xFFFF_FFFF_FFFF_FFFF_FFFF_FFFF_FFFF_FFFBu128", "i8::MAX", "\"B16\"",
    ])
    .prop_map(|s| s.to_string());
    let fixed = atom.prop_map(|a| if a == "0xU8 as u8" { "0x18 as u8".to_string() } else { a });
    // generated hexadecimal literals that merely END in B<digits> (all of it hex digits), with
    // digit-grouping underscores anywhere except directly before the B: plain integers by design
    let hex_b = ("[0-9a-fA-F]{1,12}", proptest::collection::vec((any::<u8>(), any::<bool>()), 0..3), "[0-9]{1,3}", any::<bool>()).prop_map(|(mut d, us, dec, lead)| {
        for (pos, _) in us {
            let p = pos as usize % d.len();
            d.insert(p, '_');
        }
        if lead {
            d.insert(0, '_');
        }
        while d.ends_with('_') {
            d.pop();
        }
        if d.chars().all(|c| c == '_') {
            d.push('0');
        }
        format!("{{ let t: u128 = 0x{d}B{dec}; t }}")
    });
    // the same shape with an ordinary integer suffix
    let hex_b_suffixed = ("[0-9a-fA-F]{1,6}", "[0-9]{1,2}", proptest::sample::select(vec!["u64", "u128", "i128", "usize"]), any::<bool>()).prop_map(|(d, dec, sfx, us)| {
        format!("0x{d}{}B{dec}_{sfx}", if us { "_" } else { "" })
    });
    let leaf = prop_oneof![4 => fixed, 3 => hex_b, 1 => hex_b_suffixed];
    leaf.prop_recursive(4, 24, 4, |inner| {
        prop_oneof![
            proptest::collection::vec(inner.clone(), 1..4).prop_map(|v| format!("({},)", v.join(", "))),
            inner.clone().prop_map(|e| format!("{{ {e} }}")),
            inner.clone().prop_map(|e| format!("[{e}]")),
            inner.clone().prop_map(|e| format!("id({e})")),
            inner.clone().prop_map(|e| format!("(|| {e})()")),
            inner.clone().prop_map(|e| format!("Some({e})")),
            (inner.clone(), inner).prop_map(|(a, b)| format!("({a}, {b})")),
        ]
    })
    .boxed()
}

fn pass_program(items: &[(usize, String)]) -> String {
    let mut s = String::from(PRELUDE);
    s.push_str("fn main() {\n let (u_256, b_8, U256, B8) = (5u8, 6i16, 7u32, 'x');\n");
    for (i, e) in items {
        // metamorphic: uint!{ E } evaluates and types exactly like E
        s.push_str(&format!(
            "{{ let a = {e}; let b = ruint::uint!{{ {e} }}; let c = ruint::uint!({e}); println!(\"P {i} {{}}\", format!(\"{{:?}}\", a) == format!(\"{{:?}}\", b) && ty(&a) == ty(&b) && format!(\"{{:?}}\", a) == format!(\"{{:?}}\", c) && ty(&a) == ty(&c)); }}\n"
        ));
    }
    s.push_str("}\n");
    s
}

// ------------------------------------------------------------------ single-literal oracle (shrinking, replay)

#[derive(Debug, Clone)]
struct Failure {
    check: String,
    class: String,
    msg: String,
}

fn limbs_hex(l: &[u64]) -> String {
    l.iter().map(|v| format!("{v:x}")).collect::<Vec<_>>().join(",")
}

/// Check one literal alone (own program). None = behaves as the model says.
fn check_single(env: &ProbeEnv, name: &str, l: &Lit) -> Option<Failure> {
    match l.model() {
        Model::Valid(limbs) => {
            let c = env.compile(name, &positive_program(&[(0, l.clone())], l.form % 2 == 0));
            let r = if !c.ok {
                Some(Failure { check: "uint!".into(), class: "valid_literal_rejected".into(), msg: format!("{}: {}", l.text(), c.errors().join(" | ")) })
            } else {
                let out = env.run(&c);
                judge_positive_line(l, &limbs, out.stdout.lines().find(|x| x.starts_with("R 0 ")), &out)
            };
            env.cleanup(&c);
            r
        }
        Model::Reject(reason) => {
            let (src, _) = negative_program(&[(0, l.clone())], l.form % 2 == 0);
            let c = env.compile(name, &src);
            let r = if c.ok {
                let out = env.run(&c);
                Some(Failure {
                    check: "uint!".into(),
                    class: format!("bad_literal_accepted:{reason}"),
                    msg: format!("{} compiled (model: reject, {reason}); running it: status {:?} {}", l.text(), out.status, out.stderr.lines().next().unwrap_or("")),
                })
            } else {
                None
            };
            env.cleanup(&c);
            r
        }
    }
}

fn judge_positive_line(l: &Lit, limbs: &[u64], line: Option<&str>, out: &RunOut) -> Option<Failure> {
    let Some(line) = line else {
        return Some(Failure { check: "uint!".into(), class: "no_output".into(), msg: format!("{}: program produced no result line (status {:?}, stderr {})", l.text(), out.status, out.stderr.lines().next().unwrap_or("")) });
    };
    let parts: Vec<&str> = line.split(' ').collect();
    let got = parts.get(2).copied().unwrap_or("");
    let parse_eq = parts.get(3).copied().unwrap_or("");
    if got != limbs_hex(limbs) {
        return Some(Failure { check: "uint!".into(), class: "value_differs_from_model".into(), msg: format!("{}: limbs [{got}] expected [{}]", l.text(), limbs_hex(limbs)) });
    }
    if parse_eq != "true" {
        return Some(Failure { check: "uint!".into(), class: "value_differs_from_runtime_parse".into(), msg: format!("{}: from_str_radix of the same digits differs", l.text()) });
    }
    None
}

// ------------------------------------------------------------------ main

fn main() {
    let args = parse_args();
    std::panic::set_hook(Box::new(|_| {}));
    let t0 = Instant::now();
    let spec = PropSpec {
        id: "C19",
        rule_text: "generated programs: literals = base {decimal, 0x, 0o, 0b} x digit strings up to 300 digits (leading zeros, mixed-case hex, '_' anywhere after the first digit, optionally one invalid letter, the shape 0_<b|o|x><digits valid in that base> that only a decimal reading rejects, or a prefixed literal whose digits repeat a base prefix such as 0b0b1 / 0x0x1) x optional '_' x suffix {U,B}<bits>, bits biased to {0,1,2,7,8,63,64,65,127,128,129,256,4096} and 0..=300, values from {0,1,2^bits-1,2^bits,2^bits+1,2^(bits-1), random below 2^bits, one bit too long, too large by exactly one digit, too large by two or more limbs with a zero limb directly above the width and a low part that fits, small values in wide types}; each literal at nesting depth 0..4 (parens, blocks, arrays, tuples, calls, closures, const items), inside one whole-program uint!{} or per-literal uint!() / uint!{} / uint![] / forwarded through macro_rules expr, literal and tt fragments. A reference literal model classifies VALID(value) / REJECT. Positive programs: run-time comparison of the constant with the model's limbs and with from_str_radix of the same digits at the exact suffix width and type (Uint / Bits). Negative programs: every REJECT literal must carry a compile error; a line without one is recompiled alone and is a violation iff it builds. Pass-through programs: token soups of non-matching literals (suffixed ints, hex ending in B<digits>, floats, strings, chars, byte strings, identifiers U256/B8) nested in groups, metamorphic oracle uint!{E} == E in value (Debug) and type. Non-trivial: literal wider than one limb, or value in {2^bits-1, 2^bits, 2^bits+1}, or containing '_' / leading zeros, or rejected by exactly one digit; distinct by literal text.",
        assumptions: vec![
            "rustc accept/reject and JSON diagnostics are trusted; num-bigint for the literal model",
            "only token shapes that reach the macro are generated (no 0b2 / 0o8 / decimal digits followed by e or E, which the lexer itself rejects or reads as floats)",
            "programs are compiled with the pinned stable rustc against rlibs built from /repo's working tree",
        ],
        thorough_mult: 12,
    };
    let harness_dir = PathBuf::from(env!("CARGO_MANIFEST_DIR"));
    let env = match ProbeEnv::prepare(&harness_dir, "c19") {
        Ok(e) => e,
        Err(e) => harness_error(&e),
    };
    let known = load_known(&args.root, "C19");

    // ---- replay mode
    if let Some(path) = &args.replay {
        let v: Value = serde_json::from_str(&std::fs::read_to_string(path).unwrap_or_default()).unwrap_or(Value::Null);
        let failed = if v["rule"] == "pass_through" {
            let e = v["expr"].as_str().unwrap_or("").to_string();
            let c = env.compile("replay", &pass_program(&[(0, e)]));
            let bad = !c.ok || !env.run(&c).stdout.contains("P 0 true");
            bad
        } else {
            let Some(l) = Lit::from_json(&v["literal"]) else { harness_error("malformed replay file") };
            match check_single(&env, "replay", &l) {
                Some(f) => {
                    println!("replay failure: check={} class={} {}", f.check, f.class, f.msg);
                    true
                }
                None => false,
            }
        };
        if failed {
            println!("VIOLATION property=C19 replay={}", path.display());
            std::process::exit(1);
        }
        println!("REPLAY-PASS property=C19");
        std::process::exit(0);
    }

    // ---- generation (all random choices inside proptest strategies, fixed seed)
    let mult = if args.tier == "thorough" { spec.thorough_mult as usize } else { 1 };
    let n_lits = 2400 * mult;
    let n_soups = 240 * mult;
    let rng = TestRng::from_seed(RngAlgorithm::ChaCha, &seed_for(args.seed, "C19", "literals", 0, 0));
    let mut runner = TestRunner::new_with_rng(Config::default(), rng);
    let strat = lit_strategy();
    let mut trees = Vec::with_capacity(n_lits);
    for _ in 0..n_lits {
        trees.push(strat.new_tree(&mut runner).expect("tree"));
    }
    let lits: Vec<Lit> = trees.iter().map(|t| t.current()).collect();
    let soup = soup_strategy();
    let soups: Vec<String> = (0..n_soups).map(|_| soup.new_tree(&mut runner).expect("tree").current()).collect();

    let mut classes: BTreeMap<String, u64> = BTreeMap::new();
    let mut nt: HashSet<u64> = HashSet::new();
    let mut pos: Vec<(usize, Lit)> = vec![];
    let mut neg: Vec<(usize, Lit)> = vec![];
    for (i, l) in lits.iter().enumerate() {
        let m = l.model();
        *classes.entry(match &m { Model::Valid(_) => "model:valid".to_string(), Model::Reject(r) => format!("model:reject:{r}") }).or_insert(0) += 1;
        *classes.entry(format!("base:{}", l.base)).or_insert(0) += 1;
        *classes.entry(format!("kind:{}", l.kind)).or_insert(0) += 1;
        *classes.entry(format!("depth:{}", l.wrap.len())).or_insert(0) += 1;
        if l.bits > 64 { *classes.entry("bits>64".into()).or_insert(0) += 1; }
        if l.digits.contains('_') { *classes.entry("has_underscore".into()).or_insert(0) += 1; }
        if l.nontrivial() {
            let mut h = std::collections::hash_map::DefaultHasher::new();
            l.text().hash(&mut h);
            nt.insert(h.finish());
        }
        match m {
            Model::Valid(_) => pos.push((i, l.clone())),
            Model::Reject(_) => neg.push((i, l.clone())),
        }
    }

    // ---- programs
    enum Prog {
        Pos(Vec<(usize, Lit)>, bool),
        Neg(Vec<(usize, Lit)>, bool),
        Pass(Vec<(usize, String)>),
    }
    let mut progs: Vec<Prog> = vec![];
    for (k, ch) in pos.chunks(100).enumerate() {
        progs.push(Prog::Pos(ch.to_vec(), k % 2 == 0));
    }
    for (k, ch) in neg.chunks(60).enumerate() {
        progs.push(Prog::Neg(ch.to_vec(), k % 2 == 0));
    }
    let soup_items: Vec<(usize, String)> = soups.iter().cloned().enumerate().collect();
    for ch in soup_items.chunks(40) {
        progs.push(Prog::Pass(ch.to_vec()));
    }
    let n_programs = progs.len();

    // failing item indices: literal index -> preliminary failure; soups separately
    let results = par_map(&progs, args.threads, |pi, p| -> (Vec<(usize, Failure)>, Vec<(usize, Failure)>, u64) {
        let name = format!("p{pi}");
        let mut lit_fail = vec![];
        let mut soup_fail = vec![];
        let mut evals = 0u64;
        match p {
            Prog::Pos(items, whole) => {
                let c = env.compile(&name, &positive_program(items, *whole));
                if !c.ok {
                    // find the culprits individually
                    for (i, l) in items {
                        evals += 1;
                        if let Some(f) = check_single(&env, &format!("{name}_s{i}"), l) {
                            lit_fail.push((*i, f));
                        }
                    }
                    if lit_fail.is_empty() {
                        // builds one by one but not together: harness problem, not a violation
                        println!("INCONCLUSIVE: harness error: positive program {name} fails to build as a whole but every literal builds alone: {}", c.errors().join(" | "));
                        std::process::exit(2);
                    }
                } else {
                    let out = env.run(&c);
                    let lines: BTreeMap<usize, &str> = out.stdout.lines().filter(|l| l.starts_with("R ")).filter_map(|l| Some((l.split(' ').nth(1)?.parse().ok()?, l))).collect();
                    for (i, l) in items {
                        evals += 2;
                        let Model::Valid(limbs) = l.model() else { unreachable!() };
                        if let Some(f) = judge_positive_line(l, &limbs, lines.get(i).copied(), &out) {
                            lit_fail.push((*i, f));
                        }
                    }
                }
                env.cleanup(&c);
            }
            Prog::Neg(items, whole) => {
                let (src, map) = negative_program(items, *whole);
                let c = env.compile(&name, &src);
                let errs: HashSet<usize> = c.error_lines().into_iter().collect();
                for (line, i) in &map {
                    evals += 1;
                    if !c.ok && errs.contains(line) {
                        continue;
                    }
                    // no error attributed to this line: recompile alone (removes cascade artefacts)
                    let l = &items.iter().find(|(j, _)| j == i).unwrap().1;
                    if let Some(f) = check_single(&env, &format!("{name}_s{i}"), l) {
                        lit_fail.push((*i, f));
                    }
                }
                env.cleanup(&c);
            }
            Prog::Pass(items) => {
                let c = env.compile(&name, &pass_program(items));
                if !c.ok {
                    for (i, e) in items {
                        evals += 1;
                        let c1 = env.compile(&format!("{name}_s{i}"), &pass_program(&[(*i, e.clone())]));
                        // the plain expression must compile on its own: check the control
                        let ctrl = env.compile(&format!("{name}_c{i}"), &format!("{PRELUDE}fn main() {{ let (u_256, b_8, U256, B8) = (5u8, 6i16, 7u32, 'x'); let a = {e}; println!(\"{{:?}}\", a); }}\n"));
                        if ctrl.ok && !c1.ok {
                            soup_fail.push((*i, Failure { check: "uint!".into(), class: "pass_through_breaks_compilation".into(), msg: format!("{e}: {}", c1.errors().join(" | ")) }));
                        } else if ctrl.ok && !env.run(&c1).stdout.contains(&format!("P {i} true")) {
                            soup_fail.push((*i, Failure { check: "uint!".into(), class: "pass_through_changes_value_or_type".into(), msg: e.clone() }));
                        } else if !ctrl.ok {
                            println!("INCONCLUSIVE: harness error: pass-through control expression does not compile: {e}: {}", ctrl.errors().join(" | "));
                            std::process::exit(2);
                        }
                        env.cleanup(&c1);
                        env.cleanup(&ctrl);
                    }
                } else {
                    let out = env.run(&c);
                    for (i, e) in items {
                        evals += 1;
                        if !out.stdout.contains(&format!("P {i} true\n")) {
                            soup_fail.push((*i, Failure { check: "uint!".into(), class: "pass_through_changes_value_or_type".into(), msg: e.clone() }));
                        }
                    }
                }
                env.cleanup(&c);
            }
        }
        (lit_fail, soup_fail, evals)
    });

    let mut evals = 0u64;
    let mut lit_fail: Vec<(usize, Failure)> = vec![];
    let mut soup_fail: Vec<(usize, Failure)> = vec![];
    for (a, b, e) in results {
        evals += e;
        lit_fail.extend(a);
        soup_fail.extend(b);
    }
    lit_fail.sort_by_key(|x| x.0);

    // ---- known findings, shrinking, replay files
    let mut violations: Vec<(String, PathBuf)> = vec![];
    let mut excluded: BTreeMap<String, u64> = BTreeMap::new();
    let mut known_lines = vec![];
    for k in &known {
        // witness: {"literal": {...}}
        if let Some((_, _, case)) = &k.witness {
            if let Some(txt) = case.s.first() {
                if let Ok(v) = serde_json::from_str::<Value>(txt) {
                    if let Some(l) = Lit::from_json(&v) {
                        let f = check_single(&env, &format!("known_{}", k.id.replace('-', "_")), &l);
                        match (k.status.as_str(), f) {
                            ("known", Some(f)) if f.class == k.class => known_lines.push(format!("KNOWN-FINDING: property=C19 {} [{}]", k.what, k.id)),
                            ("fixed", Some(f)) | ("known", Some(f)) => {
                                println!("regression / changed failure of finding {}: {} {}", k.id, f.class, f.msg);
                                let p = write_replay_value(&args.root, "C19", "literal", &json!({"property": "C19", "rule": "literal", "literal": l.to_json(), "check": f.check, "failure_class": f.class, "message": f.msg}));
                                violations.push((f.class.clone(), p));
                            }
                            _ => {}
                        }
                    }
                }
            }
        }
    }
    let mut seen_classes: HashSet<String> = HashSet::new();
    for (i, f) in &lit_fail {
        if known.iter().any(|k| k.status == "known" && k.check == f.check && k.class == f.class) {
            *excluded.entry(f.class.clone()).or_insert(0) += 1;
            continue;
        }
        println!("failure: literal {} class={} {}", lits[*i].text(), f.class, f.msg);
        if !seen_classes.insert(f.class.clone()) {
            continue;
        }
        // shrink with single-literal programs (capped)
        let tree = &mut trees[*i];
        let mut best = (tree.current(), f.clone());
        let mut steps = 0;
        if tree.simplify() {
            loop {
                steps += 1;
                if steps > 120 {
                    break;
                }
                let cur = tree.current();
                match check_single(&env, &format!("shrink_{i}_{steps}"), &cur) {
                    Some(f2) if f2.class == f.class => {
                        best = (cur, f2);
                        if !tree.simplify() {
                            break;
                        }
                    }
                    _ => {
                        if !tree.complicate() {
                            break;
                        }
                    }
                }
            }
        }
        let p = write_replay_value(&args.root, "C19", "literal", &json!({"property": "C19", "rule": "literal", "seed": args.seed, "literal": best.0.to_json(), "check": best.1.check, "failure_class": best.1.class, "message": best.1.msg, "shrink_steps": steps}));
        violations.push((f.class.clone(), p));
    }
    for (i, f) in &soup_fail {
        println!("failure: pass-through expression {} class={}", soups[*i], f.class);
        if seen_classes.insert(f.class.clone()) {
            let p = write_replay_value(&args.root, "C19", "pass_through", &json!({"property": "C19", "rule": "pass_through", "seed": args.seed, "expr": soups[*i], "check": f.check, "failure_class": f.class, "message": f.msg}));
            violations.push((f.class.clone(), p));
        }
    }

    // ---- evidence
    let mut samples: Vec<Value> = vec![];
    for l in lits.iter().filter(|l| l.nontrivial()).take(10) {
        samples.push(json!({"literal": l.text(), "expression": l.wrapped(&l.invoke()), "model": format!("{:?}", l.model()).chars().take(120).collect::<String>()}));
    }
    for s in soups.iter().take(4) {
        samples.push(json!({"pass_through": s}));
    }
    let mut cov = Map::new();
    cov.insert("evaluations".into(), json!(evals));
    cov.insert("distinct_nontrivial".into(), json!(nt.len()));
    cov.insert("rule".into(), json!(spec.rule_text));
    cov.insert("samples".into(), Value::Array(samples));
    cov.insert("programs".into(), json!(n_programs));
    cov.insert("literals".into(), json!(lits.len()));
    cov.insert("valid_literals".into(), json!(pos.len()));
    cov.insert("reject_literals".into(), json!(neg.len()));
    cov.insert("pass_through_expressions".into(), json!(soups.len()));
    cov.insert("classes".into(), json!(classes));
    cov.insert("excluded_known".into(), json!(excluded));
    cov.insert("known_findings_reported".into(), json!(known_lines));
    cov.insert("exhaustive".into(), json!(false));
    write_evidence(&args, &spec, cov, violations.len(), t0.elapsed().as_secs_f64());
    let _ = std::fs::remove_dir_all(&env.work);

    for l in &known_lines {
        println!("{l}");
    }
    println!("C19 tier={} seed={} programs={} literals={} (valid {}, reject {}) pass_through={} evaluations={} distinct_nontrivial={} wall={:.1}s", args.tier, args.seed, n_programs, lits.len(), pos.len(), neg.len(), soups.len(), evals, nt.len(), t0.elapsed().as_secs_f64());
    if violations.is_empty() {
        std::process::exit(0);
    }
    for (_, p) in &violations {
        println!("VIOLATION property=C19 replay={}", p.display());
    }
    std::process::exit(1);
}
