//! E4 target `decoders`: byte-level coverage-guided fuzzing of every decoder; the first two bytes
//! select (decoder, width). Oracle inside the target: no panic raised in ruint code, an accepted
//! value is canonical, and (for codecs with an encoder) re-encoding the accepted value decodes to
//! the same value.
#![no_main]
use libfuzzer_sys::fuzz_target;
use ruint::Uint;
use std::cell::RefCell;
use std::sync::Once;

thread_local! {
    static LAST_PANIC: RefCell<Option<(String, String)>> = const { RefCell::new(None) };
}
static HOOK: Once = Once::new();

fn install_hook() {
    HOOK.call_once(|| {
        std::panic::set_hook(Box::new(|info| {
            let loc = info.location().map(|l| format!("{}:{}", l.file(), l.line())).unwrap_or_default();
            let mut msg = info.payload().downcast_ref::<&str>().map(|s| s.to_string()).or_else(|| info.payload().downcast_ref::<String>().cloned()).unwrap_or_default();
            if is_std_path(&loc) {
                let bt = std::backtrace::Backtrace::force_capture().to_string();
                if std_panic_caller_is_third_party(&bt) {
                    msg.push_str(" [called from a registry crate]");
                }
            }
            LAST_PANIC.with(|p| *p.borrow_mut() = Some((loc, msg)));
        }));
    });
}

fn is_std_path(loc: &str) -> bool {
    loc.starts_with("/rustc/") || loc.starts_with("library/") || loc.contains("/library/core/") || loc.contains("/library/std/") || loc.contains("/library/alloc/")
}

const THIRD_PARTY: &[&str] = &[
    "alloy_rlp", "fastrlp", "rlp::", "parity_scale_codec", "ssz::", "ethereum_ssz", "borsh", "der::", "serde_json", "serde::", "bincode",
    "postgres_types", "bytes::", "num_bigint", "num_traits", "byte_slice_cast", "arrayvec", "hex::",
];

/// true iff the innermost non-std frame of the backtrace belongs to a third-party codec crate
fn std_panic_caller_is_third_party(bt: &str) -> bool {
    for line in bt.lines() {
        let t = line.trim();
        let Some((idx, sym)) = t.split_once(": ") else { continue };
        if idx.parse::<u32>().is_err() {
            continue;
        }
        let sym = sym.trim_start_matches('<');
        let is_std = ["std::", "core::", "alloc::", "rust_begin_unwind", "__rust", "rust_panic", "backtrace::", "_Unwind", "__libc", "_start", "main", "__sanitizer", "__asan", "__interceptor"]
            .iter()
            .any(|p| sym.starts_with(p));
        if is_std || sym.contains("install_hook") || (sym.contains("panic") && !sym.contains("ruint")) {
            continue;
        }
        return THIRD_PARTY.iter().any(|p| sym.starts_with(p));
    }
    false
}

fn canonical<const B: usize, const L: usize>(v: &Uint<B, L>) -> bool {
    L == 0 || v.as_limbs()[L - 1] & !ruint::mask(B) == 0
}

fn pg_types() -> Vec<postgres_types::Type> {
    use postgres_types::Type;
    vec![Type::BOOL, Type::INT2, Type::INT4, Type::OID, Type::INT8, Type::FLOAT4, Type::FLOAT8, Type::MONEY, Type::BYTEA, Type::BIT, Type::VARBIT, Type::CHAR, Type::TEXT, Type::VARCHAR, Type::JSON, Type::JSONB, Type::NUMERIC]
}

/// run one decoder; returns the accepted value (if any) and its re-decoded re-encoding (if the codec
/// has an encoder)
fn run<const B: usize, const L: usize>(sel: u8, data: &[u8]) -> (Option<Uint<B, L>>, Option<Option<Uint<B, L>>>) {
    type U<const B: usize, const L: usize> = Uint<B, L>;
    match sel % 32 {
        0 => (U::<B, L>::try_from_be_slice(data), None),
        1 => (U::<B, L>::try_from_le_slice(data), None),
        2 => (std::str::from_utf8(data).ok().and_then(|s| s.parse::<U<B, L>>().ok()), None),
        3 => {
            let radix = data.first().copied().unwrap_or(10) as u64;
            (std::str::from_utf8(data.get(1..).unwrap_or(&[])).ok().and_then(|s| U::<B, L>::from_str_radix(s, radix).ok()), None)
        }
        4 => {
            let v = rlp::decode::<U<B, L>>(data).ok();
            let re = v.map(|x| rlp::decode::<U<B, L>>(&rlp::encode(&x)).ok());
            (v, re)
        }
        5 => {
            let v = <U<B, L> as alloy_rlp::Decodable>::decode(&mut &data[..]).ok();
            let re = v.map(|x| <U<B, L> as alloy_rlp::Decodable>::decode(&mut &alloy_rlp::encode(x)[..]).ok());
            (v, re)
        }
        6 => {
            let v = <U<B, L> as fastrlp_03::Decodable>::decode(&mut &data[..]).ok();
            let re = v.map(|x| {
                let mut out = Vec::new();
                fastrlp_03::Encodable::encode(&x, &mut out);
                <U<B, L> as fastrlp_03::Decodable>::decode(&mut &out[..]).ok()
            });
            (v, re)
        }
        7 => {
            let v = <U<B, L> as fastrlp_04::Decodable>::decode(&mut &data[..]).ok();
            let re = v.map(|x| {
                let mut out = Vec::new();
                fastrlp_04::Encodable::encode(&x, &mut out);
                <U<B, L> as fastrlp_04::Decodable>::decode(&mut &out[..]).ok()
            });
            (v, re)
        }
        8 => {
            let v = <U<B, L> as parity_scale_codec::Decode>::decode(&mut &data[..]).ok();
            let re = v.map(|x| <U<B, L> as parity_scale_codec::Decode>::decode(&mut &parity_scale_codec::Encode::encode(&x)[..]).ok());
            (v, re)
        }
        9 => {
            use ruint::support::scale::{CompactRefUint, CompactUint};
            let v = <CompactUint<B, L> as parity_scale_codec::Decode>::decode(&mut &data[..]).ok().map(|x| x.0);
            let re = v.map(|x| <CompactUint<B, L> as parity_scale_codec::Decode>::decode(&mut &parity_scale_codec::Encode::encode(&CompactRefUint(&x))[..]).ok().map(|y| y.0));
            (v, re)
        }
        10 => {
            let v = <U<B, L> as ssz::Decode>::from_ssz_bytes(data).ok();
            let re = v.map(|x| <U<B, L> as ssz::Decode>::from_ssz_bytes(&ssz::Encode::as_ssz_bytes(&x)).ok());
            (v, re)
        }
        11 => {
            let v = borsh::from_slice::<U<B, L>>(data).ok();
            let re = v.map(|x| borsh::to_vec(&x).ok().and_then(|s| borsh::from_slice::<U<B, L>>(&s).ok()));
            (v, re)
        }
        12 => {
            let v = <U<B, L> as der::Decode>::from_der(data).ok();
            let re = v.map(|x| der::Encode::to_der(&x).ok().and_then(|s| <U<B, L> as der::Decode>::from_der(&s).ok()));
            (v, re)
        }
        13 => {
            let v = bincode::deserialize::<U<B, L>>(data).ok();
            let re = v.map(|x| bincode::serialize(&x).ok().and_then(|s| bincode::deserialize::<U<B, L>>(&s).ok()));
            (v, re)
        }
        14 => {
            let v = serde_json::from_slice::<U<B, L>>(data).ok();
            let re = v.map(|x| serde_json::to_vec(&x).ok().and_then(|s| serde_json::from_slice::<U<B, L>>(&s).ok()));
            (v, re)
        }
        k => {
            // Postgres FromSql for the 17 accepted types
            let tys = pg_types();
            let ty = &tys[(k as usize - 15) % tys.len()];
            let v = <U<B, L> as postgres_types::FromSql>::from_sql(ty, data).ok();
            let is_float = *ty == postgres_types::Type::FLOAT4 || *ty == postgres_types::Type::FLOAT8;
            let re = if is_float {
                None
            } else {
                v.map(|x| {
                    let mut buf = bytes::BytesMut::new();
                    match postgres_types::ToSql::to_sql(&x, ty, &mut buf) {
                        Ok(_) => <U<B, L> as postgres_types::FromSql>::from_sql(ty, &buf).ok(),
                        Err(_) => Some(x), // value does not fit the column type on the way back (e.g. MONEY rounding): not compared
                    }
                })
            };
            (v, re)
        }
    }
}

fn check<const B: usize, const L: usize>(sel: u8, data: &[u8]) {
    let r = std::panic::catch_unwind(|| run::<B, L>(sel, data));
    match r {
        Err(_) => {
            let (loc, msg) = LAST_PANIC.with(|p| p.borrow_mut().take()).unwrap_or_default();
            if std::env::var("VERIF_FUZZ_DEBUG").is_ok() { eprintln!("caught panic loc={loc} msg={msg}"); }
            // panics raised in ruint's own sources are attributed to ruint; so are panics located in
            // std (bad arguments handed to std) unless the innermost non-std frame is a registry crate
            let in_std = is_std_path(&loc);
            if std::env::var("VERIF_FUZZ_DEBUG").is_ok() { eprintln!("in_std={in_std} marker={}", msg.ends_with("[called from a registry crate]")); }
            if loc.contains("/repo/") || (in_std && !msg.ends_with("[called from a registry crate]")) {
                eprintln!("VERIF-ORACLE decoder {sel} width {B} panicked in ruint at {loc}: {msg}");
                std::process::abort();
            }
        }
        Ok((Some(v), re)) => {
            if !canonical(&v) {
                eprintln!("VERIF-ORACLE decoder {sel} width {B} returned a non-canonical value {:x?}", v.as_limbs());
                std::process::abort();
            }
            if let Some(re) = re {
                // MONEY divides by 100 on the way in; every other codec must round-trip exactly
                if re != Some(v) && !(sel % 32 >= 15 && pg_types()[(sel as usize % 32 - 15) % 17] == postgres_types::Type::MONEY) {
                    eprintln!("VERIF-ORACLE decoder {sel} width {B}: accepted value {v} does not survive re-encoding ({re:?})");
                    std::process::abort();
                }
            }
        }
        Ok((None, _)) => {}
    }
}

fuzz_target!(|data: &[u8]| {
    install_hook();
    if data.len() < 2 {
        return;
    }
    let (sel, w, rest) = (data[0], data[1], &data[2..]);
    match w % 8 {
        0 => check::<7, 1>(sel, rest),
        1 => check::<60, 1>(sel, rest),
        2 => check::<64, 1>(sel, rest),
        3 => check::<127, 2>(sel, rest),
        4 => check::<190, 3>(sel, rest),
        5 => check::<255, 4>(sel, rest),
        6 => check::<256, 4>(sel, rest),
        _ => check::<535, 9>(sel, rest),
    }
});
