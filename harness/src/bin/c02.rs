//! C02 — multiplication, widening product, inv_ring (DESIGN 4, C02).

use proptest::collection::vec;
use proptest::prelude::*;
use ruint::Uint;
use vcore::big::*;
use vcore::gen::*;
use vcore::*;

fn enum_pairs(bits: usize, f: &mut dyn FnMut(&Case) -> R) -> R {
    let m = 1u64 << bits;
    for a in 0..m {
        for b in 0..m {
            let (la, lb) = if bits == 0 { (vec![], vec![]) } else { (vec![a], vec![b]) };
            f(&Case::new().l(la.clone()).l(lb).l(la).n(9))?;
        }
    }
    Ok(())
}

/// operand with a prescribed zero-limb shape (the trimming paths of addmul)
fn shaped(bits: usize) -> BoxedStrategy<Vec<u64>> {
    let n = nlimbs(bits);
    if n == 0 {
        return Just(vec![]).boxed();
    }
    prop_oneof![
        4 => uint(bits),
        // zero low limbs
        1 => (uint(bits), 0..=n).prop_map(move |(mut v, k)| { for x in v.iter_mut().take(k) { *x = 0; } v }),
        // zero high limbs
        1 => (uint(bits), 0..=n).prop_map(move |(mut v, k)| { for x in v.iter_mut().skip(n - k) { *x = 0; } v }),
        // zero middle limbs
        1 => (uint(bits), 0..=n, 0..=n).prop_map(move |(mut v, i, j)| { let (i, j) = (i.min(j), i.max(j)); for x in v.iter_mut().take(j).skip(i) { *x = 0; } v }),
        // single bit
        1 => (0..bits).prop_map(move |k| pow2_vec(k, n)),
        // 2^k +- 1
        1 => (0..bits, any::<bool>()).prop_map(move |(k, up)| { let mut v = pow2_vec(k, n); if up { add_small(&mut v, 1) } else { sub_small(&mut v, 1) } mask_vec(v, bits) }),
    ]
    .boxed()
}

/// all pairs of values whose limbs come from a small alphabet (complete enumeration)
fn enum_alphabet_pairs(bits: usize, f: &mut dyn FnMut(&Case) -> R) -> R {
    let alpha: &[u64] = if nlimbs(bits) <= 3 { &LIMB_ALPHABET8 } else { &LIMB_ALPHABET5 };
    let vals = alphabet_values(bits, alpha);
    for la in &vals {
        for lb in &vals {
            let (la, lb) = (la.clone(), lb.clone());
            f(&Case::new().l(la.clone()).l(lb).l(la).n(9))?;
        }
    }
    Ok(())
}

fn strat(bits: usize) -> BoxedStrategy<Case> {
    let n = nlimbs(bits);
    if bits == 0 {
        return Just(Case::new().l(vec![]).l(vec![]).n(0)).boxed();
    }
    let list = vec(shaped(bits), 0..5);
    let indep = (shaped(bits), shaped(bits)).prop_map(|(a, b)| (a, b, 0u64));
    // boundary products: 2^i * 2^(BITS-i) (= 2^BITS exactly), 2^i * (2^(BITS-i) - 1), 2^i*(2^(BITS-i)+1 mod ..)
    let boundary = (0..=bits, 0u8..3).prop_map(move |(i, k)| {
        let a = pow2(i) % pow2(bits);
        let b = match k {
            0 => pow2(bits - i) % pow2(bits),
            1 => (pow2(bits - i) - 1u32) % pow2(bits),
            _ => (pow2(bits - i) + 1u32) % pow2(bits),
        };
        (limbs_of(&a, n), limbs_of(&b, n), 1u64)
    });
    // a * b within +-1 of 2^BITS: a arbitrary non-zero, b = floor((2^BITS + d)/a)
    let near = (uint_nz(bits), 0u8..3, any::<bool>()).prop_map(move |(a, k, ceil)| {
        let ab = big(&a);
        let t = pow2(bits) + BigUint::from(k as u32) - 1u32;
        let mut b = &t / &ab;
        if ceil && (&t % &ab) != BigUint::zero() {
            b += 1u32;
        }
        let b = b % pow2(bits);
        (a, limbs_of(&b, n), 2u64)
    });
    // (MAX / k) * k
    let maxk = (2u64..1000, any::<bool>()).prop_map(move |(k, plus)| {
        let max = pow2(bits) - 1u32;
        let k = BigUint::from(k) % pow2(bits);
        let k = if k.is_zero() { BigUint::one() } else { k };
        let mut q = &max / &k;
        if plus {
            q = (q + 1u32) % pow2(bits);
        }
        (limbs_of(&q, n), limbs_of(&k, n), 3u64)
    });
    // related operands: a * a (a squaring shortcut would only see these), a * (a +- 1), a * !a,
    // and the identities a * 1, a * MAX (= -a), a * 2^k
    let related = (shaped(bits), 0u8..7, 0..bits).prop_map(move |(a, k, sh)| {
        let two = pow2(bits);
        let ab = big(&a);
        let b = match k {
            0 => ab.clone(),
            1 => (&ab + 1u32) % &two,
            2 => (&ab + &two - 1u32) % &two,
            3 => &two - 1u32 - &ab,
            4 => BigUint::one() % &two,
            5 => &two - 1u32,
            _ => pow2(sh),
        };
        (a, limbs_of(&b, n), 4u64)
    });
    (prop_oneof![5 => indep, 2 => boundary, 2 => near, 1 => maxk, 2 => related], list)
        .prop_map(|((a, b, k), list)| {
            let mut c = Case::new().l(a).l(b);
            for x in list {
                c = c.l(x);
            }
            c.n(k)
        })
        .boxed()
}

fn shape_classes(rec: &mut Rec, v: &[u64]) -> bool {
    let n = v.len();
    if n == 0 {
        return false;
    }
    let lo = v[0] == 0;
    let hi = v[n - 1] == 0;
    let first_nz = v.iter().position(|x| *x != 0);
    let last_nz = v.iter().rposition(|x| *x != 0);
    let mid = match (first_nz, last_nz) {
        (Some(i), Some(j)) => v[i..=j].iter().any(|x| *x == 0),
        _ => false,
    };
    let ones = v.iter().any(|x| *x == u64::MAX);
    rec.class_if(lo, "operand_zero_low_limb");
    rec.class_if(hi, "operand_zero_high_limb");
    rec.class_if(mid, "operand_zero_middle_limb");
    rec.class_if(ones, "operand_all_ones_limb");
    (n > 1 && (lo || hi)) || mid
}

fn body<const B: usize, const L: usize>(c: &Case, rec: &mut Rec) -> R {
    type U<const B: usize, const L: usize> = Uint<B, L>;
    let a: U<B, L> = mk(&c.l[0]);
    let b: U<B, L> = mk(&c.l[1]);
    let (ab, bb) = (num(&a), num(&b));
    let m = pow2(B);
    let max: U<B, L> = mkb(&(&m - 1u32));
    let p = &ab * &bb;
    let of = p >= m;
    let w: U<B, L> = mkb(&(&p % &m));
    rec.class(match c.n.last() { Some(0) => "gen:independent", Some(1) => "gen:boundary", Some(2) => "gen:near_2^BITS", Some(3) => "gen:max_div_k", Some(4) => "gen:related", _ => "gen:enum" });
    rec.class(match L { 0 => "limbs=0", 1 => "limbs=1", 2 => "limbs=2", 3 => "limbs=3", 4 => "limbs=4", _ => "limbs>=5" });
    let sa = shape_classes(rec, a.as_limbs());
    let sb = shape_classes(rec, b.as_limbs());
    rec.class_if(of, "overflow");
    rec.class_if(p == m, "product==2^BITS");
    let crosses = p.bits() > 64;
    if !ab.is_zero() && !bb.is_zero() && (sa || sb || of || crosses) {
        rec.nontrivial(&(&c.l[0], &c.l[1]));
    }
    rec.sample(|| json!({"a": hex(&ab), "b": hex(&bb), "a*b": hex(&p), "overflow": of}));

    let r = rec.no_panic("overflowing_mul", catch(|| a.overflowing_mul(b)))?;
    rec.eqc("overflowing_mul", "value_wrong", &r.0, &w)?;
    rec.eqc("overflowing_mul", if of { "flag_false_expected_true" } else { "flag_true_expected_false" }, &r.1, &of)?;
    chk!(rec, "wrapping_mul", a.wrapping_mul(b), w);
    chk!(rec, "checked_mul", a.checked_mul(b), if of { None } else { Some(w) });
    chk!(rec, "saturating_mul", a.saturating_mul(b), if of { max } else { w });
    chk!(rec, "mul", a * b, w);
    chk!(rec, "mul_assign", { let mut x = a; x *= b; x }, w);
    chk!(rec, "mul(&,val)", &a * b, w);
    chk!(rec, "mul(val,&)", a * &b, w);
    chk!(rec, "mul(&,&)", &a * &b, w);
    chk!(rec, "mul_assign(&)", { let mut x = a; x *= &b; x }, w);

    // ---- inv_ring
    let r = rec.no_panic("inv_ring", catch(|| a.inv_ring()))?;
    rec.eval(1);
    let odd = B > 0 && (&ab % 2u32) == BigUint::one();
    match (r, odd) {
        (None, false) => {}
        (Some(x), true) => {
            let xb = num(&x);
            if xb >= m {
                rec.fail("inv_ring", "non_canonical", format!("inv_ring({}) = {} not below 2^BITS", hex(&ab), hex(&xb)))?;
            }
            if (&ab * &xb) % &m != BigUint::one() % &m {
                rec.fail("inv_ring", "not_an_inverse", format!("inv_ring({}) = {}", hex(&ab), hex(&xb)))?;
            }
        }
        (Some(x), false) => rec.fail("inv_ring", "some_for_even", format!("inv_ring({}) = Some({x})", hex(&ab)))?,
        (None, true) => rec.fail("inv_ring", "none_for_odd", format!("inv_ring({}) = None", hex(&ab)))?,
    }

    // ---- iterator products over the whole list (a, b, extra...)
    let items: Vec<U<B, L>> = c.l.iter().map(|v| mk::<B, L>(v)).collect();
    let total = items.iter().fold(BigUint::one(), |acc, x| (acc * num(x)) % &m);
    let prod_e: U<B, L> = mkb(&(&total % &m));
    chk!(rec, "product_by_value", items.iter().copied().product::<U<B, L>>(), prod_e);
    chk!(rec, "product_by_ref", items.iter().product::<U<B, L>>(), prod_e);
    // iterator shapes whose size_hint is not exact (lower bound 0), chained and owned iterators
    chk!(rec, "product(filter)", items.iter().filter(|_| true).product::<U<B, L>>(), prod_e);
    chk!(rec, "product(filter,by_value)", items.iter().copied().filter(|_| true).product::<U<B, L>>(), prod_e);
    chk!(rec, "product(from_fn)", { let mut it = items.iter().copied(); core::iter::from_fn(move || it.next()).product::<U<B, L>>() }, prod_e);
    chk!(rec, "product(chain)", items[..1].iter().chain(items[1..].iter()).product::<U<B, L>>(), prod_e);
    chk!(rec, "product(into_iter)", items.clone().into_iter().product::<U<B, L>>(), prod_e);
    chk!(rec, "product(rev)", items.iter().rev().product::<U<B, L>>(), prod_e);
    let empty: Vec<U<B, L>> = vec![];
    let one: U<B, L> = mkb(&(BigUint::one() % &m));
    chk!(rec, "product_empty", empty.iter().product::<U<B, L>>(), one);
    Ok(())
}

// ---------------------------------------------------------------- widening_mul

fn strat_wide(b1: usize, b2: usize) -> BoxedStrategy<Case> {
    (shaped(b1), shaped(b2), 0u8..4)
        .prop_map(move |(a, b, k)| {
            // extremes: MAX*MAX, MAX*x
            let a = if k == 1 { mask_vec(vec![u64::MAX; nlimbs(b1)], b1) } else { a };
            let b = if k == 1 || k == 2 { mask_vec(vec![u64::MAX; nlimbs(b2)], b2) } else { b };
            Case::new().l(a).l(b)
        })
        .boxed()
}

fn body_wide<const B1: usize, const L1: usize, const B2: usize, const L2: usize, const B3: usize, const L3: usize>(
    c: &Case,
    rec: &mut Rec,
) -> R {
    let a: Uint<B1, L1> = mk(&c.l[0]);
    let b: Uint<B2, L2> = mk(&c.l[1]);
    let p = num(&a) * num(&b);
    let exp: Uint<B3, L3> = mkb(&p);
    assert!(p < pow2(B3) || B3 == 0);
    let sa = shape_classes(rec, a.as_limbs());
    let sb = shape_classes(rec, b.as_limbs());
    if !p.is_zero() && (sa || sb || p.bits() > 64) {
        rec.nontrivial(&(B2, &c.l[0], &c.l[1]));
    }
    rec.sample(|| json!({"widening": format!("U{B1} x U{B2} -> U{B3}"), "a": hexl(&c.l[0]), "b": hexl(&c.l[1]), "a*b": hex(&p)}));
    chk!(rec, "widening_mul", a.widening_mul::<B2, L2, B3, L3>(b), exp);
    Ok(())
}

macro_rules! reg_wide {
    ($jobs:expr; $(($b1:literal, $b2:literal)),* $(,)?) => {
        $(
            $jobs.gen(
                concat!("widening_mul_", stringify!($b1), "x", stringify!($b2)),
                $b1,
                8000,
                move || strat_wide($b1, $b2),
                body_wide::<$b1, { ruint::nlimbs($b1) }, $b2, { ruint::nlimbs($b2) }, { $b1 + $b2 }, { ruint::nlimbs($b1 + $b2) }>,
            );
        )*
    };
}

fn main() {
    let spec = PropSpec {
        id: "C02",
        rule_text: "operand pairs per width from 5 generator classes (related operands b in {a, a+-1, !a, 1, MAX, 2^k}; independent values with prescribed zero-limb shapes: zero low / high / middle limbs, single bits, 2^k+-1, boundary alphabet; boundary products 2^i * (2^(BITS-i)+{-1,0,1}); a*b within +-1 of 2^BITS by construction b=floor|ceil((2^BITS+d)/a); (MAX/k)*k) plus extra values for iterator products (slice, copied, filter, from_fn, chain, into_iter, rev iterators); * through all six operator shapes; widening_mul over a grid of 24 (BITS,BITS_RHS) pairs; exhaustive enumeration of all pairs for BITS <= 8 and of all pairs of values whose limbs come from {0,1,2,2^63-1,2^63,2^63+1,MAX-1,MAX} (2-3 limbs) or {0,1,2^63,MAX-1,MAX} (4 limbs) at 8 widths. Oracle: num-bigint a*b, mod 2^BITS, exact overflow predicate; inv_ring validity a*x = 1 mod 2^BITS with x canonical, Some iff a odd and BITS>0. Non-trivial: both operands non-zero and (an operand has a zero limb at either end or in the middle, or the product overflows, or the product is wider than one limb); distinct by (rule,width,a,b).",
        assumptions: vec![
            "num-bigint arithmetic is correct (oracle)",
            "x86-64 little-endian target; fixed width grid and fixed (BITS,BITS_RHS) pair grid",
        ],
        thorough_mult: 50,
    };
    main_with(
        spec,
        |jobs, _| {
            reg_enum!(jobs, "mul_all_pairs", enum_pairs, body; [0, 1, 2, 3, 4, 5, 6, 7, 8]);
            reg_enum!(jobs, "mul_limb_alphabet", enum_alphabet_pairs, body; [65, 127, 128, 129, 190, 192, 250, 256]);
            w_all_wide!(reg_gen!(jobs, "mul", 10000, strat, body;));
            reg_gen!(jobs, "mul", 300, strat, body; [4160, 8256]);
            w_dense!(reg_gen!(jobs, "mul", 800, strat, body;));
            reg_wide!(jobs;
                (0, 0), (0, 64), (64, 0), (1, 1), (1, 63), (63, 1), (63, 64), (64, 64), (64, 65), (65, 64),
                (1, 127), (127, 1), (64, 128), (128, 64), (127, 129), (128, 128), (129, 127), (192, 64),
                (64, 192), (192, 128), (256, 256), (255, 257), (320, 192), (7, 250)
            );
        },
        |_| Map::new(),
    );
}
