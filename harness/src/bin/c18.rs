//! C18 — floating-point conversions (DESIGN 4, C18).
//!
//! Two directions:
//!  * `u2f`: `f64::from(Uint)`, `f64::from(&Uint)`, `f32::from(Uint)`, `f32::from(&Uint)`.
//!    The float's bit pattern is decoded into exact (mantissa, exponent) integers and
//!    compared in BigUint with the two representable neighbours of the exact value;
//!    +inf is allowed only from MAX_FINITE + ulp/2 upwards and required from
//!    2^(emax+1) upwards; monotone on ordered pairs.
//!  * `f2u_f64` / `f2u_f32`: `Uint::try_from(f)`, `Uint::from(f)`, `saturating_from`,
//!    `wrapping_from` (in range only) on bit patterns; the oracle is the exact integer
//!    floor(f + 1/2) computed from the decoded mantissa/exponent.
//!
//! No float arithmetic is used by the oracle. The only float arithmetic in this
//! file is (a) in the start-up self-tests, where std's `round`/`floor`/`as` casts
//! are the independent primitive the decoder is tested against, and (b) the
//! *diagnostic model* `f + 0.5` that is used exclusively to give the known defect
//! (DESIGN 6 #9) its own failure classes; it never decides pass/fail.

use proptest::prelude::*;
use ruint::{ToUintError, Uint};
use vcore::big::*;
use vcore::gen::*;
use vcore::*;

// ---------------------------------------------------------------------------
// IEEE-754 binary formats, decoded by hand

#[derive(Clone, Copy, Debug)]
struct Fmt {
    is32: bool,
    /// precision including the hidden bit
    p: u32,
    /// width of the exponent field
    w: u32,
}

const F64: Fmt = Fmt { is32: false, p: 53, w: 11 };
const F32: Fmt = Fmt { is32: true, p: 24, w: 8 };

#[derive(Clone, Copy, Debug, PartialEq, Eq)]
enum Kind {
    Nan,
    Inf,
    /// value = m * 2^e exactly
    Fin { m: u64, e: i32 },
}

#[derive(Clone, Copy, Debug, PartialEq, Eq)]
struct Dec {
    neg: bool,
    k: Kind,
}

impl Fmt {
    const fn fb(&self) -> u32 {
        self.p - 1
    }
    const fn bias(&self) -> i32 {
        (1 << (self.w - 1)) - 1
    }
    const fn emax_field(&self) -> u64 {
        (1 << self.w) - 1
    }
    const fn total(&self) -> u32 {
        self.p + self.w
    }
    const fn fmask(&self) -> u64 {
        (1u64 << self.fb()) - 1
    }
    const fn pmask(&self) -> u64 {
        if self.total() == 64 {
            u64::MAX
        } else {
            (1u64 << self.total()) - 1
        }
    }
    const fn sign_bit(&self) -> u64 {
        1u64 << (self.total() - 1)
    }
    const fn pat(&self, neg: bool, be: u64, frac: u64) -> u64 {
        ((neg as u64) << (self.total() - 1)) | (be << self.fb()) | (frac & self.fmask())
    }
    const fn inf(&self) -> u64 {
        self.pat(false, self.emax_field(), 0)
    }
    /// Pattern of 2^k, k in the normal range.
    fn pow2(&self, k: i32) -> u64 {
        let be = k + self.bias();
        assert!(be >= 1 && (be as u64) < self.emax_field());
        self.pat(false, be as u64, 0)
    }
    /// Pattern of m * 2^e; the value must be a normal number and m must fit the
    /// precision (generator helper; the oracle never uses it).
    fn enc(&self, m: u64, e: i32) -> u64 {
        assert!(m != 0);
        let bl = 64 - m.leading_zeros();
        assert!(bl <= self.p, "enc: mantissa too long");
        let frac = (m << (self.p - bl)) & self.fmask();
        let be = e + bl as i32 - 1 + self.bias();
        assert!(be >= 1 && (be as u64) < self.emax_field(), "enc: not normal");
        self.pat(false, be as u64, frac)
    }
    fn dec(&self, pat: u64) -> Dec {
        let pat = pat & self.pmask();
        let neg = pat & self.sign_bit() != 0;
        let be = (pat >> self.fb()) & self.emax_field();
        let frac = pat & self.fmask();
        let k = if be == self.emax_field() {
            if frac == 0 {
                Kind::Inf
            } else {
                Kind::Nan
            }
        } else if be == 0 {
            Kind::Fin { m: frac, e: 1 - self.bias() - self.fb() as i32 }
        } else {
            Kind::Fin { m: frac | (1u64 << self.fb()), e: be as i32 - self.bias() - self.fb() as i32 }
        };
        Dec { neg, k }
    }
    /// largest finite value
    fn max_finite(&self) -> BigUint {
        ((BigUint::one() << self.p) - 1u32) << (self.bias() as usize + 1 - self.p as usize)
    }
    /// MAX_FINITE + ulp/2 = 2^(emax+1) - 2^(emax-p): from here on +inf is a legal result
    fn inf_limit(&self) -> BigUint {
        pow2(self.bias() as usize + 1) - pow2(self.bias() as usize - self.p as usize)
    }
    /// 2^(emax+1): from here on +inf is the only legal result
    fn overflow(&self) -> BigUint {
        pow2(self.bias() as usize + 1)
    }
    fn show(&self, pat: u64) -> String {
        if self.is32 {
            format!("{:e}", f32::from_bits(pat as u32))
        } else {
            format!("{:e}", f64::from_bits(pat))
        }
    }
}

/// floor(m * 2^e + 1/2), exactly.
fn round_half_up(m: u64, e: i32) -> BigUint {
    if m == 0 {
        return BigUint::zero();
    }
    if e >= 0 {
        return BigUint::from(m) << (e as usize);
    }
    let s = (-(e as i64)) as u32;
    if s > 65 {
        // m < 2^64 <= 2^(s-2)  =>  m + 2^(s-1) < 2^s
        return BigUint::zero();
    }
    BigUint::from(((m as u128) + (1u128 << (s - 1))) >> s)
}

/// floor(m * 2^e), exactly.
fn floor_exact(m: u64, e: i32) -> BigUint {
    if e >= 0 {
        return BigUint::from(m) << (e as usize);
    }
    let s = (-(e as i64)) as u32;
    if s >= 64 {
        return BigUint::zero();
    }
    BigUint::from(m >> s)
}

/// The two neighbours of `v` among the integers representable with `p`
/// significant bits (unbounded exponent); equal iff `v` is representable.
fn neighbours(v: &BigUint, p: u32) -> (BigUint, BigUint) {
    let n = v.bits() as usize;
    if n <= p as usize {
        return (v.clone(), v.clone());
    }
    let sh = n - p as usize;
    let lo = (v >> sh) << sh;
    if &lo == v {
        (lo.clone(), lo)
    } else {
        let hi = &lo + pow2(sh);
        (lo, hi)
    }
}

/// Round-to-nearest-even of `v` to `p` significant bits (information and
/// self-test only; the property demands a neighbour, not the nearest one).
fn nearest_even(v: &BigUint, p: u32) -> BigUint {
    let (lo, hi) = neighbours(v, p);
    if lo == hi {
        return lo;
    }
    let sh = v.bits() as usize - p as usize;
    let rem = v - &lo;
    let half = pow2(sh - 1);
    match rem.cmp(&half) {
        std::cmp::Ordering::Less => lo,
        std::cmp::Ordering::Greater => hi,
        std::cmp::Ordering::Equal => {
            if ((&lo >> sh) & BigUint::one()).is_zero() {
                lo
            } else {
                hi
            }
        }
    }
}

/// Exact integer value of a finite decoded float if it is an integer.
fn fin_integer(m: u64, e: i32) -> Option<BigUint> {
    if m == 0 {
        return Some(BigUint::zero());
    }
    if e >= 0 {
        return Some(BigUint::from(m) << (e as usize));
    }
    let s = (-(e as i64)) as u32;
    if s < 64 && m.trailing_zeros() >= s {
        Some(BigUint::from(m >> s))
    } else {
        None
    }
}

// ---------------------------------------------------------------------------
// float -> Uint: oracle

#[derive(Clone, Debug, PartialEq, Eq)]
enum Exp {
    Val(BigUint),
    TooLarge,
    Negative,
    Nan,
}

#[derive(Clone, Debug, PartialEq, Eq)]
enum Got {
    Val(BigUint),
    TooLarge(usize),
    Negative(usize),
    Nan(usize),
}

fn expected(d: &Dec, bits: usize) -> Exp {
    match d.k {
        Kind::Nan => Exp::Nan,
        Kind::Inf => {
            if d.neg {
                Exp::Negative
            } else {
                Exp::TooLarge
            }
        }
        Kind::Fin { m, e } => {
            if d.neg && m != 0 {
                // every float below zero, including negative subnormals and (-0.5, 0)
                return Exp::Negative;
            }
            let r = round_half_up(m, e);
            if r.bits() as usize <= bits {
                Exp::Val(r)
            } else {
                Exp::TooLarge
            }
        }
    }
}

fn conv<const B: usize, const L: usize>(r: Result<Uint<B, L>, ToUintError<Uint<B, L>>>) -> Got {
    match r {
        Ok(x) => Got::Val(num(&x)),
        Err(ToUintError::ValueTooLarge(b, _)) => Got::TooLarge(b),
        Err(ToUintError::ValueNegative(b, _)) => Got::Negative(b),
        Err(ToUintError::NotANumber(b)) => Got::Nan(b),
    }
}

/// Compare the primary conversion with the oracle. Returns Ok(true) when it
/// matched, Ok(false) when the mismatch was attributed to a listed known
/// finding (the derived forms are then skipped for this case: they are thin
/// wrappers around the same call), Err on an unlisted mismatch.
///
/// `model` = floor of the *floating-point* sum `f + 0.5` (diagnostic only): a
/// wrong result that coincides with it is the defect "one half added in
/// floating point" and gets its own classes.
fn primary(rec: &mut Rec, check: &str, exp: &Exp, got: Result<Got, String>, model: Option<&BigUint>, bits: usize, input: &dyn Fn() -> String) -> Result<bool, Fail> {
    rec.eval(1);
    let got = match got {
        Ok(g) => g,
        Err(m) => {
            rec.fail(check, "panic", format!("{}: unexpected panic: {m}; expected {exp:?}", input()))?;
            return Ok(false);
        }
    };
    let matches = match (exp, &got) {
        (Exp::Val(v), Got::Val(w)) => v == w,
        (Exp::TooLarge, Got::TooLarge(_)) | (Exp::Negative, Got::Negative(_)) | (Exp::Nan, Got::Nan(_)) => true,
        _ => false,
    };
    if matches {
        // documented first field of every error: `.0` is BITS
        let b = match &got {
            Got::TooLarge(b) | Got::Negative(b) | Got::Nan(b) => *b,
            Got::Val(_) => bits,
        };
        if b != bits {
            rec.fail(check, "error_bits_field_wrong", format!("{}: got {got:?}, the error's BITS field must be {bits}", input()))?;
            return Ok(false);
        }
        return Ok(true);
    }
    let mut class = match (exp, &got) {
        (Exp::Val(_), Got::Val(_)) => "value_wrong",
        (Exp::Val(_), Got::TooLarge(_)) => "rejected_in_range",
        (Exp::Val(_), Got::Negative(_)) => "nonnegative_classified_negative",
        (Exp::Val(_), Got::Nan(_)) => "number_classified_nan",
        (Exp::TooLarge, Got::Val(_)) => "accepted_out_of_range",
        (Exp::TooLarge, _) => "too_large_misclassified",
        (Exp::Negative, Got::Val(_)) => "negative_accepted",
        (Exp::Negative, _) => "negative_misclassified",
        (Exp::Nan, Got::Val(_)) => "nan_accepted",
        (Exp::Nan, _) => "nan_misclassified",
    };
    if let (Exp::Val(v), Some(m)) = (exp, model) {
        if m != v {
            let fits = m.bits() as usize <= bits;
            match &got {
                Got::Val(w) if fits && w == m => class = "round_half_added_in_float",
                // the float sum left the range: either reported as too large or wrapped
                Got::TooLarge(_) if !fits => class = "round_half_added_in_float_overflow",
                Got::Val(w) if !fits && *w == m % pow2(bits) => class = "round_half_added_in_float_overflow",
                _ => {}
            }
        }
    }
    rec.fail(check, class, format!("{}: got {got:?} expected {exp:?}", input()))?;
    Ok(false)
}

fn f2u_classes(rec: &mut Rec, fmt: &Fmt, pat: u64, d: &Dec, exp: &Exp, bits: usize, gen: Option<u64>) {
    rec.class(match gen {
        Some(0) => "gen:nan",
        Some(1) => "gen:inf_zero",
        Some(2) => "gen:subnormal",
        Some(3) => "gen:below_half",
        Some(4) => "gen:k_plus_half",
        Some(5) => "gen:top_integer_binade",
        Some(6) => "gen:at_least_2^p",
        Some(7) => "gen:around_2^BITS",
        Some(8) => "gen:in_range",
        Some(9) => "gen:uniform_pattern",
        Some(10) => "gen:small_integer_neighbourhood",
        Some(99) => "gen:grid",
        _ => "gen:other",
    });
    rec.class(match exp {
        Exp::Val(_) => "expect:ok",
        Exp::TooLarge => "expect:too_large",
        Exp::Negative => "expect:negative",
        Exp::Nan => "expect:nan",
    });
    let mag = pat & !fmt.sign_bit() & fmt.pmask();
    let mut nt = false;
    match d.k {
        Kind::Nan => {
            nt = true;
            rec.class(if d.neg { "in:nan_negative_sign" } else { "in:nan_positive_sign" });
            rec.class_if(mag & (1u64 << (fmt.fb() - 1)) == 0, "in:nan_signalling");
        }
        Kind::Inf => {
            nt = true;
            rec.class(if d.neg { "in:-inf" } else { "in:+inf" });
        }
        Kind::Fin { m, e } => {
            if m == 0 {
                nt = true;
                rec.class(if d.neg { "in:-0" } else { "in:+0" });
            } else {
                let subnormal = mag >> fmt.fb() == 0;
                if subnormal {
                    nt = true;
                    rec.class(if d.neg { "in:subnormal_negative" } else { "in:subnormal_positive" });
                }
                let half_pat = fmt.pat(false, (fmt.bias() - 1) as u64, 0);
                if mag < half_pat && !subnormal {
                    rec.class(if d.neg { "in:(-0.5,0)" } else { "in:(0,0.5)" });
                }
                rec.class_if(mag == half_pat - 1, if d.neg { "in:-(0.5-ulp)" } else { "in:0.5-ulp" });
                rec.class_if(mag == half_pat, if d.neg { "in:-0.5" } else { "in:0.5" });
                // fractional part exactly one half: lowest set bit of m has weight 2^-1
                let half_frac = e < 0 && (m.trailing_zeros() as i64) == -(e as i64) - 1;
                if half_frac {
                    nt = true;
                    rec.class(if d.neg { "in:-(k+0.5)" } else { "in:k+0.5" });
                }
                // integers in [2^(p-1), 2^p)
                if e == 0 && m >> fmt.fb() == 1 {
                    nt = true;
                    rec.class(match (d.neg, m & 1 == 1) {
                        (false, true) => "in:top_binade_integer_odd",
                        (false, false) => "in:top_binade_integer_even",
                        (true, true) => "in:-top_binade_integer_odd",
                        (true, false) => "in:-top_binade_integer_even",
                    });
                }
                rec.class_if(e > 0, if d.neg { "in:<=-2^p" } else { "in:>=2^p" });
                rec.class_if(!d.neg && e < 0 && !half_frac && mag >= half_pat && fin_integer(m, e).is_none(), "in:fraction_not_half");
                rec.class_if(!d.neg && e <= 0 && fin_integer(m, e).is_some(), "in:integer_below_2^p");
            }
        }
    }
    // within one ulp of 2^BITS (or of the top of the format when 2^BITS is beyond it)
    let top = if bits as i64 <= fmt.bias() as i64 { fmt.pow2(bits as i32) } else { fmt.inf() };
    if mag + 1 >= top && mag <= top + 1 && d.k != Kind::Nan {
        nt = true;
        rec.class(match (d.neg, mag.cmp(&top)) {
            (false, std::cmp::Ordering::Less) => "in:next_down(2^BITS)",
            (false, std::cmp::Ordering::Equal) => "in:2^BITS",
            (false, std::cmp::Ordering::Greater) => "in:next_up(2^BITS)",
            (true, _) => "in:-(2^BITS+-ulp)",
        });
    }
    if let (Kind::Fin { m, e }, false) = (d.k, d.neg) {
        // 2^BITS - 1, 2^BITS - 0.5, 2^BITS - 1.5 where representable
        if m != 0 {
            let tz = m.trailing_zeros();
            let (m, e) = (m >> tz, e + tz as i32); // lowest terms
            if e >= -1 && (e as i64) <= bits as i64 + 1 {
                let twice = BigUint::from(m) << ((e + 1) as usize); // 2f
                let two_b = pow2(bits + 1);
                rec.class_if(&twice + 2u32 == two_b, "in:2^BITS-1");
                rec.class_if(&twice + 1u32 == two_b, "in:2^BITS-0.5");
                rec.class_if(&twice + 3u32 == two_b, "in:2^BITS-1.5");
            }
        }
    }
    if nt {
        rec.nontrivial(&(fmt.is32, pat));
    }
}

macro_rules! f2u_body {
    ($name:ident, $fty:ty, $fmt:expr, $mk:expr, [$c_try:literal, $c_from:literal, $c_sat:literal, $c_wrap:literal]) => {
        fn $name<const B: usize, const L: usize>(c: &Case, rec: &mut Rec) -> R {
            let fmt: Fmt = $fmt;
            let pat = c.n[0] & fmt.pmask();
            let f: $fty = $mk(pat);
            let d = fmt.dec(pat);
            let exp = expected(&d, B);
            f2u_classes(rec, &fmt, pat, &d, &exp, B, c.n.get(1).copied());
            rec.sample(|| json!({"pattern": format!("0x{pat:x}"), "float": fmt.show(pat), "expected": format!("{exp:?}")}));
            // diagnostic model of the known defect: the sum f + 0.5 evaluated in f64
            // (an f32 is widened first, exactly like the library does)
            let model = match (d.neg, d.k) {
                (false, Kind::Fin { .. }) => {
                    let g: f64 = (f as f64) + 0.5;
                    match F64.dec(g.to_bits()).k {
                        Kind::Fin { m, e } => Some(floor_exact(m, e)),
                        _ => None,
                    }
                }
                _ => None,
            };
            let input = || format!("{} (0x{pat:x})", fmt.show(pat));
            let got = catch(|| conv(Uint::<B, L>::try_from(f)));
            if !primary(rec, $c_try, &exp, got, model.as_ref(), B, &input)? {
                return Ok(());
            }
            // Uint::from panics iff the conversion is an error
            let r = catch(|| Uint::<B, L>::from(f));
            match &exp {
                Exp::Val(v) => {
                    let x = rec.no_panic($c_from, r)?;
                    rec.eq($c_from, &num(&x), v)?;
                }
                _ => rec.must_panic($c_from, r.map(|x| num(&x)))?,
            }
            // saturating_from: MAX / 0 / 0
            let sat = match &exp {
                Exp::Val(v) => v.clone(),
                Exp::TooLarge => mask_big(B),
                Exp::Negative | Exp::Nan => BigUint::zero(),
            };
            let x = rec.no_panic($c_sat, catch(|| Uint::<B, L>::saturating_from(f)))?;
            rec.eqc(
                $c_sat,
                match &exp {
                    Exp::Val(_) => "value_wrong",
                    Exp::TooLarge => "too_large_not_max",
                    Exp::Negative => "negative_not_zero",
                    Exp::Nan => "nan_not_zero",
                },
                &num(&x),
                &sat,
            )?;
            // wrapping_from: compared in range only; it must not panic anywhere
            let x = rec.no_panic($c_wrap, catch(|| Uint::<B, L>::wrapping_from(f)))?;
            if let Exp::Val(v) = &exp {
                rec.eq($c_wrap, &num(&x), v)?;
            }
            Ok(())
        }
    };
}

f2u_body!(f2u_f64, f64, F64, |p: u64| f64::from_bits(p), ["try_from_f64", "from_f64", "saturating_from_f64", "wrapping_from_f64"]);
f2u_body!(f2u_f32, f32, F32, |p: u64| f32::from_bits(p as u32), ["try_from_f32", "from_f32", "saturating_from_f32", "wrapping_from_f32"]);

// ---------------------------------------------------------------------------
// float -> Uint: generators

/// (pattern, generator class)
fn fclasses(fmt: Fmt, bits: usize) -> BoxedStrategy<(u64, u64)> {
    let fb = fmt.fb();
    let p = fmt.p as usize;
    let fmask = fmt.fmask();
    let bias = fmt.bias() as u64;
    let emaxf = fmt.emax_field();
    let sign = fmt.sign_bit();
    let pmask = fmt.pmask();
    let top = if bits as u64 <= bias { fmt.pow2(bits as i32) } else { fmt.inf() };
    let top_is_inf = bits as u64 > bias;
    let frac = prop_oneof![
        4 => any::<u64>().prop_map(move |x| x & fmask),
        1 => Just(0u64),
        1 => Just(fmask),
        1 => Just(1u64),
        1 => Just(fmask - 1),
        1 => (0..fb).prop_map(|k| 1u64 << k),
        1 => (0..fb).prop_map(move |k| fmask & !((1u64 << k) - 1)),
    ]
    .boxed();
    let neg = prop_oneof![3 => Just(false), 1 => Just(true)].boxed();
    let sg = move |pat: u64, n: bool| if n { pat | sign } else { pat };

    let nan = (
        any::<bool>(),
        prop_oneof![
            Just(1u64),
            Just(1u64 << (fb - 1)),
            Just(fmask),
            Just((1u64 << (fb - 1)) | 1),
            Just((1u64 << (fb - 1)) - 1),
            any::<u64>().prop_map(move |x| (x & fmask).max(1)),
        ],
    )
        .prop_map(move |(s, pl)| (fmt.pat(s, emaxf, pl), 0u64));
    let infzero = prop_oneof![Just(fmt.inf()), Just(fmt.inf() | sign), Just(0u64), Just(sign)].prop_map(|x| (x, 1u64));
    let sub = (any::<bool>(), frac.clone()).prop_map(move |(s, f)| (fmt.pat(s, 0, f.max(1)), 2u64));
    let below_half = prop_oneof![
        3 => (neg.clone(), 1..=(bias - 2), frac.clone()).prop_map(move |(s, be, f)| fmt.pat(s, be, f)),
        3 => (neg.clone(), (bias - 4)..=(bias - 2), frac.clone()).prop_map(move |(s, be, f)| fmt.pat(s, be, f)),
        2 => neg.clone().prop_map(move |s| fmt.pat(s, bias - 2, fmask)), // 0.5 - ulp
        1 => neg.clone().prop_map(move |s| fmt.pat(s, bias - 2, fmask - 1)),
        1 => neg.clone().prop_map(move |s| fmt.pat(s, 1, 0)), // smallest normal
    ]
    .prop_map(|x| (x, 3u64));
    // k + 0.5 for k < 2^(p-1), and its pattern neighbours
    let half = (neg.clone(), 0..p, any::<u64>(), 0u8..5, prop_oneof![4 => Just(0i64), 1 => Just(-1i64), 1 => Just(1i64)]).prop_map(
        move |(s, j, r, kind, step)| {
            let rnd = if j == 0 { 0 } else { (r >> (64 - j)) | (1u64 << (j - 1)) };
            let k = match kind {
                0 | 1 => rnd,
                2 if bits >= 1 && bits < p => (1u64 << bits) - 1, // 2^BITS - 0.5 -> too large
                3 if bits >= 1 && bits < p => (1u64 << bits) - 2, // 2^BITS - 1.5 -> MAX
                4 => r % 4,
                _ => rnd,
            };
            let pat = fmt.enc(2 * k + 1, -1);
            (sg((pat as i64 + step) as u64, s), 4u64)
        },
    );
    // integers in [2^(p-1), 2^p): adding one half is not representable for the odd ones
    let top_binade = (neg.clone(), any::<u64>(), 0u8..8).prop_map(move |(s, r, kind)| {
        let f = match kind {
            0 | 1 | 2 => (r & fmask) | 1,
            3 | 4 => r & fmask & !1,
            5 => fmask,
            6 => 1,
            _ => (1u64 << (r % fb as u64)) | (r >> 63),
        };
        (sg(fmt.pat(false, bias + fb as u64, f), s), 5u64)
    });
    let big = prop_oneof![
        2 => (neg.clone(), (bias + p as u64)..emaxf, frac.clone()).prop_map(move |(s, be, f)| sg(fmt.pat(false, be, f), s)),
        2 => (neg.clone(), -3i64..=3, frac.clone()).prop_map(move |(s, d, f)| {
            let be = (bias as i64 + bits as i64 + d).clamp(bias as i64 + p as i64, emaxf as i64 - 1) as u64;
            sg(fmt.pat(false, be, f), s)
        }),
    ]
    .prop_map(|x| (x, 6u64));
    let boundary = (neg.clone(), 0u8..4, -3i64..=3).prop_map(move |(s, which, d)| {
        let at_top = {
            let d = if top_is_inf { -d.abs() } else { d };
            (top as i64 + d) as u64
        };
        let d2 = d.clamp(-2, 2);
        let pat = match which {
            // 2^BITS - 0.5 and its pattern neighbours
            1 if bits + 1 <= p => (fmt.enc((1u64 << (bits + 1)) - 1, -1) as i64 + d2) as u64,
            // 2^BITS - 1 and its pattern neighbours
            2 if bits >= 1 && bits <= p => (fmt.enc((1u64 << bits) - 1, 0) as i64 + d2) as u64,
            // 2^BITS - 1.5: the largest tie that stays in range
            3 if bits >= 1 && bits + 1 <= p => (fmt.enc((1u64 << (bits + 1)) - 3, -1) as i64 + d2) as u64,
            _ => at_top,
        };
        (sg(pat & pmask & !sign, s), 7u64)
    });
    // values inside the range with arbitrary fractions
    let hi_e = if bits == 0 { -1i64 } else { (bits as i64 - 1).min(bias as i64) };
    let in_range = (neg.clone(), -2i64..=hi_e, frac.clone()).prop_map(move |(s, e, f)| (sg(fmt.pat(false, (e + bias as i64) as u64, f), s), 8u64));
    let uniform = any::<u64>().prop_map(move |x| (x & pmask, 9u64));
    let small = (neg.clone(), 1u64..=260, -2i64..=2).prop_map(move |(s, k, d)| (sg((fmt.enc(k, 0) as i64 + d) as u64, s), 10u64));
    prop_oneof![
        1 => nan,
        1 => infzero,
        1 => sub,
        2 => below_half,
        3 => half,
        3 => top_binade,
        2 => big,
        4 => boundary,
        3 => in_range,
        2 => uniform,
        1 => small,
    ]
    .boxed()
}

fn strat_f64(bits: usize) -> BoxedStrategy<Case> {
    fclasses(F64, bits).prop_map(|(p, g)| Case::new().n(p).n(g)).boxed()
}

fn strat_f32(bits: usize) -> BoxedStrategy<Case> {
    fclasses(F32, bits).prop_map(|(p, g)| Case::new().n(p).n(g)).boxed()
}

/// Exhaustive sub-spaces of f32, split in slices (one job each).
/// Quick grid: every sign x exponent x top 11 fraction bits with the low 12
/// fraction bits all zero or all one (2^21 patterns per width).
/// Fine grid (thorough tier): top 15 fraction bits, low 8 bits all zero or all
/// one (2^25 patterns per width).
const GRID_SLICES: u64 = 8;
const FINE_SLICES: u64 = 64;

fn enum_f32_grid(slice: u64, fine: bool, f: &mut dyn FnMut(&Case) -> R) -> R {
    let (hi_bits, low_bits, slices) = if fine { (24u32, 8u32, FINE_SLICES) } else { (20, 12, GRID_SLICES) };
    let per = (1u64 << hi_bits) / slices;
    let ones = (1u64 << low_bits) - 1;
    for hi in slice * per..(slice + 1) * per {
        for lo in [0u64, ones] {
            f(&Case::new().n((hi << low_bits) | lo).n(99))?;
        }
    }
    Ok(())
}

macro_rules! reg_grid {
    ($jobs:expr, $fine:expr; [$($b:literal),*]) => {
        $(
            for s in 0..(if $fine { FINE_SLICES } else { GRID_SLICES }) {
                $jobs.enumerate("f2u_f32_grid", $b, move |f| enum_f32_grid(s, $fine, f), f2u_f32::<$b, { ruint::nlimbs($b) }>);
            }
        )*
    };
}

// ---------------------------------------------------------------------------
// Uint -> float

/// Check one conversion result (bit pattern `pat` of format `fmt`) against the
/// exact value. Returns the rank used for the monotonicity comparison.
fn check_float(rec: &mut Rec, check: &str, fmt: &Fmt, v: &BigUint, pat: u64) -> Result<u64, Fail> {
    rec.eval(1);
    let d = fmt.dec(pat);
    let (lo, hi) = neighbours(v, fmt.p);
    let describe = || format!("value {} -> {} (0x{pat:x}); neighbours {} / {}", hex(v), fmt.show(pat), hex(&lo), hex(&hi));
    match d.k {
        Kind::Nan => {
            rec.fail(check, "result_nan", describe())?;
        }
        Kind::Inf => {
            if d.neg {
                rec.fail(check, "result_negative", describe())?;
            } else if *v < fmt.inf_limit() {
                rec.fail(check, "inf_below_rounding_limit", describe())?;
            }
        }
        Kind::Fin { m, e } => {
            if d.neg && m != 0 {
                rec.fail(check, "result_negative", describe())?;
            } else if lo >= fmt.overflow() {
                rec.fail(check, "finite_above_range", describe())?;
            } else {
                let r = fin_integer(m, e);
                let ok = match &r {
                    Some(r) => *r == lo || *r == hi,
                    None => false,
                };
                if !ok {
                    let class = if lo == hi {
                        "inexact_for_representable"
                    } else {
                        match &r {
                            Some(r) if *r < lo => "below_lower_neighbour",
                            Some(r) if *r > hi => "above_upper_neighbour",
                            _ => "not_a_neighbour",
                        }
                    };
                    rec.fail(check, class, describe())?;
                }
            }
        }
    }
    let mag = pat & !fmt.sign_bit() & fmt.pmask();
    Ok(if d.neg && mag != 0 { 0 } else { mag })
}

fn u2f_classes(rec: &mut Rec, v: &BigUint, r64: u64, r32: u64) {
    let n = v.bits() as usize;
    rec.class(match n {
        0..=24 => "u2f:bit_len<=24",
        25..=53 => "u2f:bit_len_25..53",
        54..=64 => "u2f:bit_len_54..64",
        _ => "u2f:bit_len>64",
    });
    if n > 64 {
        let tail = v % pow2(n - 64);
        rec.class_if(!tail.is_zero(), "u2f:nonzero_tail_below_top64");
        let top = v >> (n - 64);
        rec.class_if(!tail.is_zero() && (&top % pow2(11)) == pow2(10), "u2f:f64_tie_in_top64_with_nonzero_tail");
        rec.class_if(!tail.is_zero() && (&top % pow2(11)).is_zero(), "u2f:f64_top64_exact_with_nonzero_tail");
        rec.class_if(!tail.is_zero() && (&top % pow2(40)) == pow2(39), "u2f:f32_tie_in_top64_with_nonzero_tail");
    }
    for (fmt, r) in [(&F64, r64), (&F32, r32)] {
        let is32 = fmt.is32;
        let (lo, hi) = neighbours(v, fmt.p);
        let d = fmt.dec(r);
        if lo != hi {
            rec.class(if is32 { "f32:inexact" } else { "f64:inexact" });
            let sh = n - fmt.p as usize;
            rec.class_if(v - &lo == pow2(sh - 1), if is32 { "f32:exact_tie" } else { "f64:exact_tie" });
            if let Kind::Fin { m, e } = d.k {
                let rv = fin_integer(m, e);
                rec.class_if(rv.as_ref() == Some(&lo), if is32 { "f32:rounded_down" } else { "f64:rounded_down" });
                rec.class_if(rv.as_ref() == Some(&hi), if is32 { "f32:rounded_up" } else { "f64:rounded_up" });
                rec.class_if(rv.as_ref() == Some(&hi) && hi.bits() > lo.bits(), if is32 { "f32:rounded_up_to_next_binade" } else { "f64:rounded_up_to_next_binade" });
                rec.class_if(rv.is_some() && rv != Some(nearest_even(v, fmt.p)), if is32 { "f32:neighbour_but_not_nearest" } else { "f64:neighbour_but_not_nearest" });
            }
        }
        rec.class_if(d.k == Kind::Inf, if is32 { "f32:result_inf" } else { "f64:result_inf" });
        let mx = fmt.max_finite();
        rec.class_if(*v == mx, if is32 { "f32:value=MAX_FINITE" } else { "f64:value=MAX_FINITE" });
        rec.class_if(*v > mx && *v < fmt.inf_limit(), if is32 { "f32:(MAX_FINITE,limit)" } else { "f64:(MAX_FINITE,limit)" });
        rec.class_if(*v >= fmt.inf_limit() && *v < fmt.overflow(), if is32 { "f32:[limit,2^128)" } else { "f64:[limit,2^1024)" });
        rec.class_if(*v >= fmt.overflow(), if is32 { "f32:>=2^128" } else { "f64:>=2^1024" });
    }
}

fn u2f<const B: usize, const L: usize>(c: &Case, rec: &mut Rec) -> R {
    let a: Uint<B, L> = mk(&c.l[0]);
    let b: Uint<B, L> = mk(&c.l[1]);
    let (va, vb) = (num(&a), num(&b));
    // ordered pair x <= y
    let (x, y, vx, vy) = if va <= vb { (a, b, va, vb) } else { (b, a, vb, va) };
    rec.class(match c.n.first() {
        Some(0) => "gen:alphabet",
        Some(1) => "gen:pow2_neighbourhood",
        Some(2) => "gen:mantissa_pattern_tail",
        Some(3) => "gen:float_range_limits",
        Some(98) => "gen:enum",
        _ => "gen:other",
    });
    if vx.bits() > 24 || vy.bits() > 24 {
        rec.nontrivial(&(&c.l[0], &c.l[1]));
    }
    let mut pats = [[0u64; 2]; 2];
    for (i, (u, v)) in [(&x, &vx), (&y, &vy)].into_iter().enumerate() {
        let u = *u;
        let r = rec.no_panic("f64_from_ref", catch(|| f64::from(&u)))?;
        let rank = check_float(rec, "f64_from_ref", &F64, v, r.to_bits())?;
        let r2 = rec.no_panic("f64_from", catch(|| f64::from(u)))?;
        check_float(rec, "f64_from", &F64, v, r2.to_bits())?;
        pats[i][0] = rank;
        let s = rec.no_panic("f32_from_ref", catch(|| f32::from(&u)))?;
        let rank = check_float(rec, "f32_from_ref", &F32, v, s.to_bits() as u64)?;
        let s2 = rec.no_panic("f32_from", catch(|| f32::from(u)))?;
        check_float(rec, "f32_from", &F32, v, s2.to_bits() as u64)?;
        pats[i][1] = rank;
        u2f_classes(rec, v, r.to_bits(), s.to_bits() as u64);
        if i == 1 {
            rec.sample(|| json!({"value": hex(v), "f64": format!("{r:e}"), "f64_bits": format!("0x{:x}", r.to_bits()), "f32": format!("{s:e}"), "f32_bits": format!("0x{:x}", s.to_bits()), "paired_with": hex(&vx)}));
        }
    }
    // monotone: x <= y  =>  float(x) <= float(y); non-negative, non-NaN patterns order like the values
    rec.class(if vx == vy { "pair:equal" } else if pats[0][0] == pats[1][0] { "pair:same_f64" } else { "pair:different_f64" });
    rec.ensure("f64_from_ref", "not_monotone", pats[0][0] <= pats[1][0], || {
        format!("{} <= {} but f64 {} > {}", hex(&vx), hex(&vy), F64.show(pats[0][0]), F64.show(pats[1][0]))
    })?;
    rec.ensure("f32_from_ref", "not_monotone", pats[0][1] <= pats[1][1], || {
        format!("{} <= {} but f32 {} > {}", hex(&vx), hex(&vy), F32.show(pats[0][1]), F32.show(pats[1][1]))
    })?;
    Ok(())
}

fn enum_u2f(bits: usize, f: &mut dyn FnMut(&Case) -> R) -> R {
    if bits == 0 {
        return f(&Case::new().l(vec![]).l(vec![]).n(98));
    }
    let m = 1u64 << bits;
    for a in 0..m {
        let b = if a + 1 < m { a + 1 } else { a };
        f(&Case::new().l(vec![a]).l(vec![b]).n(98))?;
    }
    Ok(())
}

/// (value limbs, generator class)
fn u2f_value(bits: usize) -> BoxedStrategy<(Vec<u64>, u64)> {
    let n = nlimbs(bits);
    let alphabet = uint(bits).prop_map(|v| (v, 0u64));
    let pow2n = (0..bits, 0u8..5).prop_map(move |(k, d)| {
        let mut v = pow2_vec(k, n);
        match d {
            0 => {}
            1 => sub_small(&mut v, 1),
            2 => add_small(&mut v, 1),
            3 => sub_small(&mut v, 2),
            _ => add_small(&mut v, 2),
        }
        (mask_vec(v, bits), 1u64)
    });
    // head of p significant bits, then a guard/tail field chosen around the
    // rounding point and around bit 64 below the top (where the library truncates)
    let pattern = (1..=bits, prop_oneof![Just(53usize), Just(24usize), Just(54usize), Just(25usize), Just(64usize), Just(65usize)], 0u8..6, any::<u64>(), 0u8..11, limbs(n)).prop_map(
        move |(len, p, hk, r, gk, rnd)| {
            let rnd = big(&rnd);
            if len <= p {
                let v = (&rnd % pow2(len)) | pow2(len - 1);
                return (limbs_of(&v, n), 2u64);
            }
            let r = BigUint::from(r);
            let head = pow2(p - 1)
                | match hk {
                    0 => pow2(p - 1) - 1u32,          // all ones
                    1 => BigUint::zero(),             // 2^(p-1)
                    2 => &r % pow2(p - 1),            // random
                    3 => (&r % pow2(p - 1)) | BigUint::one(), // odd last place
                    4 => ((&r % pow2(p - 1)) >> 1) << 1,      // even last place
                    _ => (pow2(p - 1) - 1u32) ^ BigUint::one(), // all ones but the last place
                };
            let w = len - p; // >= 1
            let half = pow2(w - 1);
            let t = len.saturating_sub(64).min(w.saturating_sub(1)); // bits below the top 64 (and below the half bit)
            let low = if t == 0 { BigUint::zero() } else { (&rnd % pow2(t)) | BigUint::one() };
            let g = match gk {
                0 => BigUint::zero(),
                1 => half.clone(),
                2 => &half - 1u32,
                3 => (&half + 1u32) % pow2(w),
                4 => pow2(w) - 1u32,
                5 => BigUint::one(),
                6 => &rnd % pow2(w),
                7 => &half + &low,                        // tie in the top 64 bits + non-zero tail below
                8 => low,                                 // zero guard bits + non-zero tail below
                9 => if t == 0 { half.clone() } else { &half + pow2(t - 1) },
                _ => if t == 0 { &half - 1u32 } else { &half - 1u32 - (pow2(t) - 1u32) + &low - 1u32 }, // just below the tie, ones down to bit 64
            };
            let v = (head << w) | (g % pow2(w));
            (limbs_of(&v, n), 2u64)
        },
    );
    // values straddling MAX_FINITE, MAX_FINITE + ulp/2 and 2^(emax+1) of both formats
    let limits = (0u8..6, any::<bool>(), prop_oneof![4 => (0u64..4).boxed(), 2 => any::<u64>().boxed(), 2 => Just(0u64).boxed()], 0usize..2048, any::<bool>()).prop_map(
        move |(which, minus, d, k, use_pow)| {
            let fmt = if which < 3 { F32 } else { F64 };
            let thr = match which % 3 {
                0 => fmt.max_finite(),
                1 => fmt.inf_limit(),
                _ => fmt.overflow(),
            };
            let delta = if use_pow { pow2(k % (fmt.bias() as usize + 2)) } else { BigUint::from(d) };
            let v = if minus { if delta <= thr { &thr - &delta } else { thr } } else { thr + delta };
            (limbs_of(&(v % pow2(bits)), n), 3u64)
        },
    );
    if bits >= 128 {
        prop_oneof![3 => alphabet, 2 => pow2n, 6 => pattern, 3 => limits].boxed()
    } else {
        prop_oneof![3 => alphabet, 2 => pow2n, 6 => pattern].boxed()
    }
}

fn strat_u2f(bits: usize) -> BoxedStrategy<Case> {
    let n = nlimbs(bits);
    if bits == 0 {
        return Just(Case::new().l(vec![]).l(vec![]).n(0)).boxed();
    }
    (u2f_value(bits), 0u8..13, any::<u64>(), 0..bits).prop_map(move |((v, g), dk, r, k)| {
        let vb = big(&v);
        let len = vb.bits() as usize;
        if dk >= 9 {
            // same leading 64 (or 53, or 24) bits, a different tail below them: the two values
            // may only differ in how the discarded bits are spread over the lower limbs (a single
            // lowest bit, a bit in the limb the window ends in, a bit in a limb entirely below it,
            // all ones, a generated tail); the pair is ordered afterwards
            let keep = [64usize, 64, 53, 24][(dk - 9) as usize];
            if len > keep {
                let t = len - keep;
                let head = (&vb >> t) << t;
                let tail = match r % 8 {
                    0 => BigUint::zero(),
                    1 => BigUint::one(),
                    2 => pow2(t - 1),
                    3 => pow2(t - 1) - 1u32,
                    4 => pow2(t) - 1u32,
                    5 => pow2((t - 1) / 64 * 64),          // lowest bit of the limb the window ends in
                    6 => pow2(((t - 1) / 64 * 64).saturating_sub(64)), // a bit one limb further down
                    _ => BigUint::from(r) % pow2(t),
                };
                let w = head + tail;
                let (lo, hi) = if w < vb { (w, vb) } else { (vb, w) };
                return Case::new().l(limbs_of(&lo, n)).l(limbs_of(&hi, n)).n(g);
            }
        }
        let delta = match dk {
            0 => BigUint::one(),
            1 => BigUint::from(2u32),
            2 => pow2(k),
            3 => BigUint::from(r),
            4 => pow2(len.saturating_sub(54)),
            5 => pow2(len.saturating_sub(25)),
            6 => pow2(len.saturating_sub(64)),
            7 => pow2(len.saturating_sub(65)),
            _ => BigUint::from(r >> (r % 64)),
        };
        let w = (vb + delta).min(mask_big(bits));
        Case::new().l(v).l(limbs_of(&w, n)).n(g)
    })
    .boxed()
}

// ---------------------------------------------------------------------------
// Start-up self-tests of the oracle helpers against independent primitives
// (std's float `round` / `floor` / `as` casts).

fn self_test() {
    let err = |m: String| -> ! { harness_error(&format!("C18 oracle self-test: {m}")) };
    // decoder + exact rounding against f64::round / f64::floor and `as u128`
    let mut n_half = 0;
    for bits in [7usize, 64, 100] {
        for (pat, _) in draw(&fclasses(F64, bits), 18, 3000) {
            let f = f64::from_bits(pat);
            let d = F64.dec(pat);
            if d.neg != f.is_sign_negative() || (d.k == Kind::Nan) != f.is_nan() || (d.k == Kind::Inf) != f.is_infinite() {
                err(format!("f64 decode class of 0x{pat:x}"));
            }
            if let (Kind::Fin { m, e }, false) = (d.k, d.neg) {
                if f < 1e38 {
                    if round_half_up(m, e) != BigUint::from(f.round() as u128) {
                        err(format!("round_half_up f64 0x{pat:x}"));
                    }
                    if floor_exact(m, e) != BigUint::from(f.floor() as u128) {
                        err(format!("floor_exact f64 0x{pat:x}"));
                    }
                    if f.fract() == 0.5 {
                        n_half += 1;
                    }
                    match fin_integer(m, e) {
                        Some(v) => {
                            if f.fract() != 0.0 || v != BigUint::from(f as u128) {
                                err(format!("fin_integer f64 0x{pat:x}"));
                            }
                        }
                        None => {
                            if f.fract() == 0.0 {
                                err(format!("fin_integer f64 0x{pat:x} missed an integer"));
                            }
                        }
                    }
                }
            }
        }
        for (pat, _) in draw(&fclasses(F32, bits), 19, 3000) {
            let f = f32::from_bits(pat as u32);
            let d = F32.dec(pat);
            if d.neg != f.is_sign_negative() || (d.k == Kind::Nan) != f.is_nan() || (d.k == Kind::Inf) != f.is_infinite() {
                err(format!("f32 decode class of 0x{pat:x}"));
            }
            if let (Kind::Fin { m, e }, false) = (d.k, d.neg) {
                if f < 1e38 {
                    if round_half_up(m, e) != BigUint::from(f.round() as u128) {
                        err(format!("round_half_up f32 0x{pat:x}"));
                    }
                    if floor_exact(m, e) != BigUint::from(f.floor() as u128) {
                        err(format!("floor_exact f32 0x{pat:x}"));
                    }
                }
                // widening is exact: both decoders must agree on the value
                let d64 = F64.dec((f as f64).to_bits());
                if let Kind::Fin { m: m2, e: e2 } = d64.k {
                    let (a, b) = if e <= e2 { ((m2 as u128) << (e2 - e).min(70), m as u128) } else { (m2 as u128, (m as u128) << (e - e2).min(70)) };
                    if a != b && !(m == 0 && m2 == 0) {
                        err(format!("f32/f64 decoders disagree on 0x{pat:x}"));
                    }
                }
            }
        }
    }
    if n_half < 100 {
        err(format!("generator produced only {n_half} k+0.5 inputs"));
    }
    // literal anchors
    if F64.dec(4503599627370497.0f64.to_bits()).k != (Kind::Fin { m: (1 << 52) + 1, e: 0 }) {
        err("decode of 2^52+1".into());
    }
    if round_half_up((1 << 52) + 1, 0) != BigUint::from((1u64 << 52) + 1) || round_half_up(5, -1) != BigUint::from(3u32) || round_half_up(0x1f_ffff_ffff_ffff, -54) != BigUint::zero() || round_half_up(1, -1) != BigUint::one() {
        err("round_half_up anchors".into());
    }
    if F64.enc(5, -1) != 2.5f64.to_bits() || F32.enc(5, -1) != 2.5f32.to_bits() as u64 || F64.pow2(64) != 18446744073709551616.0f64.to_bits() || F64.inf() != f64::INFINITY.to_bits() || F32.inf() != f32::INFINITY.to_bits() as u64 {
        err("encoder anchors".into());
    }
    // neighbours / nearest_even / limits against the correctly rounded `as` casts
    let mut xs: Vec<u128> = draw(&uint(128), 20, 4000).into_iter().map(|v| (v[0] as u128) | ((v[1] as u128) << 64)).collect();
    let lim32 = u128::MAX - (1u128 << 103) + 1; // 2^128 - 2^103
    for d in 0..3u128 {
        xs.extend([lim32 - d, lim32 + d, u128::MAX - d, (1u128 << 53) + d, (1u128 << 54) + d, (1u128 << 24) + d, (1u128 << 25) + d, (3u128 << 63) + d]);
    }
    for x in xs {
        let v = BigUint::from(x);
        for fmt in [F64, F32] {
            let pat = if fmt.is32 { (x as f32).to_bits() as u64 } else { (x as f64).to_bits() };
            let near = nearest_even(&v, fmt.p);
            let (lo, hi) = neighbours(&v, fmt.p);
            if !(lo <= v && v <= hi && (near == lo || near == hi)) {
                err(format!("neighbours of {x}"));
            }
            match fmt.dec(pat).k {
                Kind::Fin { m, e } => {
                    if fin_integer(m, e) != Some(near.clone()) || near >= fmt.overflow() {
                        err(format!("nearest_even({x}) vs `as` cast ({})", fmt.show(pat)));
                    }
                }
                Kind::Inf => {
                    if v < fmt.inf_limit() || near < fmt.overflow() {
                        err(format!("inf limit vs `as` cast at {x}"));
                    }
                }
                Kind::Nan => err("cast produced NaN".into()),
            }
        }
    }
    if F64.max_finite() != BigUint::from_bytes_le(&{
        // f64::MAX = (2^53 - 1) * 2^971, written independently from its decoded pattern
        let Kind::Fin { m, e } = F64.dec(f64::MAX.to_bits()).k else { err("f64::MAX".into()) };
        (BigUint::from(m) << (e as usize)).to_bytes_le()
    }) {
        err("max_finite f64".into());
    }
    let Kind::Fin { m, e } = F32.dec(f32::MAX.to_bits() as u64).k else { err("f32::MAX".into()) };
    if F32.max_finite() != BigUint::from(m) << (e as usize) || F32.max_finite() != BigUint::from(f32::MAX as u128) {
        err("max_finite f32".into());
    }
}

/// One literal input per generator class (evidence only).
fn class_examples() -> Value {
    let mut out = Map::new();
    for (name, fmt) in [("f2u_f64@64", F64), ("f2u_f32@64", F32)] {
        let mut seen: std::collections::BTreeMap<u64, Value> = Default::default();
        for (pat, g) in draw(&fclasses(fmt, 64), 1, 600) {
            seen.entry(g).or_insert_with(|| json!({"gen_class": g, "pattern": format!("0x{pat:x}"), "float": fmt.show(pat), "expected": format!("{:?}", expected(&fmt.dec(pat), 64))}));
        }
        out.insert(name.into(), Value::Array(seen.into_values().collect()));
    }
    let mut seen: std::collections::BTreeMap<u64, Value> = Default::default();
    for c in draw(&strat_u2f(1088), 1, 300) {
        seen.entry(c.n[0]).or_insert_with(|| json!({"gen_class": c.n[0], "v": hexl(&c.l[0]), "w": hexl(&c.l[1])}));
    }
    out.insert("u2f@1088".into(), Value::Array(seen.into_values().collect()));
    Value::Object(out)
}

fn main() {
    let spec = PropSpec {
        id: "C18",
        rule_text: "u2f: ordered pairs (v, v+delta), and pairs sharing their leading 64/53/24 bits with differently spread tails below, per width from alphabet values, 2^k+-{0,1,2}, heads of 24/25/53/54/64/65 significant bits followed by a guard/tail field (zero, exact tie, tie+-1, all ones, a single low bit, tie or zero guard with a non-zero tail below the top 64 bits) and values straddling MAX_FINITE, MAX_FINITE+ulp/2 and 2^(emax+1) of f32 and f64; exhaustive for BITS in {0,1,7,16}. The result's bit pattern is decoded to exact integers; it must be one of the two representable neighbours (exact when representable), +inf only from MAX_FINITE+ulp/2 and always from 2^(emax+1), by-value and by-reference forms, monotone on the pair. f2u_f64 / f2u_f32: bit patterns from the classes NaN (6 payload kinds, both signs), +-inf, +-0, subnormals, (0,0.5) incl. 0.5-ulp, k+0.5 and its pattern neighbours, integers of the top integer binade [2^(p-1),2^p) odd and even, values >= 2^p, 2^BITS+-{0..3 ulp}, 2^BITS-1, 2^BITS-0.5, 2^BITS-1.5, in-range values with arbitrary fractions, small integers +-ulps, uniform patterns, a quarter of them negated; plus the exhaustive f32 grid sign x exponent x top 11 fraction bits x low 12 bits {000,fff} at BITS in {1,7,24,64,128} (thorough: top 15 fraction bits x low 8 bits {00,ff} at BITS 64 and 128). Oracle: exact floor(f+1/2) from the decoded mantissa/exponent; Ok iff < 2^BITS else ValueTooLarge(BITS,_); f<0 ValueNegative(BITS,_); NaN NotANumber(BITS); -0.0 Ok(0); from panics iff error; saturating_from MAX/0/0; wrapping_from compared in range only; error payloads not compared. Non-trivial: f2u: fractional part exactly .5, integer in [2^(p-1),2^p), within one ulp of 2^BITS (or of the format's top when 2^BITS is beyond it), NaN/inf/zero/subnormal; u2f: bit_len > 24 (f32 inexact possible), with class counters for > 53, > 64 and non-zero tails below the top 64 bits.",
        assumptions: vec![
            "num-bigint shifts/comparisons are correct (oracle)",
            "the hand-written IEEE-754 decoder is correct (self-tested at start-up against std round/floor/as casts)",
            "x86-64 little-endian target, glibc exp2/exp2f exact on integer arguments (the library relies on it; any deviation would show up as a violation)",
            "error payloads (.1) of ToUintError and wrapping_from(float) outside the range are not part of the property and not compared",
            "the property demands a representable neighbour, not the nearest one: double rounding / truncation below the top 64 bits is accepted as long as the result is a neighbour",
        ],
        thorough_mult: 50,
    };
    self_test();
    main_with(
        spec,
        |jobs, args| {
            reg_enum!(jobs, "u2f_all", enum_u2f, u2f; [0, 1, 7, 16]);
            // (the evidence samples come from the first jobs of each rule: informative widths first)
            reg_gen!(jobs, "u2f", 20000, strat_u2f, u2f; [1088, 128, 65, 0, 1, 7, 24, 25, 53, 54, 63, 64, 127, 129, 192, 256, 512, 1024, 2048]);
            w_giant!(reg_gen!(jobs, "u2f", 2000, strat_u2f, u2f;));
            reg_gen!(jobs, "f2u_f64", 20000, strat_f64, f2u_f64; [64, 53, 7, 0, 1, 24, 25, 54, 63, 65, 127, 128, 129, 192, 256, 512, 1024, 1088, 2048]);
            reg_gen!(jobs, "f2u_f32", 20000, strat_f32, f2u_f32; [24, 128, 7, 0, 1, 25, 53, 54, 63, 64, 65, 127, 129, 192, 256, 512, 1024, 1088, 2048]);
            reg_grid!(jobs, false; [7, 64, 1, 24, 128]);
            if args.tier == "thorough" {
                reg_grid!(jobs, true; [64, 128]);
            }
        },
        |_| {
            let mut m = Map::new();
            m.insert("class_examples".into(), class_examples());
            m
        },
    );
}
