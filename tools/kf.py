#!/usr/bin/env python3
"""kf.py add <property> <id> <status> <commit|-> <check> <class> <rule> <bits> '<case json>' '<what>'"""
import json, sys
p='/verif/known_findings.json'
d=json.load(open(p))
_, cmd, prop, fid, status, commit, check, cls, rule, bits, case, what = sys.argv
d['findings']=[f for f in d['findings'] if f['id']!=fid]
e={"property":prop,"id":fid,"status":status,"check":check,"class":cls,
   "what":("fixed: property=%s %s %s"%(prop,commit,what)) if status=="fixed" else what,
   "witness":{"rule":rule,"bits":int(bits),"case":json.loads(case)}}
if commit!='-': e["commit"]=commit
d['findings'].append(e)
json.dump(d,open(p,'w'),indent=1)
print("findings:",len(d['findings']))
