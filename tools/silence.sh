#!/bin/bash
# Runs every quick check on the unchanged tree under several seeds from fresh processes;
# prints one line per (check, seed) that is not silent (rc != 0 or a VIOLATION/KNOWN line).
cd /verif && ./check --setup >/dev/null || { echo "setup failed"; exit 2; }
# evidence and replays of these runs go to a scratch root, not to /verif/evidence
SR=$(mktemp -d /tmp/silence_root.XXXX); cp /verif/known_findings.json $SR/
seeds=${@:-1 2 3 4 5}
bad=0
for s in $seeds; do
  for i in $(seq -w 1 20); do
    out=$(VERIF_SEED=$s VERIF_ROOT=$SR ./target/release/c$i --tier quick 2>/dev/null); rc=$?
    if [ $rc -ne 0 ] || echo "$out" | grep -qE 'VIOLATION|KNOWN-FINDING|INCONCLUSIVE'; then bad=1; echo "NOT SILENT: C$i seed=$s rc=$rc"; echo "$out" | grep -E 'VIOLATION|KNOWN|INCONCL|failure' | head -5; fi
    # the uninstrumented repeat of the six hooked properties (built by ./check --setup)
    case $i in 03|10|11|12|13|14)
      out=$(VERIF_SEED=$s VERIF_ROOT=$SR VERIF_EVIDENCE_SUBDIR=evidence_plain ./target/plain/fast/c$i --tier quick 2>/dev/null); rc=$?
      if [ $rc -ne 0 ] || echo "$out" | grep -qE 'VIOLATION|KNOWN-FINDING|INCONCLUSIVE'; then bad=1; echo "NOT SILENT (plain): C$i seed=$s rc=$rc"; echo "$out" | grep -E 'VIOLATION|KNOWN|INCONCL|failure' | head -5; fi;;
    esac
  done
  echo "seed $s done"
done
[ $bad -eq 0 ] && echo "ALL SILENT"
rm -rf "$SR"
