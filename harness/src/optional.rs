//! Open-world probes for operator impls the pinned tree does not have: `Uint op primitive` for
//! the arithmetic and bit operators and comparisons of a `Uint` with a primitive. If a tree adds
//! such an impl it must agree with the integers; if it has none the probe resolves (autoref
//! dispatch) to a fallback that returns `None`. Autoref dispatch needs concrete types, so the
//! probes are instantiated through `optional_prim_ops!` for a fixed list of widths.

use std::cmp::Ordering;

pub struct Opt<T>(pub T);

#[derive(Debug, Clone, PartialEq)]
pub enum Res {
    /// limbs of a Uint result
    Val(Vec<u64>),
    Bool(bool),
    Ord(Option<Ordering>),
    Panicked,
}

macro_rules! optional_binop {
    ($has:ident, $no:ident, $m:ident, $p:ty, $tr:ident, $f:ident) => {
        pub trait $has<T> {
            fn $m(&self, p: $p) -> Option<T>;
        }
        impl<T: Copy + core::ops::$tr<$p, Output = T>> $has<T> for Opt<T> {
            fn $m(&self, p: $p) -> Option<T> {
                Some(core::ops::$tr::$f(self.0, p))
            }
        }
        pub trait $no<T> {
            fn $m(&self, _p: $p) -> Option<T> {
                None
            }
        }
        impl<T> $no<T> for &Opt<T> {}
    };
}

macro_rules! optional_cmp {
    ($has:ident, $no:ident, $m:ident, $p:ty, $tr:ident, $ret:ty, |$a:ident, $b:ident| $body:expr) => {
        pub trait $has<T> {
            fn $m(&self, p: $p) -> Option<$ret>;
        }
        impl<T: $tr<$p>> $has<T> for Opt<T> {
            fn $m(&self, p: $p) -> Option<$ret> {
                let ($a, $b) = (&self.0, &p);
                Some($body)
            }
        }
        pub trait $no<T> {
            fn $m(&self, _p: $p) -> Option<$ret> {
                None
            }
        }
        impl<T> $no<T> for &Opt<T> {}
    };
}

optional_binop!(HasAdd64, NoAdd64, add_64, u64, Add, add);
optional_binop!(HasSub64, NoSub64, sub_64, u64, Sub, sub);
optional_binop!(HasMul64, NoMul64, mul_64, u64, Mul, mul);
optional_binop!(HasDiv64, NoDiv64, div_64, u64, Div, div);
optional_binop!(HasRem64, NoRem64, rem_64, u64, Rem, rem);
optional_binop!(HasAnd64, NoAnd64, and_64, u64, BitAnd, bitand);
optional_binop!(HasOr64, NoOr64, or_64, u64, BitOr, bitor);
optional_binop!(HasXor64, NoXor64, xor_64, u64, BitXor, bitxor);
optional_binop!(HasAdd128, NoAdd128, add_128, u128, Add, add);
optional_binop!(HasSub128, NoSub128, sub_128, u128, Sub, sub);
optional_binop!(HasMul128, NoMul128, mul_128, u128, Mul, mul);
optional_binop!(HasDiv128, NoDiv128, div_128, u128, Div, div);
optional_binop!(HasRem128, NoRem128, rem_128, u128, Rem, rem);
optional_binop!(HasAnd128, NoAnd128, and_128, u128, BitAnd, bitand);
optional_binop!(HasOr128, NoOr128, or_128, u128, BitOr, bitor);
optional_binop!(HasXor128, NoXor128, xor_128, u128, BitXor, bitxor);
optional_cmp!(HasEq64, NoEq64, eq_64, u64, PartialEq, bool, |a, b| a == b);
optional_cmp!(HasEq128, NoEq128, eq_128, u128, PartialEq, bool, |a, b| a == b);
optional_cmp!(HasOrd64, NoOrd64, ord_64, u64, PartialOrd, Option<Ordering>, |a, b| a.partial_cmp(b));
optional_cmp!(HasOrd128, NoOrd128, ord_128, u128, PartialOrd, Option<Ordering>, |a, b| a.partial_cmp(b));

pub const NAMES: [&str; 20] = [
    "Add<u64>", "Sub<u64>", "Mul<u64>", "Div<u64>", "Rem<u64>", "BitAnd<u64>", "BitOr<u64>", "BitXor<u64>", "Add<u128>", "Sub<u128>", "Mul<u128>", "Div<u128>", "Rem<u128>", "BitAnd<u128>",
    "BitOr<u128>", "BitXor<u128>", "PartialEq<u64>", "PartialEq<u128>", "PartialOrd<u64>", "PartialOrd<u128>",
];

/// Runs the 20 probes for `Uint<$b>` built from limbs `$v` against the primitives `$p64`, `$p128`;
/// evaluates to `Option<Vec<Option<Res>>>`: outer None = width not in the list, inner None = the
/// tree has no such impl.
#[macro_export]
macro_rules! optional_prim_ops {
    ($bits:expr, $v:expr, $p64:expr, $p128:expr; [$($b:literal),*]) => {{
        #[allow(unused_imports)]
        use $crate::optional::*;
        match $bits {
            $( $b => {
                let x: ruint::Uint<$b, { ruint::nlimbs($b) }> = $crate::big::mk($v);
                let (p64, p128): (u64, u128) = ($p64, $p128);
                let val = |r: Result<Option<ruint::Uint<$b, { ruint::nlimbs($b) }>>, String>| match r {
                    Ok(None) => None,
                    Ok(Some(y)) => Some(Res::Val(y.as_limbs().to_vec())),
                    Err(_) => Some(Res::Panicked),
                };
                let o = Opt(x);
                Some(vec![
                    val($crate::engine::catch(|| (&o).add_64(p64))), val($crate::engine::catch(|| (&o).sub_64(p64))), val($crate::engine::catch(|| (&o).mul_64(p64))),
                    val($crate::engine::catch(|| (&o).div_64(p64))), val($crate::engine::catch(|| (&o).rem_64(p64))), val($crate::engine::catch(|| (&o).and_64(p64))),
                    val($crate::engine::catch(|| (&o).or_64(p64))), val($crate::engine::catch(|| (&o).xor_64(p64))),
                    val($crate::engine::catch(|| (&o).add_128(p128))), val($crate::engine::catch(|| (&o).sub_128(p128))), val($crate::engine::catch(|| (&o).mul_128(p128))),
                    val($crate::engine::catch(|| (&o).div_128(p128))), val($crate::engine::catch(|| (&o).rem_128(p128))), val($crate::engine::catch(|| (&o).and_128(p128))),
                    val($crate::engine::catch(|| (&o).or_128(p128))), val($crate::engine::catch(|| (&o).xor_128(p128))),
                    (&o).eq_64(p64).map(Res::Bool), (&o).eq_128(p128).map(Res::Bool), (&o).ord_64(p64).map(Res::Ord), (&o).ord_128(p128).map(Res::Ord),
                ])
            } )*
            _ => None,
        }
    }};
}

/// Expected result of probe `i` on the integers (value a of `bits` bits, primitives p64 / p128):
/// arithmetic wraps modulo 2^bits like the Uint operators, division by zero panics.
pub fn expected(i: usize, a: &num_bigint::BigUint, p64: u64, p128: u128, bits: usize) -> Res {
    use num_bigint::BigUint;
    use num_traits::Zero;
    let m = BigUint::from(1u8) << bits;
    let p = if (i < 8) || i == 16 || i == 18 { BigUint::from(p64) } else { BigUint::from(p128) };
    let limbs = |v: BigUint| {
        let mut d = v.to_u64_digits();
        d.resize((bits + 63) / 64, 0);
        Res::Val(d)
    };
    let pm = &p % &m;
    match i {
        16 | 17 => Res::Bool(*a == p),
        18 | 19 => Res::Ord(Some(a.cmp(&p))),
        _ => match i % 8 {
            0 => limbs((a + &p) % &m),
            1 => limbs((a + &m - &pm) % &m),
            2 => limbs((a * &p) % &m),
            3 | 4 if p.is_zero() => Res::Panicked,
            // a divisor that does not fit the width is larger than every value
            3 => limbs(a / &p),
            4 => limbs(a % &p),
            5 => limbs(a & &p),
            6 => limbs((a | &p) % &m),
            _ => limbs((a ^ &p) % &m),
        },
    }
}
