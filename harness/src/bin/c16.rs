//! C16 — codec round trips and reference encodings (DESIGN 4, C16).
//!
//! One rule (= one body) per integration. Every body gets a value of the width
//! under test (limbs in `c.l[0]`, an auxiliary scalar in `c.n[0]`) and checks
//! (1) decode(encode(v)) == v with everything consumed, (2) advertised lengths,
//! (3) bytes == a hand-written reference encoder, (4) bytes == the codec
//! crate's own encoding of the equal u64 / u128.

#![allow(clippy::all)]

use proptest::prelude::*;
use ruint::{Bits, Uint};
use std::fmt::Debug;
use vcore::big::*;
use vcore::gen::{limbs, mask_vec, nlimbs, uint};
use vcore::*;

type U<const B: usize, const L: usize> = Uint<B, L>;

const fn nbytes(bits: usize) -> usize {
    (bits + 7) / 8
}

// ===========================================================================
// Reference encoders (written from the format definitions; no ruint code)

/// minimal big-endian bytes, empty for zero
fn be_min(v: &BigUint) -> Vec<u8> {
    if v.is_zero() {
        vec![]
    } else {
        v.to_bytes_be()
    }
}

/// exactly `n` big-endian bytes
fn be_fixed(v: &BigUint, n: usize) -> Vec<u8> {
    let m = be_min(v);
    assert!(m.len() <= n, "be_fixed: value does not fit");
    let mut o = vec![0u8; n - m.len()];
    o.extend_from_slice(&m);
    o
}

/// exactly `n` little-endian bytes
fn le_fixed(v: &BigUint, n: usize) -> Vec<u8> {
    let mut o = be_fixed(v, n);
    o.reverse();
    o
}

fn from_be(b: &[u8]) -> BigUint {
    BigUint::from_bytes_be(b)
}

fn ref_rlp_header(len: usize, short: u8, long: u8) -> Vec<u8> {
    if len < 56 {
        vec![short + len as u8]
    } else {
        let lb = be_min(&BigUint::from(len));
        let mut o = vec![long + lb.len() as u8];
        o.extend_from_slice(&lb);
        o
    }
}

/// RLP byte string (yellow paper appendix B): single byte below 0x80 is itself,
/// 0..=55 bytes get 0x80+len, longer get 0xb7+len(len) ++ BE(len).
fn ref_rlp_string(p: &[u8]) -> Vec<u8> {
    if p.len() == 1 && p[0] < 0x80 {
        return p.to_vec();
    }
    let mut o = ref_rlp_header(p.len(), 0x80, 0xb7);
    o.extend_from_slice(p);
    o
}

/// RLP list of already-encoded items.
fn ref_rlp_list(items: &[u8]) -> Vec<u8> {
    let mut o = ref_rlp_header(items.len(), 0xc0, 0xf7);
    o.extend_from_slice(items);
    o
}

/// RLP scalar = string of the minimal big-endian bytes (zero = empty string).
fn ref_rlp_uint(v: &BigUint) -> Vec<u8> {
    ref_rlp_string(&be_min(v))
}

/// SCALE compact (general integer), four modes.
fn ref_compact(v: &BigUint) -> Vec<u8> {
    let bl = v.bits() as usize;
    if bl <= 6 {
        vec![v.to_u8().unwrap() << 2]
    } else if bl <= 14 {
        ((v.to_u16().unwrap() << 2) | 1).to_le_bytes().to_vec()
    } else if bl <= 30 {
        ((v.to_u32().unwrap() << 2) | 2).to_le_bytes().to_vec()
    } else {
        let n = (bl + 7) / 8;
        assert!((4..=67).contains(&n), "ref_compact: out of the 536-bit range");
        let mut o = vec![(((n - 4) << 2) | 3) as u8];
        o.extend_from_slice(&le_fixed(v, n));
        o
    }
}

fn ref_der_len(n: usize) -> Vec<u8> {
    if n < 0x80 {
        vec![n as u8]
    } else if n < 0x100 {
        vec![0x81, n as u8]
    } else {
        assert!(n < 0x10000);
        vec![0x82, (n >> 8) as u8, n as u8]
    }
}

/// DER INTEGER contents octets of a non-negative integer.
fn ref_der_value(v: &BigUint) -> Vec<u8> {
    let mut m = be_min(v);
    if m.is_empty() || m[0] >= 0x80 {
        m.insert(0, 0);
    }
    m
}

fn ref_der(v: &BigUint) -> Vec<u8> {
    let val = ref_der_value(v);
    let mut o = vec![0x02];
    o.extend_from_slice(&ref_der_len(val.len()));
    o.extend_from_slice(&val);
    o
}

/// JSON quantity: "0x" + minimal lower-case hex, "0x0" for zero.
fn ref_json(v: &BigUint) -> String {
    format!("\"0x{:x}\"", v)
}

/// JSON for `Bits`: full-width hex (2*BYTES digits), "0x0" for BITS == 0.
fn ref_json_bits(v: &BigUint, bits: usize) -> String {
    if bits == 0 {
        return "\"0x0\"".to_string();
    }
    format!("\"0x{}\"", hex_bytes(&be_fixed(v, nbytes(bits))))
}

/// bincode 1.x (default options: fixed-width little-endian u64 length) byte string.
fn ref_bincode_bytes(p: &[u8]) -> Vec<u8> {
    let mut o = (p.len() as u64).to_le_bytes().to_vec();
    o.extend_from_slice(p);
    o
}

/// "0x"-prefixed hex text -> value (any case, any amount of zero padding).
fn parse_0x_hex(s: &[u8]) -> Result<BigUint, String> {
    let s = std::str::from_utf8(s).map_err(|e| e.to_string())?;
    let d = s.strip_prefix("0x").ok_or_else(|| format!("no 0x prefix in {s:?}"))?;
    if d.is_empty() || !d.bytes().all(|b| b.is_ascii_hexdigit()) {
        return Err(format!("not hex digits: {s:?}"));
    }
    BigUint::parse_bytes(d.as_bytes(), 16).ok_or_else(|| format!("unparsable {s:?}"))
}

/// JSON text that must be one string token holding a 0x hex quantity.
fn parse_json_hex(s: &[u8]) -> Result<BigUint, String> {
    let t: String = serde_json::from_slice(s).map_err(|e| format!("not a JSON string: {e}"))?;
    parse_0x_hex(t.as_bytes())
}

/// Postgres NUMERIC binary format (numeric_send / numeric_recv): i16 ndigits,
/// i16 weight, u16 sign, u16 dscale, ndigits base-10000 digits, most
/// significant first; value = sum d_i * 10000^(weight - i). Returns the
/// denoted integer; rejects negatives, NaN, fractions and malformed headers.
fn pg_numeric_value(raw: &[u8]) -> Result<BigUint, String> {
    if raw.len() < 8 {
        return Err("header shorter than 8 bytes".into());
    }
    let g = |i: usize| i16::from_be_bytes([raw[i], raw[i + 1]]);
    let (nd, weight, sign, dscale) = (g(0), g(2), g(4), g(6));
    if nd < 0 {
        return Err(format!("ndigits {nd} negative"));
    }
    if sign != 0 {
        return Err(format!("sign {sign:#x} is not positive"));
    }
    if dscale != 0 {
        return Err(format!("dscale {dscale} != 0 for an integer"));
    }
    let nd = nd as usize;
    if raw.len() != 8 + 2 * nd {
        return Err(format!("ndigits {nd} but {} payload bytes", raw.len() - 8));
    }
    let base = BigUint::from(10000u32);
    let mut acc = BigUint::zero();
    for i in 0..nd {
        let d = g(8 + 2 * i);
        if !(0..10000).contains(&d) {
            return Err(format!("digit {d} out of range"));
        }
        let e = weight as i64 - i as i64;
        if e < 0 {
            if d != 0 {
                return Err("non-zero fractional digit".into());
            }
            continue;
        }
        acc += BigUint::from(d as u32) * num_traits::pow(base.clone(), e as usize);
    }
    if nd == 0 && weight != 0 {
        // numeric_send of zero sends weight 0; any weight denotes zero, accept.
    }
    Ok(acc)
}

/// Postgres BIT / VARBIT binary format (varbit.c bit_send): i32 bit length,
/// then ceil(len/8) bytes, first bit = most significant bit of the first byte,
/// zero padding at the low end of the last byte.
fn ref_pg_bits(v: &BigUint, bits: usize) -> Vec<u8> {
    let mut o = (bits as i32).to_be_bytes().to_vec();
    let nb = nbytes(bits);
    let pad = 8 * nb - bits;
    o.extend_from_slice(&be_fixed(&(v << pad), nb));
    o
}

// ===========================================================================
// Generators

fn p2(k: usize) -> BigUint {
    pow2(k)
}

/// Boundary values of the formats, those that fit the width.
fn specials(bits: usize) -> Vec<Vec<u64>> {
    let n = nlimbs(bits);
    let mut v: Vec<BigUint> = vec![];
    let around = |v: &mut Vec<BigUint>, x: BigUint| {
        if !x.is_zero() {
            v.push(&x - 1u32);
        }
        v.push(&x + 1u32);
        v.push(x);
    };
    for s in [0u64, 1, 2, 0x3f, 0x40, 0x7f, 0x80, 0xff, 0x100, 9999, 10000, 99_999_999, 100_000_000, 0x7fff / 100, i64::MAX as u64 / 100, i64::MAX as u64 / 100 + 1] {
        v.push(BigUint::from(s));
    }
    for k in [6usize, 7, 14, 15, 16, 24, 30, 31, 32, 53, 56, 63, 64, 120, 127, 128, 256, 264, 440, 448, 520, 528] {
        around(&mut v, p2(k));
    }
    for k in 0..=nbytes(bits) {
        around(&mut v, p2(8 * k));
    }
    // powers of 10000 (NUMERIC digit boundaries) and multiples with trailing zero digits
    let mut p = BigUint::one();
    for _ in 0..12 {
        p *= 10000u32;
        around(&mut v, p.clone());
        v.push(&p * 1234u32);
    }
    let max = mask_big(bits);
    v.push(max.clone());
    if bits > 0 {
        v.push(&max - 1u32);
        around(&mut v, p2(bits - 1));
    }
    v.retain(|x| *x <= max);
    v.sort();
    v.dedup();
    v.into_iter().map(|x| limbs_of(&x, n)).collect()
}

fn value_strat(bits: usize, extra: Vec<BigUint>) -> BoxedStrategy<Vec<u64>> {
    let n = nlimbs(bits);
    if bits == 0 {
        return Just(vec![]).boxed();
    }
    let mut sp = specials(bits);
    let max = mask_big(bits);
    for e in extra {
        for d in [-2i32, -1, 0, 1, 2] {
            let x = if d < 0 { if e >= BigUint::from((-d) as u32) { &e - (-d) as u32 } else { continue } } else { &e + d as u32 };
            if x <= max {
                sp.push(limbs_of(&x, n));
            }
        }
    }
    let exact_bitlen = (1..=bits, limbs(n)).prop_map(move |(k, mut v)| {
        // value with bit length exactly k
        for (i, x) in v.iter_mut().enumerate() {
            if i > (k - 1) / 64 {
                *x = 0;
            }
        }
        let top = (k - 1) / 64;
        let sh = (k - 1) % 64;
        v[top] &= if sh == 63 { u64::MAX } else { (1u64 << (sh + 1)) - 1 };
        v[top] |= 1u64 << sh;
        mask_vec(v, bits)
    });
    let small = (0..=bits.min(34), any::<u64>()).prop_map(move |(k, x)| {
        let mut v = vec![0u64; n];
        v[0] = if k == 0 { 0 } else { (x >> (64 - k.min(64))) | (1u64 << (k - 1)) };
        mask_vec(v, bits)
    });
    let decimal = (0usize..40, 0u32..10000, 0u32..10000).prop_map(move |(k, a, b)| {
        let x = (BigUint::from(a) * 10000u32 + b) * num_traits::pow(BigUint::from(10000u32), k);
        mask_vec(limbs_of(&x, n), bits)
    });
    prop_oneof![
        5 => proptest::sample::select(sp),
        5 => uint(bits),
        3 => exact_bitlen,
        2 => small,
        1 => decimal,
    ]
    .boxed()
}

fn strat(bits: usize) -> BoxedStrategy<Case> {
    (value_strat(bits, vec![]), vcore::gen::limb()).prop_map(|(v, a)| Case::new().l(v).n(a)).boxed()
}

const FR_DEC: &str = "21888242871839275222246405745257275088548364400416034343698204186575808495617";
const FQ_DEC: &str = "21888242871839275222246405745257275088696311157297823662689037894645226208583";

fn fr_mod() -> BigUint {
    BigUint::parse_bytes(FR_DEC.as_bytes(), 10).unwrap()
}
fn fq_mod() -> BigUint {
    BigUint::parse_bytes(FQ_DEC.as_bytes(), 10).unwrap()
}

/// Values for the field rules: half of them near the bn254 moduli.
fn strat_field(bits: usize) -> BoxedStrategy<Case> {
    (value_strat(bits, vec![fr_mod(), fq_mod(), fr_mod() >> 1, fr_mod() * 2u32]), vcore::gen::limb())
        .prop_map(|(v, a)| Case::new().l(v).n(a))
        .boxed()
}

/// All values of a small width.
fn enum_all(bits: usize, f: &mut dyn FnMut(&Case) -> R) -> R {
    if bits == 0 {
        return f(&Case::new().l(vec![]).n(0));
    }
    for a in 0..(1u64 << bits) {
        f(&Case::new().l(vec![a]).n(a.wrapping_mul(0x9E37_79B9_7F4A_7C15)))?;
    }
    Ok(())
}

// ===========================================================================
// Body helpers

fn skip(check: &str) -> Fail {
    Fail { check: check.into(), class: "__known_skip".into(), msg: String::new() }
}

/// The call must neither panic nor return an error.
fn want_ok<T, E: Debug>(rec: &mut Rec, check: &str, class: &str, r: Result<Result<T, E>, String>) -> Result<T, Fail> {
    let r = rec.no_panic(check, r)?;
    rec.eval(1);
    match r {
        Ok(t) => Ok(t),
        Err(e) => {
            rec.fail(check, class, format!("unexpected error: {e:?}"))?;
            Err(skip(check))
        }
    }
}

/// Decoded value must be the original (compared on all 64*LIMBS bits).
fn rt<const B: usize, const L: usize, E: Debug>(rec: &mut Rec, check: &str, r: Result<Result<U<B, L>, E>, String>, vb: &BigUint) -> R {
    let d = want_ok(rec, check, "decode_error", r)?;
    let got = num(&d);
    rec.ensure(check, "roundtrip_value_wrong", &got == vb, || format!("decoded {} expected {}", hex(&got), hex(vb)))
}

/// A second value for container shapes: the bitwise complement of `v` (so a pair is never two equal elements unless BITS = 0).
fn second<const B: usize, const L: usize>(c: &Case) -> (U<B, L>, BigUint) {
    let mut l: Vec<u64> = c.l[0].iter().map(|x| !*x).collect();
    l.resize(L, u64::MAX);
    if L > 0 {
        l[L - 1] &= ruint::mask(B);
    }
    let w: U<B, L> = mk(&l);
    let wb = num(&w);
    (w, wb)
}

/// Decoded container must hold exactly the expected values, in order (all 64*LIMBS bits compared).
fn rt_vec<const B: usize, const L: usize, E: Debug>(rec: &mut Rec, check: &str, r: Result<Result<Vec<U<B, L>>, E>, String>, exp: &[&BigUint]) -> R {
    let d = want_ok(rec, check, "decode_error", r)?;
    let got: Vec<BigUint> = d.iter().map(num).collect();
    let ok = got.len() == exp.len() && got.iter().zip(exp.iter()).all(|(a, b)| a == *b);
    rec.ensure(check, "roundtrip_value_wrong", ok, || format!("decoded {:?} expected {:?}", got.iter().map(hex).collect::<Vec<_>>(), exp.iter().map(|x| hex(x)).collect::<Vec<_>>()))
}

/// A `der::Reader` in the style of der's streaming `PemReader`: it cannot lend slices of its input
/// (`read_slice` fails with `ErrorKind::Reader`, as the trait documents), data can only be copied out.
struct CopyReader<'i> {
    input: &'i [u8],
    position: usize,
}

impl<'i> der::Reader<'i> for CopyReader<'i> {
    fn input_len(&self) -> der::Length {
        der::Length::try_from(self.input.len()).unwrap()
    }
    fn peek_byte(&self) -> Option<u8> {
        self.input.get(self.position).copied()
    }
    fn peek_header(&self) -> der::Result<der::Header> {
        <der::Header as der::Decode>::decode(&mut der::SliceReader::new(&self.input[self.position..])?)
    }
    fn position(&self) -> der::Length {
        der::Length::try_from(self.position).unwrap()
    }
    fn read_slice(&mut self, _len: der::Length) -> der::Result<&'i [u8]> {
        Err(der::ErrorKind::Reader.into())
    }
    fn read_into<'o>(&mut self, buf: &'o mut [u8]) -> der::Result<&'o [u8]> {
        let end = self.position + buf.len();
        if end > self.input.len() {
            return Err(der::Error::incomplete(self.input_len()));
        }
        buf.copy_from_slice(&self.input[self.position..end]);
        self.position = end;
        Ok(buf)
    }
}

fn bytes_eq(rec: &mut Rec, check: &str, class: &str, got: &[u8], exp: &[u8]) -> R {
    rec.ensure(check, class, got == exp, || format!("got {} expected {}", hex_bytes(got), hex_bytes(exp)))
}

const REF: &str = "bytes_differ_from_reference";

/// An `io::Read` that hands out at most `step` bytes per call (a socket, pipe or buffered file
/// delivers an encoding in pieces like this); a complete encoding must still decode.
struct Chunked<'a> {
    data: &'a [u8],
    step: usize,
}

impl std::io::Read for Chunked<'_> {
    fn read(&mut self, buf: &mut [u8]) -> std::io::Result<usize> {
        let n = self.step.min(buf.len()).min(self.data.len());
        buf[..n].copy_from_slice(&self.data[..n]);
        self.data = &self.data[n..];
        Ok(n)
    }
}

/// chunk sizes to try for an encoding of `len` bytes: one byte at a time, and two pieces
fn chunk_steps(len: usize) -> [usize; 2] {
    [1, len / 2 + 1]
}
const PRIM: &str = "differs_from_crate_primitive";

fn is_boundary(vb: &BigUint, bits: usize) -> bool {
    if vb.is_zero() || *vb == mask_big(bits) {
        return true;
    }
    let p = |x: &BigUint| x.count_ones() == 1;
    p(vb) || p(&(vb + 1u32)) || (vb > &BigUint::one() && p(&(vb - 1u32)))
}

/// Common prologue: build the value, count classes, mark non-trivial, sample.
fn pre<const B: usize, const L: usize>(c: &Case, rec: &mut Rec) -> (U<B, L>, BigUint) {
    let v: U<B, L> = mk(&c.l[0]);
    let vb = num(&v);
    let bl = bit_len(&vb);
    rec.class(match bl {
        0 => "v=0",
        1..=6 => "v<2^6",
        7 => "v<2^7",
        8..=14 => "v<2^14",
        15..=30 => "v<2^30",
        31..=64 => "v<2^64",
        65..=128 => "v<2^128",
        _ => "v>=2^128",
    });
    rec.class_if(bl > 0 && bl % 8 == 0, "bit_len%8==0");
    rec.class_if(bl % 8 == 1, "bit_len%8==1");
    rec.class_if(B > 0 && vb == mask_big(B), "v=MAX");
    rec.class_if(bl > 440, "rlp_long_header(>55 bytes)");
    rec.class_if(bl > 432 && bl <= 440, "rlp_55_bytes");
    let short = B >= 128 && bl <= B / 2;
    rec.class_if(short, "short_in_wide");
    let bd = is_boundary(&vb, B);
    rec.class_if(bd, "boundary(2^k-1,2^k,2^k+1,0,MAX)");
    if bd || short || bl % 8 == 0 {
        rec.nontrivial(&c.l[0]);
    }
    rec.sample(|| json!({"v": hex(&vb), "bit_len": bl}));
    (v, vb)
}

// ===========================================================================
// serde: JSON (human readable) and bincode (binary)

fn body_serde<const B: usize, const L: usize>(c: &Case, rec: &mut Rec) -> R {
    let (v, vb) = pre::<B, L>(c, rec);
    // --- JSON, Uint
    let exp = ref_json(&vb);
    let s = want_ok(rec, "serde_json::to_string", "encode_error", catch(|| serde_json::to_string(&v)))?;
    bytes_eq(rec, "serde_json::to_string", REF, s.as_bytes(), exp.as_bytes())?;
    rt(rec, "serde_json::from_str", catch(|| serde_json::from_str::<U<B, L>>(&s)), &vb)?;
    let val = want_ok(rec, "serde_json::to_value", "encode_error", catch(|| serde_json::to_value(&v)))?;
    rec.ensure("serde_json::to_value", REF, val == Value::String(exp[1..exp.len() - 1].to_string()), || format!("got {val} expected {exp}"))?;
    rt(rec, "serde_json::from_value", catch(|| serde_json::from_value::<U<B, L>>(val.clone())), &vb)?;
    // in a sequence: framing / consumption
    let s2 = want_ok(rec, "serde_json::to_string(tuple)", "encode_error", catch(|| serde_json::to_string(&(v, 85u8))))?;
    bytes_eq(rec, "serde_json::to_string(tuple)", REF, s2.as_bytes(), format!("[{exp},85]").as_bytes())?;
    let t = want_ok(rec, "serde_json::from_str(tuple)", "decode_error", catch(|| serde_json::from_str::<(U<B, L>, u8)>(&s2)))?;
    rec.ensure("serde_json::from_str(tuple)", "roundtrip_value_wrong", num(&t.0) == vb && t.1 == 85, || format!("got {t:?}"))?;
    // --- JSON, Bits (full width)
    let bits = Bits::<B, L>::from(v);
    let expb = ref_json_bits(&vb, B);
    let sb = want_ok(rec, "serde_json::to_string(Bits)", "encode_error", catch(|| serde_json::to_string(&bits)))?;
    bytes_eq(rec, "serde_json::to_string(Bits)", REF, sb.as_bytes(), expb.as_bytes())?;
    let r = catch(|| serde_json::from_str::<Bits<B, L>>(&sb).map(|b| b.into_inner()));
    rt(rec, "serde_json::from_str(Bits)", r, &vb)?;
    // --- bincode, Uint
    let expbin = ref_bincode_bytes(&be_fixed(&vb, nbytes(B)));
    let bin = want_ok(rec, "bincode::serialize", "encode_error", catch(|| bincode::serialize(&v)))?;
    bytes_eq(rec, "bincode::serialize", REF, &bin, &expbin)?;
    let sz = want_ok(rec, "bincode::serialized_size", "encode_error", catch(|| bincode::serialized_size(&v)))?;
    rec.ensure("bincode::serialized_size", "length_mismatch", sz as usize == bin.len(), || format!("serialized_size {sz} but {} bytes", bin.len()))?;
    rt(rec, "bincode::deserialize", catch(|| bincode::deserialize::<U<B, L>>(&bin)), &vb)?;
    rt(rec, "bincode::deserialize_from", catch(|| bincode::deserialize_from::<_, U<B, L>>(&bin[..])), &vb)?;
    for step in chunk_steps(bin.len()) {
        rt(rec, "bincode::deserialize_from(chunked)", catch(|| bincode::deserialize_from::<_, U<B, L>>(Chunked { data: &bin, step })), &vb)?;
        rt(rec, "serde_json::from_reader(chunked)", catch(|| serde_json::from_reader::<_, U<B, L>>(Chunked { data: s.as_bytes(), step })), &vb)?;
    }
    let bin2 = want_ok(rec, "bincode::serialize(tuple)", "encode_error", catch(|| bincode::serialize(&(v, 0xA5u8))))?;
    let mut e2 = expbin.clone();
    e2.push(0xA5);
    bytes_eq(rec, "bincode::serialize(tuple)", REF, &bin2, &e2)?;
    let t = want_ok(rec, "bincode::deserialize(tuple)", "decode_error", catch(|| bincode::deserialize::<(U<B, L>, u8)>(&bin2)))?;
    rec.ensure("bincode::deserialize(tuple)", "roundtrip_value_wrong", num(&t.0) == vb && t.1 == 0xA5, || format!("got {t:?}"))?;
    // --- bincode, Bits
    let binb = want_ok(rec, "bincode::serialize(Bits)", "encode_error", catch(|| bincode::serialize(&bits)))?;
    bytes_eq(rec, "bincode::serialize(Bits)", REF, &binb, &expbin)?;
    let r = catch(|| bincode::deserialize::<Bits<B, L>>(&binb).map(|b| b.into_inner()));
    rt(rec, "bincode::deserialize(Bits)", r, &vb)?;
    Ok(())
}

// ===========================================================================
// rlp (parity)

fn body_rlp<const B: usize, const L: usize>(c: &Case, rec: &mut Rec) -> R {
    let (v, vb) = pre::<B, L>(c, rec);
    let exp = ref_rlp_uint(&vb);
    let out = rec.no_panic("rlp::encode", catch(|| rlp::encode(&v).to_vec()))?;
    bytes_eq(rec, "rlp::encode", REF, &out, &exp)?;
    rt(rec, "rlp::decode", catch(|| rlp::decode::<U<B, L>>(&out)), &vb)?;
    // the item describes exactly its bytes
    let tot = want_ok(rec, "rlp::payload_info", "decode_error", catch(|| rlp::Rlp::new(&out).payload_info().map(|p| p.total())))?;
    rec.ensure("rlp::payload_info", "not_fully_consumed", tot == out.len(), || format!("item length {tot} of {} bytes", out.len()))?;
    // inside a list, followed by another item
    let lst = rec.no_panic(
        "rlp::append",
        catch(|| {
            let mut s = rlp::RlpStream::new_list(2);
            s.append(&v);
            s.append(&0x55u8);
            s.out().to_vec()
        }),
    )?;
    let mut items = exp.clone();
    items.push(0x55);
    bytes_eq(rec, "rlp::append", REF, &lst, &ref_rlp_list(&items))?;
    rt(rec, "rlp::val_at", catch(|| rlp::Rlp::new(&lst).val_at::<U<B, L>>(0)), &vb)?;
    let nxt = want_ok(rec, "rlp::val_at", "decode_error", catch(|| rlp::Rlp::new(&lst).val_at::<u8>(1)))?;
    rec.ensure("rlp::val_at", "not_fully_consumed", nxt == 0x55, || format!("next item {nxt:#x}"))?;
    // crate primitives
    if let Some(x) = vb.to_u64() {
        rec.class("prim_u64");
        bytes_eq(rec, "rlp::encode", PRIM, &out, &rlp::encode(&x))?;
    }
    if let Some(x) = vb.to_u128() {
        bytes_eq(rec, "rlp::encode", PRIM, &out, &rlp::encode(&x))?;
    }
    // Bits: fixed-width byte string
    let bits = Bits::<B, L>::from(v);
    let expb = ref_rlp_string(&be_fixed(&vb, nbytes(B)));
    let outb = rec.no_panic("rlp::encode(Bits)", catch(|| rlp::encode(&bits).to_vec()))?;
    bytes_eq(rec, "rlp::encode(Bits)", REF, &outb, &expb)?;
    let r = catch(|| rlp::decode::<Bits<B, L>>(&outb).map(|b| b.into_inner()));
    rt(rec, "rlp::decode(Bits)", r, &vb)?;
    Ok(())
}

// ===========================================================================
// alloy-rlp, fastrlp 0.3, fastrlp 0.4 (same trait shape)

macro_rules! rlp_like_body {
    ($name:ident, $k:ident, $tag:literal) => {
        fn $name<const B: usize, const L: usize>(c: &Case, rec: &mut Rec) -> R {
            use $k::{Decodable, Encodable, MaxEncodedLenAssoc};
            let (v, vb) = pre::<B, L>(c, rec);
            let exp = ref_rlp_uint(&vb);
            let mut out: Vec<u8> = vec![0xEE]; // non-empty buffer: the encoder must append
            rec.no_panic(concat!($tag, "::encode"), catch(|| Encodable::encode(&v, &mut out)))?;
            rec.ensure(concat!($tag, "::encode"), "clobbered_buffer", out.first() == Some(&0xEE), || "prefix byte lost".into())?;
            let out = out[1..].to_vec();
            bytes_eq(rec, concat!($tag, "::encode"), REF, &out, &exp)?;
            let len = rec.no_panic(concat!($tag, "::length"), catch(|| Encodable::length(&v)))?;
            rec.ensure(concat!($tag, "::length"), "length_mismatch", len == out.len(), || format!("length() = {len} but {} bytes produced", out.len()))?;
            let max = <U<B, L> as MaxEncodedLenAssoc>::LEN;
            rec.ensure(concat!($tag, "::LEN"), "max_len_too_small", max >= out.len(), || format!("LEN = {max} but {} bytes produced", out.len()))?;
            rec.class_if(max == out.len(), "rlp_len==LEN");
            // decode, with a trailing byte that must be left alone
            let mut buf = out.clone();
            buf.push(0x55);
            let mut rest: &[u8] = &buf;
            let r = catch(|| <U<B, L> as Decodable>::decode(&mut rest));
            rt(rec, concat!($tag, "::decode"), r, &vb)?;
            rec.ensure(concat!($tag, "::decode"), "not_fully_consumed", rest == [0x55], || format!("{} bytes left, expected 1", rest.len()))?;
            let mut rest: &[u8] = &out;
            let r = catch(|| <U<B, L> as Decodable>::decode(&mut rest));
            rt(rec, concat!($tag, "::decode"), r, &vb)?;
            rec.ensure(concat!($tag, "::decode"), "not_fully_consumed", rest.is_empty(), || format!("{} bytes left", rest.len()))?;
            // crate primitives
            if let Some(x) = vb.to_u64() {
                rec.class("prim_u64");
                let mut p: Vec<u8> = vec![];
                Encodable::encode(&x, &mut p);
                bytes_eq(rec, concat!($tag, "::encode"), PRIM, &out, &p)?;
                rec.ensure(concat!($tag, "::length"), PRIM, len == Encodable::length(&x), || format!("length() = {len}, u64 says {}", Encodable::length(&x)))?;
            }
            if let Some(x) = vb.to_u128() {
                let mut p: Vec<u8> = vec![];
                Encodable::encode(&x, &mut p);
                bytes_eq(rec, concat!($tag, "::encode"), PRIM, &out, &p)?;
            }
            Ok(())
        }
    };
}

rlp_like_body!(body_alloy, alloy_rlp, "alloy_rlp");
rlp_like_body!(body_fastrlp03, fastrlp_03, "fastrlp_03");
rlp_like_body!(body_fastrlp04, fastrlp_04, "fastrlp_04");

/// `MaxEncodedLen<LEN>` (only implemented for a few widths, LEN = BYTES +
/// length_of_length(BYTES)): `encode_fixed_size` writes into a LEN-byte array
/// and panics when LEN is too small. The LEN literal is checked by the
/// compiler against the impl.
macro_rules! rlp_fixed_body {
    ($name:ident, $bits:literal, $len:literal) => {
        fn $name(c: &Case, rec: &mut Rec) -> R {
            const L: usize = ruint::nlimbs($bits);
            let (v, vb) = pre::<$bits, L>(c, rec);
            let exp = ref_rlp_uint(&vb);
            let a = rec.no_panic("fastrlp_03::encode_fixed_size", catch(|| fastrlp_03::encode_fixed_size::<U<$bits, L>, $len>(&v).to_vec()))?;
            bytes_eq(rec, "fastrlp_03::encode_fixed_size", REF, &a, &exp)?;
            let a = rec.no_panic("fastrlp_04::encode_fixed_size", catch(|| fastrlp_04::encode_fixed_size::<U<$bits, L>, $len>(&v).to_vec()))?;
            bytes_eq(rec, "fastrlp_04::encode_fixed_size", REF, &a, &exp)?;
            rec.ensure("fastrlp::MaxEncodedLen", "max_len_too_small", $len >= exp.len(), || format!("LEN {} < {}", $len, exp.len()))?;
            Ok(())
        }
    };
}

rlp_fixed_body!(body_rlpfix_0, 0, 1);
rlp_fixed_body!(body_rlpfix_1, 1, 2);
rlp_fixed_body!(body_rlpfix_8, 8, 2);
rlp_fixed_body!(body_rlpfix_16, 16, 3);
rlp_fixed_body!(body_rlpfix_64, 64, 9);
rlp_fixed_body!(body_rlpfix_128, 128, 17);
rlp_fixed_body!(body_rlpfix_160, 160, 21);
rlp_fixed_body!(body_rlpfix_256, 256, 33);
rlp_fixed_body!(body_rlpfix_384, 384, 49);
rlp_fixed_body!(body_rlpfix_512, 512, 66);

// ===========================================================================
// SCALE (parity-scale-codec): fixed form

fn body_scale_fixed<const B: usize, const L: usize>(c: &Case, rec: &mut Rec) -> R {
    use parity_scale_codec::{Decode, DecodeAll, Encode, MaxEncodedLen};
    let (v, vb) = pre::<B, L>(c, rec);
    let _hint = rec.no_panic("scale::size_hint", catch(|| Encode::size_hint(&v)))?;
    let out = rec.no_panic("scale::encode", catch(|| Encode::encode(&v)))?;
    let mut app: Vec<u8> = vec![0xEE];
    rec.no_panic("scale::encode_to", catch(|| Encode::encode_to(&v, &mut app)))?;
    bytes_eq(rec, "scale::encode_to", "differs_from_encode", &app[1..], &out)?;
    let es = rec.no_panic("scale::encoded_size", catch(|| Encode::encoded_size(&v)))?;
    rec.ensure("scale::encoded_size", "length_mismatch", es == out.len(), || format!("encoded_size {es} but {} bytes", out.len()))?;
    // MaxEncodedLen: "upper bound, in bytes, of the maximum encoded size of this item"
    let mx = rec.no_panic("scale::max_encoded_len", catch(|| <U<B, L> as MaxEncodedLen>::max_encoded_len()))?;
    rec.ensure("scale::max_encoded_len", "smaller_than_encoding", mx >= out.len(), || {
        format!("max_encoded_len() = {mx} but encode() produced {} bytes for Uint<{B}>", out.len())
    })?;
    // round trip, with a trailing byte that must be left alone
    let mut buf = out.clone();
    buf.push(0x55);
    let mut rest: &[u8] = &buf;
    let r = catch(|| <U<B, L> as Decode>::decode(&mut rest));
    rt(rec, "scale::decode", r, &vb)?;
    rec.ensure("scale::decode", "not_fully_consumed", rest == [0x55], || format!("{} bytes left, expected 1", rest.len()))?;
    rt(rec, "scale::decode_all", catch(|| <U<B, L> as DecodeAll>::decode_all(&mut &out[..])), &vb)?;
    // container shapes (Vec / array / tuple / Option go through the element's `decode_into`, `skip`,
    // `encoded_fixed_size`, `size_hint`, `encode_to` hooks)
    {
        let (w, wb) = second::<B, L>(c);
        let outw = rec.no_panic("scale::encode", catch(|| Encode::encode(&w)))?;
        let pair = [out.clone(), outw.clone()].concat();
        let a = rec.no_panic("scale::encode([U;2])", catch(|| Encode::encode(&[v, w])))?;
        bytes_eq(rec, "scale::encode([U;2])", "differs_from_element_encodings", &a, &pair)?;
        rt_vec(rec, "scale::decode([U;2])", catch(|| <[U<B, L>; 2] as DecodeAll>::decode_all(&mut &a[..]).map(|x| x.to_vec())), &[&vb, &wb])?;
        let vv = rec.no_panic("scale::encode(Vec<U>)", catch(|| Encode::encode(&vec![v, w, v])))?;
        bytes_eq(rec, "scale::encode(Vec<U>)", "differs_from_element_encodings", &vv, &[&[12u8][..], &pair[..], &out[..]].concat())?;
        rt_vec(rec, "scale::decode(Vec<U>)", catch(|| <Vec<U<B, L>> as DecodeAll>::decode_all(&mut &vv[..])), &[&vb, &wb, &vb])?;
        for step in chunk_steps(vv.len()) {
            let mut rd = parity_scale_codec::IoReader(Chunked { data: &vv, step });
            rt_vec(rec, "scale::decode(Vec<U>,IoReader,chunked)", catch(|| <Vec<U<B, L>> as Decode>::decode(&mut rd)), &[&vb, &wb, &vb])?;
        }
        let t = rec.no_panic("scale::encode((U,Option<U>))", catch(|| Encode::encode(&(w, Some(v)))))?;
        bytes_eq(rec, "scale::encode((U,Option<U>))", "differs_from_element_encodings", &t, &[&outw[..], &[1u8][..], &out[..]].concat())?;
        rt_vec(rec, "scale::decode((U,Option<U>))", catch(|| <(U<B, L>, Option<U<B, L>>) as DecodeAll>::decode_all(&mut &t[..]).map(|x| vec![x.0, x.1.unwrap_or_default()])), &[&wb, &vb])?;
        // skip: the element after a skipped one must still be read from the right offset
        let r = catch(|| {
            let mut inp = &pair[..];
            <U<B, L> as Decode>::skip(&mut inp)?;
            <U<B, L> as Decode>::decode(&mut inp)
        });
        rt(rec, "scale::skip+decode", r, &wb)?;
        if let Some(fs) = rec.no_panic("scale::encoded_fixed_size", catch(|| <U<B, L> as Decode>::encoded_fixed_size()))? {
            rec.ensure("scale::encoded_fixed_size", "length_mismatch", fs == out.len(), || format!("encoded_fixed_size {fs} but {} bytes", out.len()))?;
        }
    }
    for step in chunk_steps(out.len()) {
        let mut rd = parity_scale_codec::IoReader(Chunked { data: &buf, step });
        let r = catch(|| <U<B, L> as Decode>::decode(&mut rd));
        rt(rec, "scale::decode(IoReader,chunked)", r, &vb)?;
        rec.ensure("scale::decode(IoReader,chunked)", "not_fully_consumed", rd.0.data == [0x55], || format!("{} bytes left, expected 1", rd.0.data.len()))?;
    }
    Ok(())
}

// ===========================================================================
// SCALE compact: CompactRefUint (encode) / CompactUint (decode) / HasCompact

fn scale_compact_via_trait<T: parity_scale_codec::HasCompact>(v: &T) -> Vec<u8> {
    use parity_scale_codec::{Encode, EncodeAsRef};
    <<<T as parity_scale_codec::HasCompact>::Type as EncodeAsRef<'_, T>>::RefType as From<&T>>::from(v).encode()
}

fn scale_compact_decode_via_trait<T: parity_scale_codec::HasCompact>(input: &mut &[u8]) -> Result<T, parity_scale_codec::Error> {
    use parity_scale_codec::Decode;
    <<T as parity_scale_codec::HasCompact>::Type as Decode>::decode(input).map(Into::into)
}

fn panic_class(m: &str) -> &'static str {
    if m.contains("subtract with overflow") || m.contains("capacity overflow") || m.contains("add with overflow") {
        "panic_arithmetic_overflow"
    } else {
        "panic"
    }
}

fn body_scale_compact<const B: usize, const L: usize>(c: &Case, rec: &mut Rec) -> R {
    use parity_scale_codec::{Compact, Decode, Encode};
    use ruint::support::scale::{CompactRefUint, CompactUint};
    let (v, vb) = pre::<B, L>(c, rec);
    let exp = ref_compact(&vb);
    rec.class(match exp[0] & 3 {
        0 => "compact_mode_1byte",
        1 => "compact_mode_2byte",
        2 => "compact_mode_4byte",
        _ => "compact_mode_big",
    });
    // bytes through encode_to (does not consult size_hint)
    let mut out: Vec<u8> = vec![0xEE];
    rec.no_panic("scale_compact::encode_to", catch(|| CompactRefUint(&v).encode_to(&mut out)))?;
    let out = out[1..].to_vec();
    bytes_eq(rec, "scale_compact::encode_to", REF, &out, &exp)?;
    // size_hint must evaluate, and must not make encode() fail
    rec.eval(1);
    let hint_ok = match catch(|| CompactRefUint(&v).size_hint()) {
        Ok(_) => true,
        Err(m) => {
            rec.class("compact_size_hint_panics");
            rec.fail("scale_compact::size_hint", panic_class(&m), format!("size_hint() panicked for {} : Uint<{B}>: {m}", hex(&vb)))?;
            false
        }
    };
    rec.eval(1);
    match catch(|| CompactRefUint(&v).encode()) {
        Ok(b) => bytes_eq(rec, "scale_compact::encode", REF, &b, &exp)?,
        Err(m) => {
            if hint_ok && !m.contains("capacity overflow") {
                rec.fail("scale_compact::encode", "panic", format!("encode() panicked: {m}"))?;
            } else {
                // (without overflow checks the wrapped hint reaches Vec::with_capacity instead)
                // same root cause as the size_hint failure above
                rec.fail("scale_compact::size_hint", panic_class(&m), format!("encode() fails because size_hint() panics for {} : Uint<{B}>: {m}", hex(&vb)))?;
            }
        }
    }
    // the path `#[codec(compact)]` takes
    rec.eval(1);
    match catch(|| scale_compact_via_trait(&v)) {
        Ok(b) => bytes_eq(rec, "scale_compact::HasCompact", REF, &b, &exp)?,
        Err(m) => {
            if hint_ok {
                rec.fail("scale_compact::HasCompact", "panic", format!("encode() panicked: {m}"))?;
            }
        }
    }
    // decode, with a trailing byte that must be left alone
    let mut buf = out.clone();
    buf.push(0x55);
    let mut rest: &[u8] = &buf;
    let r = catch(|| CompactUint::<B, L>::decode(&mut rest).map(|x| x.0));
    rt(rec, "scale_compact::decode", r, &vb)?;
    rec.ensure("scale_compact::decode", "not_fully_consumed", rest == [0x55], || format!("{} bytes left, expected 1", rest.len()))?;
    for step in chunk_steps(out.len()) {
        let mut rd = parity_scale_codec::IoReader(Chunked { data: &buf, step });
        let r = catch(|| CompactUint::<B, L>::decode(&mut rd).map(|x| x.0));
        rt(rec, "scale_compact::decode(IoReader,chunked)", r, &vb)?;
        rec.ensure("scale_compact::decode(IoReader,chunked)", "not_fully_consumed", rd.0.data == [0x55], || format!("{} bytes left, expected 1", rd.0.data.len()))?;
    }
    let mut rest: &[u8] = &out;
    let r = catch(|| scale_compact_decode_via_trait::<U<B, L>>(&mut rest));
    rt(rec, "scale_compact::HasCompact::decode", r, &vb)?;
    rec.ensure("scale_compact::HasCompact::decode", "not_fully_consumed", rest.is_empty(), || format!("{} bytes left", rest.len()))?;
    // wrapper conversions
    let w: CompactUint<B, L> = v.into();
    let back: U<B, L> = w.into();
    rec.ensure("scale_compact::From", "roundtrip_value_wrong", num(&back) == vb, || "CompactUint From/Into changed the value".into())?;
    // crate primitives
    if let Some(x) = vb.to_u64() {
        rec.class("prim_u64");
        bytes_eq(rec, "scale_compact::encode_to", PRIM, &out, &Compact(x).encode())?;
    }
    if let Some(x) = vb.to_u128() {
        bytes_eq(rec, "scale_compact::encode_to", PRIM, &out, &Compact(x).encode())?;
    }
    if let Some(x) = vb.to_u32() {
        bytes_eq(rec, "scale_compact::encode_to", PRIM, &out, &Compact(x).encode())?;
    }
    Ok(())
}

// ===========================================================================
// SSZ

fn body_ssz<const B: usize, const L: usize>(c: &Case, rec: &mut Rec) -> R {
    let (v, vb) = pre::<B, L>(c, rec);
    let exp = le_fixed(&vb, nbytes(B));
    let out = rec.no_panic("ssz::as_ssz_bytes", catch(|| ssz::Encode::as_ssz_bytes(&v)))?;
    bytes_eq(rec, "ssz::as_ssz_bytes", REF, &out, &exp)?;
    let mut app: Vec<u8> = vec![0xEE];
    rec.no_panic("ssz::ssz_append", catch(|| ssz::Encode::ssz_append(&v, &mut app)))?;
    rec.ensure("ssz::ssz_append", REF, app[0] == 0xEE && app[1..] == exp[..], || format!("got {}", hex_bytes(&app)))?;
    let bl = rec.no_panic("ssz::ssz_bytes_len", catch(|| ssz::Encode::ssz_bytes_len(&v)))?;
    rec.ensure("ssz::ssz_bytes_len", "length_mismatch", bl == out.len(), || format!("ssz_bytes_len {bl} but {} bytes", out.len()))?;
    let fe = <U<B, L> as ssz::Encode>::ssz_fixed_len();
    let fd = <U<B, L> as ssz::Decode>::ssz_fixed_len();
    rec.ensure("ssz::ssz_fixed_len", "length_mismatch", fe == out.len() && fd == out.len(), || format!("ssz_fixed_len {fe}/{fd} but {} bytes", out.len()))?;
    rec.ensure(
        "ssz::is_ssz_fixed_len",
        "flag_wrong",
        <U<B, L> as ssz::Encode>::is_ssz_fixed_len() && <U<B, L> as ssz::Decode>::is_ssz_fixed_len(),
        || "a fixed-width integer must be a fixed-length SSZ type".into(),
    )?;
    rt(rec, "ssz::from_ssz_bytes", catch(|| <U<B, L> as ssz::Decode>::from_ssz_bytes(&out)), &vb)?;
    if B > 0 {
        // a list of fixed-length items is the concatenation of the items (split by ssz_fixed_len on decode)
        let (w, wb) = second::<B, L>(c);
        let expw = le_fixed(&wb, nbytes(B));
        let lst = rec.no_panic("ssz::as_ssz_bytes(Vec<U>)", catch(|| ssz::Encode::as_ssz_bytes(&vec![v, w, v])))?;
        bytes_eq(rec, "ssz::as_ssz_bytes(Vec<U>)", REF, &lst, &[&exp[..], &expw[..], &exp[..]].concat())?;
        rt_vec(rec, "ssz::from_ssz_bytes(Vec<U>)", catch(|| <Vec<U<B, L>> as ssz::Decode>::from_ssz_bytes(&lst)), &[&vb, &wb, &vb])?;
    }
    if B == 64 {
        rec.class("prim_u64");
        bytes_eq(rec, "ssz::as_ssz_bytes", PRIM, &out, &ssz::Encode::as_ssz_bytes(&vb.to_u64().unwrap()))?;
    }
    if B == 128 {
        bytes_eq(rec, "ssz::as_ssz_bytes", PRIM, &out, &ssz::Encode::as_ssz_bytes(&vb.to_u128().unwrap()))?;
    }
    if B == 8 || B == 16 || B == 32 {
        let x = vb.to_u32().unwrap();
        let p = match B {
            8 => ssz::Encode::as_ssz_bytes(&(x as u8)),
            16 => ssz::Encode::as_ssz_bytes(&(x as u16)),
            _ => ssz::Encode::as_ssz_bytes(&x),
        };
        bytes_eq(rec, "ssz::as_ssz_bytes", PRIM, &out, &p)?;
    }
    Ok(())
}

// ===========================================================================
// borsh

fn body_borsh<const B: usize, const L: usize>(c: &Case, rec: &mut Rec) -> R {
    use borsh::BorshDeserialize;
    let (v, vb) = pre::<B, L>(c, rec);
    let exp = le_fixed(&vb, nbytes(B));
    let out = want_ok(rec, "borsh::to_vec", "encode_error", catch(|| borsh::to_vec(&v)))?;
    bytes_eq(rec, "borsh::to_vec", REF, &out, &exp)?;
    let ol = want_ok(rec, "borsh::object_length", "encode_error", catch(|| borsh::object_length(&v)))?;
    rec.ensure("borsh::object_length", "length_mismatch", ol == out.len(), || format!("object_length {ol} but {} bytes", out.len()))?;
    rt(rec, "borsh::from_slice", catch(|| borsh::from_slice::<U<B, L>>(&out)), &vb)?;
    let mut buf = out.clone();
    buf.push(0x55);
    let mut rest: &[u8] = &buf;
    let r = catch(|| <U<B, L> as BorshDeserialize>::deserialize(&mut rest));
    rt(rec, "borsh::deserialize", r, &vb)?;
    rec.ensure("borsh::deserialize", "not_fully_consumed", rest == [0x55], || format!("{} bytes left, expected 1", rest.len()))?;
    let mut rd = std::io::Cursor::new(buf.clone());
    let r = catch(|| <U<B, L> as BorshDeserialize>::deserialize_reader(&mut rd));
    rt(rec, "borsh::deserialize_reader", r, &vb)?;
    rec.ensure("borsh::deserialize_reader", "not_fully_consumed", rd.position() as usize == out.len(), || format!("reader at {}", rd.position()))?;
    for step in chunk_steps(out.len()) {
        let mut rd = Chunked { data: &buf, step };
        let r = catch(|| <U<B, L> as BorshDeserialize>::deserialize_reader(&mut rd));
        rt(rec, "borsh::deserialize_reader(chunked)", r, &vb)?;
        rec.ensure("borsh::deserialize_reader(chunked)", "not_fully_consumed", rd.data == [0x55], || format!("{} bytes left, expected 1", rd.data.len()))?;
        let r = catch(|| borsh::from_reader::<_, U<B, L>>(&mut Chunked { data: &out, step }));
        rt(rec, "borsh::from_reader(chunked)", r, &vb)?;
        let r = catch(|| borsh::from_reader::<_, Bits<B, L>>(&mut Chunked { data: &out, step }).map(|b| b.into_inner()));
        rt(rec, "borsh::from_reader(chunked,Bits)", r, &vb)?;
    }
    // container shapes: arrays, vectors, tuples, options and boxes go through the element type's bulk
    // hooks (`array_from_reader`, `vec_from_reader`, `u8_slice`), which an impl may override
    // (not for BITS = 0: borsh itself refuses collections of zero-sized types)
    if B > 0 {
        let (w, wb) = second::<B, L>(c);
        let expw = le_fixed(&wb, nbytes(B));
        let pair = [exp.clone(), expw.clone()].concat();
        let a = want_ok(rec, "borsh::to_vec([U;2])", "encode_error", catch(|| borsh::to_vec(&[v, w])))?;
        bytes_eq(rec, "borsh::to_vec([U;2])", REF, &a, &pair)?;
        rt_vec(rec, "borsh::from_slice([U;2])", catch(|| borsh::from_slice::<[U<B, L>; 2]>(&a).map(|x| x.to_vec())), &[&vb, &wb])?;
        rt_vec(rec, "borsh::from_slice([U;3])", catch(|| borsh::from_slice::<[U<B, L>; 3]>(&[expw.clone(), pair.clone()].concat()).map(|x| x.to_vec())), &[&wb, &vb, &wb])?;
        let vv = want_ok(rec, "borsh::to_vec(Vec<U>)", "encode_error", catch(|| borsh::to_vec(&vec![v, w])))?;
        bytes_eq(rec, "borsh::to_vec(Vec<U>)", REF, &vv, &[&2u32.to_le_bytes()[..], &pair[..]].concat())?;
        rt_vec(rec, "borsh::from_slice(Vec<U>)", catch(|| borsh::from_slice::<Vec<U<B, L>>>(&vv)), &[&vb, &wb])?;
        for step in chunk_steps(vv.len()) {
            rt_vec(rec, "borsh::from_reader(Vec<U>,chunked)", catch(|| borsh::from_reader::<_, Vec<U<B, L>>>(&mut Chunked { data: &vv, step })), &[&vb, &wb])?;
            rt_vec(rec, "borsh::from_reader([U;2],chunked)", catch(|| borsh::from_reader::<_, [U<B, L>; 2]>(&mut Chunked { data: &a, step }).map(|x| x.to_vec())), &[&vb, &wb])?;
        }
        let t = want_ok(rec, "borsh::to_vec((U,U))", "encode_error", catch(|| borsh::to_vec(&(w, v))))?;
        bytes_eq(rec, "borsh::to_vec((U,U))", REF, &t, &[expw.clone(), exp.clone()].concat())?;
        rt_vec(rec, "borsh::from_slice((U,U))", catch(|| borsh::from_slice::<(U<B, L>, U<B, L>)>(&t).map(|x| vec![x.0, x.1])), &[&wb, &vb])?;
        let o = want_ok(rec, "borsh::to_vec(Option<U>)", "encode_error", catch(|| borsh::to_vec(&Some(v))))?;
        bytes_eq(rec, "borsh::to_vec(Option<U>)", REF, &o, &[&[1u8][..], &exp[..]].concat())?;
        rt_vec(rec, "borsh::from_slice(Option<Box<U>>)", catch(|| borsh::from_slice::<Option<Box<U<B, L>>>>(&o).map(|x| x.into_iter().map(|b| *b).collect())), &[&vb])?;
        let ab = want_ok(rec, "borsh::to_vec([Bits;2])", "encode_error", catch(|| borsh::to_vec(&[Bits::<B, L>::from(v), Bits::<B, L>::from(w)])))?;
        bytes_eq(rec, "borsh::to_vec([Bits;2])", REF, &ab, &pair)?;
        rt_vec(rec, "borsh::from_slice(Vec<Bits>)", catch(|| borsh::from_slice::<Vec<Bits<B, L>>>(&vv).map(|x| x.into_iter().map(|b| b.into_inner()).collect())), &[&vb, &wb])?;
    }
    // Bits
    let bits = Bits::<B, L>::from(v);
    let outb = want_ok(rec, "borsh::to_vec(Bits)", "encode_error", catch(|| borsh::to_vec(&bits)))?;
    bytes_eq(rec, "borsh::to_vec(Bits)", REF, &outb, &exp)?;
    let r = catch(|| borsh::from_slice::<Bits<B, L>>(&outb).map(|b| b.into_inner()));
    rt(rec, "borsh::from_slice(Bits)", r, &vb)?;
    // crate primitives
    let p = match B {
        8 => Some(borsh::to_vec(&vb.to_u8().unwrap()).unwrap()),
        16 => Some(borsh::to_vec(&vb.to_u16().unwrap()).unwrap()),
        32 => Some(borsh::to_vec(&vb.to_u32().unwrap()).unwrap()),
        64 => Some(borsh::to_vec(&vb.to_u64().unwrap()).unwrap()),
        128 => Some(borsh::to_vec(&vb.to_u128().unwrap()).unwrap()),
        _ => None,
    };
    if let Some(p) = p {
        rec.class("prim_u64");
        bytes_eq(rec, "borsh::to_vec", PRIM, &out, &p)?;
    }
    Ok(())
}

// ===========================================================================
// DER

fn body_der<const B: usize, const L: usize>(c: &Case, rec: &mut Rec) -> R {
    use der::asn1::{Any, AnyRef, Int, IntRef, Uint as DerUint, UintRef};
    use der::{Decode, Encode, EncodeValue, Reader};
    let (v, vb) = pre::<B, L>(c, rec);
    let exp = ref_der(&vb);
    let expv = ref_der_value(&vb);
    rec.class_if(expv.len() > be_min(&vb).len(), "der_guard_byte");
    rec.class_if(expv.len() >= 0x80, "der_long_form_length");
    // bytes, independent of value_len: encode into a big enough slice
    let mut big = vec![0u8; exp.len() + 16];
    let r = catch(|| Encode::encode_to_slice(&v, &mut big).map(|s| s.to_vec()));
    let out = want_ok(rec, "der::encode_to_slice", "encode_error", r)?;
    bytes_eq(rec, "der::encode_to_slice", REF, &out, &exp)?;
    // advertised lengths
    let vl = want_ok(rec, "der::value_len", "encode_error", catch(|| EncodeValue::value_len(&v)))?;
    rec.ensure("der::value_len", "length_mismatch", usize::try_from(vl).unwrap() == expv.len(), || format!("value_len {vl} but {} value bytes", expv.len()))?;
    let el = want_ok(rec, "der::encoded_len", "encode_error", catch(|| Encode::encoded_len(&v)))?;
    rec.ensure("der::encoded_len", "length_mismatch", usize::try_from(el).unwrap() == exp.len(), || format!("encoded_len {el} but {} bytes", exp.len()))?;
    // to_der relies on encoded_len
    let td = want_ok(rec, "der::to_der", "encode_error", catch(|| Encode::to_der(&v)))?;
    bytes_eq(rec, "der::to_der", REF, &td, &exp)?;
    // decode
    rt(rec, "der::from_der", catch(|| <U<B, L> as Decode>::from_der(&out)), &vb)?;
    let mut buf = out.clone();
    buf.push(0x55);
    let r0 = catch(|| {
        let mut rd = der::SliceReader::new(&buf)?;
        let x = <U<B, L> as Decode>::decode(&mut rd)?;
        Ok::<_, der::Error>((x, usize::try_from(rd.remaining_len()).unwrap()))
    });
    // a reader that cannot lend slices (der's PemReader behaves like this): only copying reads
    let r = catch(|| {
        let mut rd = CopyReader { input: &buf, position: 0 };
        let x = <U<B, L> as Decode>::decode(&mut rd)?;
        Ok::<_, der::Error>((x, buf.len() - rd.position))
    });
    let (xc, leftc) = want_ok(rec, "der::decode(copying reader)", "decode_error", r)?;
    rec.ensure("der::decode(copying reader)", "roundtrip_value_wrong", num(&xc) == vb, || format!("decoded {}", hex(&num(&xc))))?;
    rec.ensure("der::decode(copying reader)", "not_fully_consumed", leftc == 1, || format!("{leftc} bytes left, expected 1"))?;
    let (x, left) = want_ok(rec, "der::decode", "decode_error", r0)?;
    rec.ensure("der::decode", "roundtrip_value_wrong", num(&x) == vb, || format!("decoded {}", hex(&num(&x))))?;
    rec.ensure("der::decode", "not_fully_consumed", left == 1, || format!("{left} bytes left, expected 1"))?;
    // ASN.1 value types: conversions there and back, and their own DER
    let any = rec.no_panic("der::Any::from", catch(|| Any::from(&v)))?;
    let d = want_ok(rec, "der::Any::from", "encode_error", catch(|| any.to_der()))?;
    bytes_eq(rec, "der::Any::from", REF, &d, &exp)?;
    rt(rec, "der::try_from(&Any)", catch(|| U::<B, L>::try_from(&any)), &vb)?;
    rt(rec, "der::try_from(Any)", catch(|| U::<B, L>::try_from(any.clone())), &vb)?;
    let r = catch(|| AnyRef::try_from(&exp[..]).and_then(|a| U::<B, L>::try_from(a)));
    rt(rec, "der::try_from(AnyRef)", r, &vb)?;
    let int = rec.no_panic("der::Int::from", catch(|| Int::from(&v)))?;
    let d = want_ok(rec, "der::Int::from", "encode_error", catch(|| int.to_der()))?;
    bytes_eq(rec, "der::Int::from", REF, &d, &exp)?;
    rt(rec, "der::try_from(&Int)", catch(|| U::<B, L>::try_from(&int)), &vb)?;
    let r = catch(|| IntRef::new(&expv).and_then(|a| U::<B, L>::try_from(a)));
    rt(rec, "der::try_from(IntRef)", r, &vb)?;
    let du = rec.no_panic("der::Uint::from", catch(|| DerUint::from(&v)))?;
    let d = want_ok(rec, "der::Uint::from", "encode_error", catch(|| du.to_der()))?;
    bytes_eq(rec, "der::Uint::from", REF, &d, &exp)?;
    rt(rec, "der::try_from(&Uint)", catch(|| U::<B, L>::try_from(&du)), &vb)?;
    let r = catch(|| UintRef::new(&expv).and_then(|a| U::<B, L>::try_from(a)));
    rt(rec, "der::try_from(UintRef)", r, &vb)?;
    // crate primitives
    if let Some(x) = vb.to_u64() {
        rec.class("prim_u64");
        bytes_eq(rec, "der::encode_to_slice", PRIM, &out, &x.to_der().unwrap())?;
    }
    if let Some(x) = vb.to_u128() {
        bytes_eq(rec, "der::encode_to_slice", PRIM, &out, &x.to_der().unwrap())?;
    }
    Ok(())
}

// ===========================================================================
// num-bigint

fn body_bigint<const B: usize, const L: usize>(c: &Case, rec: &mut Rec) -> R {
    use ruint::ToUintError;
    let (v, vb) = pre::<B, L>(c, rec);
    let aux = c.n.first().copied().unwrap_or(0);
    let vi = BigInt::from(vb.clone());
    // Uint -> big
    let r = rec.no_panic("BigUint::from(Uint)", catch(|| BigUint::from(v)))?;
    rec.eq("BigUint::from(Uint)", &r, &vb)?;
    let r = rec.no_panic("BigUint::from(&Uint)", catch(|| BigUint::from(&v)))?;
    rec.eq("BigUint::from(&Uint)", &r, &vb)?;
    let r = rec.no_panic("BigInt::from(Uint)", catch(|| BigInt::from(v)))?;
    rec.eq("BigInt::from(Uint)", &r, &vi)?;
    let r = rec.no_panic("BigInt::from(&Uint)", catch(|| BigInt::from(&v)))?;
    rec.eq("BigInt::from(&Uint)", &r, &vi)?;
    // big -> Uint, in range
    rt(rec, "Uint::try_from(BigUint)", catch(|| U::<B, L>::try_from(vb.clone())), &vb)?;
    rt(rec, "Uint::try_from(&BigUint)", catch(|| U::<B, L>::try_from(&vb)), &vb)?;
    rt(rec, "Uint::try_from(BigInt)", catch(|| U::<B, L>::try_from(vi.clone())), &vb)?;
    rt(rec, "Uint::try_from(&BigInt)", catch(|| U::<B, L>::try_from(&vi)), &vb)?;
    // out of range: v + k * 2^B must be ValueTooLarge(B, v) ("the wrapped value")
    let k = BigUint::from(aux) + 1u32;
    let over = &vb + (k << B);
    rec.class("bigint_overflow_input");
    let r = rec.no_panic("Uint::try_from(&BigUint)", catch(|| U::<B, L>::try_from(&over)))?;
    rec.eval(1);
    match r {
        Err(ToUintError::ValueTooLarge(b, w)) => {
            rec.ensure("Uint::try_from(&BigUint)", "error_payload_wrong", b == B && num(&w) == vb, || format!("ValueTooLarge({b}, {}) expected ({B}, {})", hex(&num(&w)), hex(&vb)))?
        }
        other => rec.fail("Uint::try_from(&BigUint)", "accepted_out_of_range", format!("input {} gave {other:?}", hex(&over)))?,
    }
    let r = rec.no_panic("Uint::try_from(&BigInt)", catch(|| U::<B, L>::try_from(&BigInt::from(over.clone()))))?;
    rec.eval(1);
    match r {
        Err(ToUintError::ValueTooLarge(b, w)) => {
            rec.ensure("Uint::try_from(&BigInt)", "error_payload_wrong", b == B && num(&w) == vb, || format!("ValueTooLarge({b}, {}) expected ({B}, {})", hex(&num(&w)), hex(&vb)))?
        }
        other => rec.fail("Uint::try_from(&BigInt)", "accepted_out_of_range", format!("input {} gave {other:?}", hex(&over)))?,
    }
    // negative: -(max(v,1)) must be ValueNegative (payload unspecified)
    let mag = if vb.is_zero() { BigUint::one() } else { vb.clone() };
    let neg = -BigInt::from(mag);
    let r = rec.no_panic("Uint::try_from(&BigInt)", catch(|| U::<B, L>::try_from(&neg)))?;
    rec.eval(1);
    match r {
        Err(ToUintError::ValueNegative(b, _)) => rec.ensure("Uint::try_from(&BigInt)", "error_payload_wrong", b == B, || format!("ValueNegative({b}, _) expected BITS {B}"))?,
        other => rec.fail("Uint::try_from(&BigInt)", "accepted_negative", format!("input {neg} gave {other:?}"))?,
    }
    Ok(())
}

// ===========================================================================
// primitive-types (only the pairs the module implements)

macro_rules! pt_uint_body {
    ($name:ident, $bits:literal, $theirs:ty) => {
        fn $name(c: &Case, rec: &mut Rec) -> R {
            const L: usize = ruint::nlimbs($bits);
            let (v, vb) = pre::<$bits, L>(c, rec);
            let t: $theirs = rec.no_panic("primitive_types::from(Uint)", catch(|| <$theirs>::from(v)))?;
            // read their value without ruint
            let mut buf = [0u8; $bits / 8];
            t.to_big_endian(&mut buf);
            rec.eq("primitive_types::from(Uint)", &from_be(&buf), &vb)?;
            // build their value without ruint
            let t2 = <$theirs>::from_big_endian(&be_fixed(&vb, $bits / 8));
            rec.ensure("primitive_types::from(Uint)", "value_wrong", t == t2, || format!("got {t:?} expected {t2:?}"))?;
            let back = rec.no_panic("Uint::from(primitive_types)", catch(|| <U<$bits, L> as From<$theirs>>::from(t2)))?;
            rec.eq("Uint::from(primitive_types)", &num(&back), &vb)?;
            Ok(())
        }
    };
}

macro_rules! pt_hash_body {
    ($name:ident, $bits:literal, $theirs:ty) => {
        fn $name(c: &Case, rec: &mut Rec) -> R {
            const L: usize = ruint::nlimbs($bits);
            let (v, vb) = pre::<$bits, L>(c, rec);
            let be = be_fixed(&vb, $bits / 8);
            let ours = Bits::<$bits, L>::from(v);
            let t: $theirs = rec.no_panic("primitive_types::from(Bits)", catch(|| <$theirs>::from(ours)))?;
            bytes_eq(rec, "primitive_types::from(Bits)", "value_wrong", t.as_bytes(), &be)?;
            let t2 = <$theirs>::from_slice(&be);
            let back = rec.no_panic("Bits::from(primitive_types)", catch(|| Bits::<$bits, L>::from(t2)))?;
            rec.eq("Bits::from(primitive_types)", &num(back.as_uint()), &vb)?;
            Ok(())
        }
    };
}

pt_uint_body!(body_pt_u128, 128, primitive_types::U128);
pt_uint_body!(body_pt_u256, 256, primitive_types::U256);
pt_uint_body!(body_pt_u512, 512, primitive_types::U512);
pt_hash_body!(body_pt_h128, 128, primitive_types::H128);
pt_hash_body!(body_pt_h160, 160, primitive_types::H160);
pt_hash_body!(body_pt_h256, 256, primitive_types::H256);
pt_hash_body!(body_pt_h512, 512, primitive_types::H512);

// ===========================================================================
// bytemuck (Pod widths: multiples of 64 up to 1024)

fn body_bytemuck<const B: usize, const L: usize>(c: &Case, rec: &mut Rec) -> R
where
    U<B, L>: bytemuck::Pod,
{
    let (v, vb) = pre::<B, L>(c, rec);
    let exp = le_fixed(&vb, 8 * L);
    let out = rec.no_panic("bytemuck::bytes_of", catch(|| bytemuck::bytes_of(&v).to_vec()))?;
    bytes_eq(rec, "bytemuck::bytes_of", REF, &out, &exp)?;
    // aligned source buffer: the harness' own limb array
    let src: Vec<u64> = limbs_of(&vb, L);
    let aligned: &[u8] = bytemuck::cast_slice(&src);
    let r = catch(|| bytemuck::try_from_bytes::<U<B, L>>(aligned).map(|x| *x));
    rt(rec, "bytemuck::try_from_bytes", r, &vb)?;
    let r = rec.no_panic("bytemuck::pod_read_unaligned", catch(|| bytemuck::pod_read_unaligned::<U<B, L>>(&exp)))?;
    rec.eq("bytemuck::pod_read_unaligned", &num(&r), &vb)?;
    let r = rec.no_panic("bytemuck::cast_slice", catch(|| bytemuck::cast_slice::<u64, U<B, L>>(&src).to_vec()))?;
    rec.ensure("bytemuck::cast_slice", "value_wrong", r.len() == 1 && num(&r[0]) == vb, || format!("got {r:?}"))?;
    let r = rec.no_panic("bytemuck::cast_slice", catch(|| bytemuck::cast_slice::<U<B, L>, u64>(&[v]).to_vec()))?;
    rec.eq("bytemuck::cast_slice", &r, &src)?;
    let z: U<B, L> = bytemuck::Zeroable::zeroed();
    rec.eq("bytemuck::zeroed", &num(&z), &BigUint::zero())?;
    Ok(())
}

// ===========================================================================
// ark-ff 0.3: BigInteger* per width, Fp256 (bn254 Fr / Fq)

macro_rules! ark03_body {
    ($name:ident, $bits:literal, $ark:ty) => {
        fn $name(c: &Case, rec: &mut Rec) -> R {
            const L: usize = ruint::nlimbs($bits);
            let (v, vb) = pre::<$bits, L>(c, rec);
            let lim = limbs_of(&vb, L);
            let a: $ark = rec.no_panic("ark03::BigInteger::from(Uint)", catch(|| <$ark>::from(v)))?;
            rec.eq("ark03::BigInteger::from(Uint)", &a.0.to_vec(), &lim)?;
            let a: $ark = rec.no_panic("ark03::BigInteger::from(&Uint)", catch(|| <$ark>::from(&v)))?;
            rec.eq("ark03::BigInteger::from(&Uint)", &a.0.to_vec(), &lim)?;
            let mut arr = [0u64; L];
            arr.copy_from_slice(&lim);
            let b = <$ark>::new(arr);
            let back = rec.no_panic("Uint::from(ark03::BigInteger)", catch(|| <U<$bits, L> as From<$ark>>::from(b)))?;
            rec.eq("Uint::from(ark03::BigInteger)", &num(&back), &vb)?;
            let back = rec.no_panic("Uint::from(&ark03::BigInteger)", catch(|| <U<$bits, L> as From<&$ark>>::from(&b)))?;
            rec.eq("Uint::from(&ark03::BigInteger)", &num(&back), &vb)?;
            Ok(())
        }
    };
}

ark03_body!(body_ark03_64, 64, ark_ff_03::BigInteger64);
ark03_body!(body_ark03_128, 128, ark_ff_03::BigInteger128);
ark03_body!(body_ark03_256, 256, ark_ff_03::BigInteger256);
ark03_body!(body_ark03_320, 320, ark_ff_03::BigInteger320);
ark03_body!(body_ark03_384, 384, ark_ff_03::BigInteger384);
ark03_body!(body_ark03_448, 448, ark_ff_03::BigInteger448);
ark03_body!(body_ark03_768, 768, ark_ff_03::BigInteger768);
ark03_body!(body_ark03_832, 832, ark_ff_03::BigInteger832);

macro_rules! ark03_field {
    ($rec:ident, $v:ident, $vb:ident, $f:ty, $modulus:expr, $tag:literal) => {{
        use ark_ff_03::PrimeField;
        let m: BigUint = $modulus;
        let in_field = $vb < m;
        $rec.class_if(in_field, concat!($tag, "_in_field"));
        $rec.class_if(!in_field, concat!($tag, "_not_in_field"));
        let r = $rec.no_panic(concat!("ark03::", $tag, "::try_from(Uint)"), catch(|| <$f>::try_from($v)))?;
        let r2 = $rec.no_panic(concat!("ark03::", $tag, "::try_from(&Uint)"), catch(|| <$f>::try_from(&$v)))?;
        $rec.ensure(concat!("ark03::", $tag, "::try_from(&Uint)"), "differs_from_by_value", r.is_ok() == r2.is_ok() && (r.is_err() || r.as_ref().unwrap() == r2.as_ref().unwrap()), || "by-ref and by-value disagree".into())?;
        $rec.eval(1);
        match (r, in_field) {
            (Ok(f), true) => {
                // the element's canonical representative, read through ark's own API
                let repr = f.into_repr();
                $rec.eq(concat!("ark03::", $tag, "::try_from(Uint)"), &repr.0.to_vec(), &limbs_of(&$vb, 4))?;
                let indep = <$f>::from_le_bytes_mod_order(&le_fixed(&$vb, 32));
                $rec.ensure(concat!("ark03::", $tag, "::try_from(Uint)"), "value_wrong", f == indep, || "differs from from_le_bytes_mod_order".into())?;
                let back = $rec.no_panic(concat!("Uint::from(ark03::", $tag, ")"), catch(|| <U<256, 4> as From<$f>>::from(f)))?;
                $rec.eq(concat!("Uint::from(ark03::", $tag, ")"), &num(&back), &$vb)?;
                let back = $rec.no_panic(concat!("Uint::from(&ark03::", $tag, ")"), catch(|| <U<256, 4> as From<&$f>>::from(&f)))?;
                $rec.eq(concat!("Uint::from(&ark03::", $tag, ")"), &num(&back), &$vb)?;
            }
            (Err(_), false) => {}
            (Ok(_), false) => $rec.fail(concat!("ark03::", $tag, "::try_from(Uint)"), "accepted_out_of_range", format!("{} >= modulus accepted", hex(&$vb)))?,
            (Err(e), true) => $rec.fail(concat!("ark03::", $tag, "::try_from(Uint)"), "rejected_in_range", format!("{} < modulus rejected: {e:?}", hex(&$vb)))?,
        }
    }};
}

fn body_ark03_field(c: &Case, rec: &mut Rec) -> R {
    let (v, vb) = pre::<256, 4>(c, rec);
    ark03_field!(rec, v, vb, ark_bn254_03::Fr, fr_mod(), "Fr");
    ark03_field!(rec, v, vb, ark_bn254_03::Fq, fq_mod(), "Fq");
    Ok(())
}

// ===========================================================================
// ark-ff 0.4: BigInt<N> for every width, Fp<P, 4> (bn254 Fr / Fq) for 4-limb widths

fn body_ark04<const B: usize, const L: usize>(c: &Case, rec: &mut Rec) -> R {
    use ark_ff_04::BigInt as ABig;
    let (v, vb) = pre::<B, L>(c, rec);
    let lim = limbs_of(&vb, L);
    let a: ABig<L> = rec.no_panic("ark04::BigInt::from(Uint)", catch(|| ABig::<L>::from(v)))?;
    rec.eq("ark04::BigInt::from(Uint)", &a.0.to_vec(), &lim)?;
    let a: ABig<L> = rec.no_panic("ark04::BigInt::from(&Uint)", catch(|| ABig::<L>::from(&v)))?;
    rec.eq("ark04::BigInt::from(&Uint)", &a.0.to_vec(), &lim)?;
    let mut arr = [0u64; L];
    arr.copy_from_slice(&lim);
    let b = ABig::<L>::new(arr);
    let back = rec.no_panic("Uint::from(ark04::BigInt)", catch(|| <U<B, L> as From<ABig<L>>>::from(b)))?;
    rec.eq("Uint::from(ark04::BigInt)", &num(&back), &vb)?;
    let back = rec.no_panic("Uint::from(&ark04::BigInt)", catch(|| <U<B, L> as From<&ABig<L>>>::from(&b)))?;
    rec.eq("Uint::from(&ark04::BigInt)", &num(&back), &vb)?;
    Ok(())
}

macro_rules! ark04_field {
    ($rec:ident, $v:ident, $vb:ident, $B:ident, $f:ty, $modulus:expr, $tag:literal) => {{
        use ark_ff_04::PrimeField;
        let m: BigUint = $modulus;
        let in_field = $vb < m;
        $rec.class_if(in_field, concat!($tag, "_in_field"));
        $rec.class_if(!in_field, concat!($tag, "_not_in_field"));
        let r = $rec.no_panic(concat!("ark04::", $tag, "::try_from(Uint)"), catch(|| <$f>::try_from($v)))?;
        let r2 = $rec.no_panic(concat!("ark04::", $tag, "::try_from(&Uint)"), catch(|| <$f>::try_from(&$v)))?;
        $rec.ensure(concat!("ark04::", $tag, "::try_from(&Uint)"), "differs_from_by_value", r.is_ok() == r2.is_ok() && (r.is_err() || r.as_ref().unwrap() == r2.as_ref().unwrap()), || "by-ref and by-value disagree".into())?;
        $rec.eval(1);
        match (r, in_field) {
            (Ok(f), true) => {
                let repr = f.into_bigint();
                $rec.eq(concat!("ark04::", $tag, "::try_from(Uint)"), &repr.0.to_vec(), &limbs_of(&$vb, 4))?;
                let indep = <$f>::from_le_bytes_mod_order(&le_fixed(&$vb, 32));
                $rec.ensure(concat!("ark04::", $tag, "::try_from(Uint)"), "value_wrong", f == indep, || "differs from from_le_bytes_mod_order".into())?;
                let back = $rec.no_panic(concat!("Uint::from(ark04::", $tag, ")"), catch(|| <U<$B, 4> as From<$f>>::from(f)))?;
                $rec.eq(concat!("Uint::from(ark04::", $tag, ")"), &num(&back), &$vb)?;
                let back = $rec.no_panic(concat!("Uint::from(&ark04::", $tag, ")"), catch(|| <U<$B, 4> as From<&$f>>::from(&f)))?;
                $rec.eq(concat!("Uint::from(&ark04::", $tag, ")"), &num(&back), &$vb)?;
            }
            (Err(_), false) => {}
            (Ok(_), false) => $rec.fail(concat!("ark04::", $tag, "::try_from(Uint)"), "accepted_out_of_range", format!("{} >= modulus accepted", hex(&$vb)))?,
            (Err(e), true) => $rec.fail(concat!("ark04::", $tag, "::try_from(Uint)"), "rejected_in_range", format!("{} < modulus rejected: {e:?}", hex(&$vb)))?,
        }
    }};
}

/// Only instantiated with L == 4 (widths 193..=256).
fn body_ark04_field<const B: usize, const L: usize>(c: &Case, rec: &mut Rec) -> R {
    let (v4, vb) = pre::<B, 4>(c, rec);
    let v = v4;
    ark04_field!(rec, v, vb, B, ark_bn254_04::Fr, fr_mod(), "Fr");
    ark04_field!(rec, v, vb, B, ark_bn254_04::Fq, fq_mod(), "Fq");
    Ok(())
}

// ===========================================================================
// Postgres

enum PgExp {
    /// to_sql must return an error (value does not fit the column type)
    MustErr,
    /// to_sql must succeed with exactly these bytes
    Exact(Vec<u8>),
    /// to_sql must succeed and the bytes must denote the value under this reader
    Denotes(fn(&[u8]) -> Result<BigUint, String>),
    /// float: must succeed with this many bytes; exact bytes when the value is exactly representable
    Float(usize, Option<Vec<u8>>),
    /// nothing promised about success; if it succeeds only the round trip is checked
    Unspecified,
}

fn pg_bytea(raw: &[u8]) -> Result<BigUint, String> {
    Ok(from_be(raw))
}

fn pg_jsonb(raw: &[u8]) -> Result<BigUint, String> {
    match raw.split_first() {
        Some((1, rest)) => parse_json_hex(rest),
        _ => Err("JSONB must start with version byte 1".into()),
    }
}

const PG_TYPES: [&str; 17] = ["BOOL", "INT2", "INT4", "OID", "INT8", "MONEY", "FLOAT4", "FLOAT8", "NUMERIC", "BYTEA", "BIT", "VARBIT", "CHAR", "TEXT", "VARCHAR", "JSON", "JSONB"];
const PG_TO: [&str; 17] = [
    "postgres::to_sql(BOOL)", "postgres::to_sql(INT2)", "postgres::to_sql(INT4)", "postgres::to_sql(OID)", "postgres::to_sql(INT8)", "postgres::to_sql(MONEY)",
    "postgres::to_sql(FLOAT4)", "postgres::to_sql(FLOAT8)", "postgres::to_sql(NUMERIC)", "postgres::to_sql(BYTEA)", "postgres::to_sql(BIT)", "postgres::to_sql(VARBIT)",
    "postgres::to_sql(CHAR)", "postgres::to_sql(TEXT)", "postgres::to_sql(VARCHAR)", "postgres::to_sql(JSON)", "postgres::to_sql(JSONB)",
];
const PG_FROM: [&str; 17] = [
    "postgres::from_sql(BOOL)", "postgres::from_sql(INT2)", "postgres::from_sql(INT4)", "postgres::from_sql(OID)", "postgres::from_sql(INT8)", "postgres::from_sql(MONEY)",
    "postgres::from_sql(FLOAT4)", "postgres::from_sql(FLOAT8)", "postgres::from_sql(NUMERIC)", "postgres::from_sql(BYTEA)", "postgres::from_sql(BIT)", "postgres::from_sql(VARBIT)",
    "postgres::from_sql(CHAR)", "postgres::from_sql(TEXT)", "postgres::from_sql(VARCHAR)", "postgres::from_sql(JSON)", "postgres::from_sql(JSONB)",
];
const PG_OK: [&str; 17] = [
    "pg_ok:BOOL", "pg_ok:INT2", "pg_ok:INT4", "pg_ok:OID", "pg_ok:INT8", "pg_ok:MONEY", "pg_ok:FLOAT4", "pg_ok:FLOAT8", "pg_ok:NUMERIC", "pg_ok:BYTEA", "pg_ok:BIT", "pg_ok:VARBIT",
    "pg_ok:CHAR", "pg_ok:TEXT", "pg_ok:VARCHAR", "pg_ok:JSON", "pg_ok:JSONB",
];

fn pg_type(i: usize) -> postgres_types::Type {
    use postgres_types::Type;
    [
        Type::BOOL, Type::INT2, Type::INT4, Type::OID, Type::INT8, Type::MONEY, Type::FLOAT4, Type::FLOAT8, Type::NUMERIC, Type::BYTEA, Type::BIT, Type::VARBIT, Type::CHAR, Type::TEXT,
        Type::VARCHAR, Type::JSON, Type::JSONB,
    ][i]
    .clone()
}

fn pg_expect(i: usize, vb: &BigUint, bits: usize) -> PgExp {
    let int = |max: u64, n: usize| if *vb <= BigUint::from(max) { PgExp::Exact(be_fixed(vb, n)) } else { PgExp::MustErr };
    match PG_TYPES[i] {
        "BOOL" => int(1, 1),
        "INT2" => int(i16::MAX as u64, 2),
        "INT4" => int(i32::MAX as u64, 4),
        "OID" => int(u32::MAX as u64, 4),
        "INT8" => int(i64::MAX as u64, 8),
        "MONEY" => {
            // "a 64 bit integer with two decimals"
            let cents = vb * 100u32;
            if cents <= BigUint::from(i64::MAX as u64) {
                PgExp::Exact(be_fixed(&cents, 8))
            } else {
                PgExp::MustErr
            }
        }
        "FLOAT4" => PgExp::Float(4, if *vb <= BigUint::from(1u32 << 24) { Some((vb.to_u32().unwrap() as f32).to_be_bytes().to_vec()) } else { None }),
        "FLOAT8" => PgExp::Float(8, if *vb <= BigUint::from(1u64 << 53) { Some((vb.to_u64().unwrap() as f64).to_be_bytes().to_vec()) } else { None }),
        "NUMERIC" => PgExp::Denotes(pg_numeric_value),
        "BYTEA" => PgExp::Denotes(pg_bytea),
        "BIT" => {
            if bits == 0 {
                PgExp::Unspecified // bit(0) does not exist; the docs do not say what happens
            } else {
                PgExp::Exact(ref_pg_bits(vb, bits))
            }
        }
        "VARBIT" => PgExp::Exact(ref_pg_bits(vb, bits)),
        "CHAR" | "TEXT" | "VARCHAR" => PgExp::Denotes(parse_0x_hex),
        "JSON" => PgExp::Denotes(parse_json_hex),
        "JSONB" => PgExp::Denotes(pg_jsonb),
        _ => unreachable!(),
    }
}

fn body_postgres<const B: usize, const L: usize>(c: &Case, rec: &mut Rec) -> R {
    use postgres_types::{FromSql, IsNull, ToSql};
    let (v, vb) = pre::<B, L>(c, rec);
    for i in 0..PG_TYPES.len() {
        let ty = pg_type(i);
        let (cto, cfrom) = (PG_TO[i], PG_FROM[i]);
        rec.ensure(cto, "accepts_false", <U<B, L> as ToSql>::accepts(&ty), || "documented type not accepted".into())?;
        rec.ensure(cfrom, "accepts_false", <U<B, L> as FromSql>::accepts(&ty), || "documented type not accepted".into())?;
        let mut out = bytes::BytesMut::new();
        let r = catch(|| v.to_sql(&ty, &mut out).map(|n| matches!(n, IsNull::No)).map_err(|e| e.to_string()));
        let r = rec.no_panic(cto, r)?;
        let out = out.to_vec();
        let float = matches!(PG_TYPES[i], "FLOAT4" | "FLOAT8");
        rec.eval(1);
        let mut encoded = false;
        match (pg_expect(i, &vb, B), &r) {
            (PgExp::MustErr, Err(_)) => rec.class("pg_value_does_not_fit"),
            (PgExp::MustErr, Ok(_)) => rec.fail(cto, "accepted_out_of_range", format!("{} does not fit {} but to_sql wrote {}", hex(&vb), PG_TYPES[i], hex_bytes(&out)))?,
            (PgExp::Unspecified, Err(_)) => {}
            (PgExp::Unspecified, Ok(_)) => encoded = true,
            (_, Err(e)) => rec.fail(cto, "rejected_in_range", format!("{} fits {} but to_sql failed: {e}", hex(&vb), PG_TYPES[i]))?,
            (PgExp::Exact(exp), Ok(_)) => {
                encoded = true;
                bytes_eq(rec, cto, REF, &out, &exp)?;
            }
            (PgExp::Denotes(rd), Ok(_)) => {
                encoded = true;
                match rd(&out) {
                    Ok(x) => rec.ensure(cto, REF, x == vb, || format!("bytes {} denote {} expected {}", hex_bytes(&out), hex(&x), hex(&vb)))?,
                    Err(e) => rec.fail(cto, "malformed_encoding", format!("bytes {}: {e}", hex_bytes(&out)))?,
                }
            }
            (PgExp::Float(n, exp), Ok(_)) => {
                encoded = true;
                rec.ensure(cto, "length_mismatch", out.len() == n, || format!("{} bytes for a {n}-byte float", out.len()))?;
                if let Some(exp) = exp {
                    rec.class("pg_float_exact");
                    bytes_eq(rec, cto, REF, &out, &exp)?;
                }
            }
        }
        if let Ok(not_null) = r {
            rec.ensure(cto, "is_null_wrong", not_null, || "to_sql returned IsNull::Yes".into())?;
        }
        if encoded {
            rec.class(PG_OK[i]);
            // the checked entry point gives the same bytes
            let mut out2 = bytes::BytesMut::new();
            let r2 = rec.no_panic(cto, catch(|| v.to_sql_checked(&ty, &mut out2).map(|_| ()).map_err(|e| e.to_string())))?;
            rec.ensure(cto, "checked_differs", r2.is_ok() && out2[..] == out[..], || format!("to_sql_checked gave {r2:?} {}", hex_bytes(&out2)))?;
            if !float {
                let r = catch(|| <U<B, L> as FromSql>::from_sql(&ty, &out).map_err(|e| e.to_string()));
                rt(rec, cfrom, r, &vb)?;
            }
        }
    }
    Ok(())
}

// ===========================================================================
// Oracle self-tests (exit 2 on failure, never a violation)

fn self_test() {
    let chk = |name: &str, ok: bool| {
        if !ok {
            harness_error(&format!("reference encoder self-test failed: {name}"));
        }
    };
    let xs: Vec<u128> = {
        let mut v = vec![0u128, 1, 0x3f, 0x40, 0x7f, 0x80, 0xff, 0x100, 0x3fff, 0x4000, 0x3fff_ffff, 0x4000_0000, u32::MAX as u128, 1 << 32, (1 << 56) - 1, 1 << 56, u64::MAX as u128, 1 << 64, (1 << 120) - 1, 1 << 120, u128::MAX];
        for k in 0..128 {
            v.push((1u128 << k) + 1);
            v.push((1u128 << k).wrapping_mul(0x0123_4567_89ab_cdef_0123_4567_89ab_cdef >> (127 - k)));
        }
        v
    };
    for &x in &xs {
        let b = BigUint::from(x);
        // RLP
        chk("rlp u128", ref_rlp_uint(&b) == rlp::encode(&x).to_vec());
        let mut o = vec![];
        alloy_rlp::Encodable::encode(&x, &mut o);
        chk("alloy-rlp u128", ref_rlp_uint(&b) == o);
        let mut o = vec![];
        fastrlp_03::Encodable::encode(&x, &mut o);
        chk("fastrlp 0.3 u128", ref_rlp_uint(&b) == o);
        let mut o = vec![];
        fastrlp_04::Encodable::encode(&x, &mut o);
        chk("fastrlp 0.4 u128", ref_rlp_uint(&b) == o);
        // compact
        chk("compact u128", ref_compact(&b) == parity_scale_codec::Encode::encode(&parity_scale_codec::Compact(x)));
        // DER
        chk("der u128", ref_der(&b) == der::Encode::to_der(&x).unwrap());
        // fixed LE
        chk("borsh u128", le_fixed(&b, 16) == borsh::to_vec(&x).unwrap());
        chk("ssz u128", le_fixed(&b, 16) == ssz::Encode::as_ssz_bytes(&x));
        // hex
        chk("json hex", ref_json(&b) == format!("\"{x:#x}\""));
        chk("json bits hex", ref_json_bits(&b, 128) == format!("\"0x{x:032x}\""));
        chk("parse hex", parse_0x_hex(format!("{x:#x}").as_bytes()) == Ok(b.clone()));
        chk("parse hex padded", parse_0x_hex(format!("0x{x:040X}").as_bytes()) == Ok(b.clone()));
        // bincode byte string
        let p = be_fixed(&b, 16);
        chk("bincode bytes", ref_bincode_bytes(&p) == bincode::serialize(&p).unwrap());
        if let Ok(y) = u64::try_from(x) {
            chk("rlp u64", ref_rlp_uint(&b) == rlp::encode(&y).to_vec());
            chk("compact u64", ref_compact(&b) == parity_scale_codec::Encode::encode(&parity_scale_codec::Compact(y)));
            chk("der u64", ref_der(&b) == der::Encode::to_der(&y).unwrap());
            chk("borsh u64", le_fixed(&b, 8) == borsh::to_vec(&y).unwrap());
        }
    }
    // RLP strings around the 55/56-byte header boundary and a two-byte length
    for n in [0usize, 1, 2, 54, 55, 56, 57, 255, 256, 300] {
        let p = vec![0xAAu8; n];
        chk("rlp string header", ref_rlp_string(&p) == rlp::encode(&p).to_vec());
        let mut o = vec![];
        alloy_rlp::Encodable::encode(&p[..], &mut o);
        chk("alloy-rlp string header", ref_rlp_string(&p) == o);
        let mut s = rlp::RlpStream::new_list(1);
        s.append(&p);
        chk("rlp list header", ref_rlp_list(&ref_rlp_string(&p)) == s.out().to_vec());
        // DER long-form lengths through OCTET STRING
        let os = der::asn1::OctetString::new(p.clone()).unwrap();
        let d = der::Encode::to_der(&os).unwrap();
        chk("der length", d[1..1 + ref_der_len(n).len()] == ref_der_len(n)[..]);
    }
    // NUMERIC reader against the vector documented in postgres.rs (test_basic) and hand vectors
    let n = BigUint::parse_bytes(b"c85ef7d79691fe79573b1a7064c19c1a9819ebdbd1faaab1a8ec92344438aaf4", 16).unwrap();
    let raw = unhex_bytes("0014001300000000000902760e3620f115a21c3b029709bc11e60b3e10d10d6900d123400def1c45091a147900f012f4").unwrap();
    chk("numeric vector", pg_numeric_value(&raw) == Ok(n));
    chk("numeric zero", pg_numeric_value(&[0, 0, 0, 0, 0, 0, 0, 0]) == Ok(BigUint::zero()));
    chk("numeric 10000", pg_numeric_value(&[0, 1, 0, 1, 0, 0, 0, 0, 0, 1]) == Ok(BigUint::from(10000u32)));
    chk("numeric 12345678", pg_numeric_value(&[0, 2, 0, 1, 0, 0, 0, 0, 0x04, 0xd2, 0x16, 0x2e]) == Ok(BigUint::from(12345678u32)));
    chk("numeric negative", pg_numeric_value(&[0, 1, 0, 0, 0x40, 0, 0, 0, 0, 1]).is_err());
    chk("numeric fraction", pg_numeric_value(&[0, 2, 0, 0, 0, 0, 0, 0, 0, 1, 0, 1]).is_err());
    // BIT layout: B'101' = len 3, byte 0b1010_0000
    chk("pg bits", ref_pg_bits(&BigUint::from(5u32), 3) == vec![0, 0, 0, 3, 0xa0]);
    chk("pg bits 9", ref_pg_bits(&BigUint::from(0x1ffu32), 9) == vec![0, 0, 0, 9, 0xff, 0x80]);
    // bn254 moduli against both ark versions
    {
        use ark_ff_03::FpParameters;
        chk("Fr modulus 0.3", big(&ark_bn254_03::FrParameters::MODULUS.0) == fr_mod());
        chk("Fq modulus 0.3", big(&ark_bn254_03::FqParameters::MODULUS.0) == fq_mod());
        use ark_ff_04::PrimeField;
        chk("Fr modulus 0.4", big(&<ark_bn254_04::Fr as PrimeField>::MODULUS.0) == fr_mod());
        chk("Fq modulus 0.4", big(&<ark_bn254_04::Fq as PrimeField>::MODULUS.0) == fq_mod());
    }
}

// ===========================================================================
// Registration

/// Exhaustive for the small widths of the grid, generated for the rest
/// (standard grid + 440 / 448 = the 55/56-byte RLP boundary).
macro_rules! reg16 {
    ($jobs:expr, $rule:literal, $cases:expr, $body:ident) => {
        reg_enum!($jobs, $rule, enum_all, $body; [0, 1, 2, 3, 7, 8]);
        reg_gen!($jobs, $rule, $cases, strat, $body;
            [16, 31, 32, 60, 63, 64, 65, 96, 127, 128, 129, 160, 190, 192, 250, 255, 256, 257, 320, 384, 440, 448, 512, 535]);
    };
}

fn main() {
    self_test();
    let spec = PropSpec {
        id: "C16",
        rule_text: "reader-based decoders (borsh deserialize_reader/from_reader, bincode deserialize_from, serde_json from_reader, SCALE IoReader fixed and compact) are also fed the complete encoding through a reader that delivers 1 byte per call and one that delivers it in two pieces; one rule per integration (serde JSON+bincode incl. Bits, rlp incl. Bits, alloy-rlp, fastrlp 0.3/0.4 incl. encode_fixed_size, SCALE fixed, SCALE compact, SSZ, borsh incl. Bits, DER incl. Any/Int/Uint, num-bigint, postgres 17 column types, primitive-types, bytemuck, ark-ff 0.3/0.4 incl. bn254 Fr/Fq). Widths: exhaustive enumeration of all values for BITS in {0,1,2,3,7,8}; generated values for the rest of the standard grid plus 440/448 (55/56-byte RLP boundary), 535 (compact bound), 1024 for DER long-form lengths, and the specific widths of the non-generic impls. Values: format boundary list (0,1,0x3f/0x40,0x7f/0x80,0xff/0x100,2^14,2^30,2^(8k)-1/2^(8k)/2^(8k)+1 for every k,2^15/31/32/63/64/128 neighbours,10000^k neighbours,MAX,MAX-1), gen::uint alphabet, exact-bit-length values, small values in wide types, decimal multiples; field rules add bn254 moduli +-2. Oracle: hand-written reference encoders over num-bigint (self-tested at start-up against the codec crates' u64/u128 impls) and the codec crates' own primitive encodings. Non-trivial: value is 0, MAX, 2^k-1, 2^k or 2^k+1, or bit_len is a multiple of 8, or bit_len <= BITS/2 in a type of >= 128 bits; distinct by (rule,width,value).",
        assumptions: vec![
            "num-bigint (byte conversion, shifts, formatting) is correct (oracle); self-tested against u128 formatting",
            "the codec crates' encodings of u64/u128 are correct instances of their formats (second reference; the hand-written encoders are self-tested against them)",
            "x86-64 little-endian target only",
            "SCALE fixed form: the property names no reference encoding, only round trip and length consistency are checked",
            "postgres BYTEA, TEXT/VARCHAR/CHAR, JSON/JSONB and NUMERIC are compared by the value the bytes denote under the Postgres binary format (padding / digit normalisation are not mandated by the docs); BOOL/INT2/INT4/OID/INT8/MONEY/BIT/VARBIT bytes are compared exactly; FLOAT4/FLOAT8 only for exactly representable values and without round trip; BIT for BITS = 0 unspecified",
            "harness profile has debug-assertions and overflow-checks on; any library panic while encoding or decoding a valid value is a violation",
        ],
        thorough_mult: 20,
    };
    main_with(
        spec,
        |jobs, _| {
            reg16!(jobs, "serde", 8000, body_serde);
            reg16!(jobs, "rlp", 10000, body_rlp);
            reg16!(jobs, "alloy_rlp", 10000, body_alloy);
            reg16!(jobs, "fastrlp_03", 10000, body_fastrlp03);
            reg16!(jobs, "fastrlp_04", 10000, body_fastrlp04);
            reg16!(jobs, "scale_fixed", 10000, body_scale_fixed);
            reg16!(jobs, "scale_compact", 10000, body_scale_compact);
            reg16!(jobs, "ssz", 10000, body_ssz);
            reg16!(jobs, "borsh", 10000, body_borsh);
            reg16!(jobs, "der", 10000, body_der);
            reg_gen!(jobs, "der", 10000, strat, body_der; [1024]);
            reg16!(jobs, "num_bigint", 10000, body_bigint);
            reg16!(jobs, "postgres", 6000, body_postgres);
            reg16!(jobs, "ark04_bigint", 4000, body_ark04);
            reg_gen!(jobs, "ark04_field", 20000, strat_field, body_ark04_field; [250, 255, 256]);
            reg_gen!(jobs, "bytemuck", 4000, strat, body_bytemuck; [64, 128, 192, 256, 320, 384, 448, 512, 1024]);
            // non-generic impls
            let ng: [(&'static str, usize, Body); 26] = [
                ("fastrlp_fixed_size", 0, body_rlpfix_0),
                ("fastrlp_fixed_size", 1, body_rlpfix_1),
                ("fastrlp_fixed_size", 8, body_rlpfix_8),
                ("fastrlp_fixed_size", 16, body_rlpfix_16),
                ("fastrlp_fixed_size", 64, body_rlpfix_64),
                ("fastrlp_fixed_size", 128, body_rlpfix_128),
                ("fastrlp_fixed_size", 160, body_rlpfix_160),
                ("fastrlp_fixed_size", 256, body_rlpfix_256),
                ("fastrlp_fixed_size", 384, body_rlpfix_384),
                ("fastrlp_fixed_size", 512, body_rlpfix_512),
                ("primitive_types_uint", 128, body_pt_u128),
                ("primitive_types_uint", 256, body_pt_u256),
                ("primitive_types_uint", 512, body_pt_u512),
                ("primitive_types_hash", 128, body_pt_h128),
                ("primitive_types_hash", 160, body_pt_h160),
                ("primitive_types_hash", 256, body_pt_h256),
                ("primitive_types_hash", 512, body_pt_h512),
                ("ark03_bigint", 64, body_ark03_64),
                ("ark03_bigint", 128, body_ark03_128),
                ("ark03_bigint", 256, body_ark03_256),
                ("ark03_bigint", 320, body_ark03_320),
                ("ark03_bigint", 384, body_ark03_384),
                ("ark03_bigint", 448, body_ark03_448),
                ("ark03_bigint", 768, body_ark03_768),
                ("ark03_bigint", 832, body_ark03_832),
                ("ark03_field", 256, body_ark03_field),
            ];
            for (rule, bits, body) in ng {
                if bits <= 8 {
                    jobs.enumerate(rule, bits, move |f| enum_all(bits, f), body);
                } else if rule == "ark03_field" {
                    jobs.gen(rule, bits, 20000, move || strat_field(bits), body);
                } else {
                    jobs.gen(rule, bits, 4000, move || strat(bits), body);
                }
            }
        },
        |_| Map::new(),
    );
}

