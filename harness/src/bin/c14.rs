//! C14 — limb-slice division kernels (DESIGN 4, C14).

use proptest::prelude::*;
use ruint::algorithms::div as d;
use vcore::big::*;
use vcore::gen::*;
use vcore::*;

const MAXLEN: usize = 12;

fn trim(v: &[u64]) -> &[u64] {
    let n = v.iter().rposition(|x| *x != 0).map_or(0, |i| i + 1);
    &v[..n]
}

/// Divisor of effective length `dl` (top limb non-zero) from raw material.
fn shape_divisor(mat: &[u64], dl: usize, lz: u32, force_top: bool) -> Vec<u64> {
    let mut v = mat[..dl].to_vec();
    let top = &mut v[dl - 1];
    if *top == 0 {
        *top = 1;
    }
    if force_top {
        *top = (*top | (1u64 << 63)) >> lz;
    }
    v
}

/// (numerator, divisor) pair of slice lengths up to MAXLEN, divisor of effective
/// length in dmin..=dmax (non-zero), numerator from 4 classes.
fn nd_pair(dmin: usize, dmax: usize, nmax: usize) -> BoxedStrategy<(Vec<u64>, Vec<u64>, u64)> {
    (
        (limbs(MAXLEN), limbs(MAXLEN), limbs(MAXLEN), limbs(MAXLEN)),
        (dmin..=dmax, 0u32..64, any::<bool>(), 0..=nmax, 0u8..6, 0u8..5, 0u8..4, 0u8..6),
    )
        .prop_map(move |((dm, nm, qm, rm), (dl, lz, force_top, nl, class, rk, mode, tie))| {
            let mut dv = shape_divisor(&dm, dl, lz, force_top);
            // one divisor in six (two limbs and more): the normalised leading 128 bits sit on
            // the tie of the 3-by-2 reciprocal's last correction step (vcore::recip), or one
            // beside it
            if tie == 0 && dl >= 2 {
                let delta = [0i64, 0, 0, 1, -1][(rk % 5) as usize];
                if let Some(t) = vcore::recip::tie_divisor(dm[dl - 1], mode as usize, delta, dl, lz, &dm) {
                    dv = t;
                }
            }
            let db = big(&dv);
            let num: Vec<u64> = match class {
                0 => nm[..nl].to_vec(),
                4 | 5 => {
                    // power of two whose leading bit becomes the top bit of a limb after the
                    // normalising shift (the extreme 3-by-2 window 2^63:0:0)
                    let lzd = dv[dl - 1].leading_zeros();
                    vcore::recip::pow2_numerator(nl.max(dl + 1).min(nmax.max(dl)), lzd, qm[0] as usize, rk, &nm)
                }
                1 => {
                    // n = q*d + r, q of ql limbs
                    let ql = nl.saturating_sub(dl);
                    let q = big(&qm[..ql]);
                    let r = match rk {
                        0 => BigUint::zero(),
                        1 => BigUint::one() % &db,
                        2 => &db - 1u32,
                        3 => big(&rm[..dl]) % &db,
                        _ => (&db - 1u32) >> 1,
                    };
                    let n = q * &db + r;
                    let mut v = n.to_u64_digits();
                    if v.len() < nl {
                        v.resize(nl, 0);
                    }
                    v.truncate(nmax.max(dl));
                    v
                }
                _ => {
                    // numerator copying the divisor's leading limbs at offset j
                    let nl = nl.max(dl);
                    let j = nl - dl;
                    let mut v = vec![0u64; nl];
                    for i in 0..dl {
                        v[i + j] = dv[i];
                    }
                    let keep_from = (j + dl).saturating_sub(2);
                    for i in 0..keep_from {
                        v[i] = match mode {
                            0 => nm[i],
                            1 => u64::MAX,
                            2 => 0,
                            _ => dv.get(i.wrapping_sub(j)).copied().unwrap_or(nm[i]).wrapping_sub(1),
                        };
                    }
                    if class == 3 && nl > 0 {
                        // make the top window slightly smaller than the divisor's
                        let t = v[nl - 1];
                        v[nl - 1] = t.saturating_sub((mode as u64) & 1);
                    }
                    v
                }
            };
            (num, dv, class as u64)
        })
        .boxed()
}

/// `nd_pair` with one pair in eight made long: the numerator (and, half of the time, the divisor)
/// gets a run of generated limbs inserted below its leading limbs, up to 40 limbs in total
/// ("every combination of slice lengths" includes lengths at which a kernel could switch
/// strategy).
fn nd_pair_long(dmin: usize, dmax: usize, nmax: usize) -> BoxedStrategy<(Vec<u64>, Vec<u64>, u64)> {
    (nd_pair(dmin, dmax, nmax), 0u8..8, 13usize..=40, limbs(30), any::<bool>(), 0u8..3)
        .prop_map(move |((mut n, mut d, class), sel, target, fill, also_d, kind)| {
            if sel != 0 || nmax < MAXLEN {
                return (n, d, class);
            }
            let word = |i: usize| match kind {
                0 => 0,
                1 => u64::MAX,
                _ => fill[i % fill.len()],
            };
            let stretch = |v: &mut Vec<u64>, to: usize| {
                if v.len() >= to || v.is_empty() {
                    return;
                }
                let keep_top = v.len().min(3);
                let at = v.len() - keep_top;
                let extra: Vec<u64> = (0..to - v.len()).map(word).collect();
                v.splice(at..at, extra);
            };
            if also_d && dmax >= MAXLEN {
                stretch(&mut d, target / 2);
            }
            stretch(&mut n, target);
            (n, d, class)
        })
        .boxed()
}

// ---------------------------------------------------------------- algorithms::div

fn strat_div(_: usize) -> BoxedStrategy<Case> {
    let nonzero = (nd_pair_long(1, MAXLEN, MAXLEN), 0usize..3, 0usize..3).prop_map(|((mut n, mut dv, class), pn, pd)| {
        let nl = (n.len() + pn).min(MAXLEN).max(n.len());
        n.resize(nl, 0);
        let dl = (dv.len() + pd).min(MAXLEN).max(dv.len());
        dv.resize(dl, 0);
        Case::new().l(n).l(dv).n(class)
    });
    let zero_div = (limbs(MAXLEN), 0..=MAXLEN, 0..=MAXLEN).prop_map(|(nm, nl, dl)| {
        Case::new().l(nm[..nl].to_vec()).l(vec![0; dl]).n(9)
    });
    prop_oneof![30 => nonzero, 1 => zero_div].boxed()
}

/// all (numerator, divisor) with 1..=4 / 1..=3 limbs from a small alphabet (complete enumeration)
fn enum_div_alphabet(f: &mut dyn FnMut(&Case) -> R) -> R {
    let words = |len: usize| -> Vec<Vec<u64>> {
        let a = &LIMB_ALPHABET5;
        let mut out = vec![];
        for mut idx in 0..(a.len() as u64).pow(len as u32) {
            let mut v = vec![];
            for _ in 0..len {
                v.push(a[(idx % a.len() as u64) as usize]);
                idx /= a.len() as u64;
            }
            out.push(v);
        }
        out
    };
    for nl in 1..=4 {
        for dl in 1..=3 {
            for n in words(nl) {
                for d in words(dl) {
                    if d.iter().all(|x| *x == 0) {
                        continue;
                    }
                    f(&Case::new().l(n.clone()).l(d).n(7))?;
                }
            }
        }
    }
    Ok(())
}

fn kernel_classes(rec: &mut Rec, n: &[u64], dv: &[u64], q: &BigUint) -> bool {
    let dl = trim(dv).len();
    let nl = trim(n).len();
    rec.class(match dl { 0 => "dlen=0", 1 => "dlen=1", 2 => "dlen=2", 3 => "dlen=3", 4 => "dlen=4", _ => "dlen>=5" });
    rec.class_if(nl > dl, "nlen>dlen");
    rec.class_if(nl == dl, "nlen==dlen");
    rec.class_if(nl < dl, "nlen<dlen");
    rec.class_if(n.len() > nl, "numerator_padded");
    rec.class_if(dv.len() > dl, "divisor_padded");
    rec.class_if(dl > 0 && dv[dl - 1] >> 63 == 1, "divisor_normalised");
    dl >= 2 && !q.is_zero()
}

fn body_div<const B: usize, const L: usize>(c: &Case, rec: &mut Rec) -> R {
    let (n0, d0) = (&c.l[0], &c.l[1]);
    let (nb, db) = (big(n0), big(d0));
    let mut n = n0.clone();
    let mut dv = d0.clone();
    if db.is_zero() {
        rec.class("zero_divisor");
        return rec.must_panic("div", catch(|| d::div(&mut n, &mut dv)));
    }
    let (qe, re) = (&nb / &db, &nb % &db);
    if kernel_classes(rec, n0, d0, &qe) {
        rec.nontrivial(&(n0, d0));
    }
    rec.sample(|| json!({"numerator": n0.iter().map(|x| format!("{x:#x}")).collect::<Vec<_>>(), "divisor": d0.iter().map(|x| format!("{x:#x}")).collect::<Vec<_>>(), "q": hex(&qe), "r": hex(&re)}));
    rec.no_panic("div", catch(|| d::div(&mut n, &mut dv)))?;
    // the WHOLE numerator slice reads as q, the WHOLE divisor slice as r
    rec.eqc("div", "quotient_wrong", &big(&n), &qe)?;
    rec.eqc("div", "remainder_wrong", &big(&dv), &re)?;
    Ok(())
}

// ---------------------------------------------------------------- n-by-1, n-by-2

fn strat_nx1(_: usize) -> BoxedStrategy<Case> {
    nd_pair(1, 1, MAXLEN)
        .prop_map(|(n, dv, class)| Case::new().l(n).l(dv).n(class))
        .boxed()
}

fn body_nx1<const B: usize, const L: usize>(c: &Case, rec: &mut Rec) -> R {
    let dv = c.l[1][0];
    let db = u(dv);
    // div_nx1: non-empty, top limb non-zero
    let n0 = trim(&c.l[0]).to_vec();
    if !n0.is_empty() {
        let nb = big(&n0);
        let (qe, re) = (&nb / &db, &nb % &db);
        rec.class_if(dv >> 63 == 1, "nx1:normalised");
        rec.class_if(dv >> 63 == 0, "nx1:shifted");
        if n0.len() >= 2 {
            rec.nontrivial(&(&n0, dv));
        }
        rec.sample(|| json!({"kernel": "div_nx1", "numerator": hexl(&n0), "d": format!("{dv:#x}")}));
        let mut n = n0.clone();
        let r = rec.no_panic("div_nx1", catch(|| d::div_nx1(&mut n, dv)))?;
        rec.eqc("div_nx1", "quotient_wrong", &big(&n), &qe)?;
        rec.eqc("div_nx1", "remainder_wrong", &u(r), &re)?;
    }
    // div_nx1_normalized: any numerator (leading zeros allowed), d >= 2^63
    let dn = dv | (1 << 63);
    let n0 = c.l[0].clone();
    let nb = big(&n0);
    let (qe, re) = (&nb / u(dn), &nb % u(dn));
    let mut n = n0.clone();
    let r = rec.no_panic("div_nx1_normalized", catch(|| d::div_nx1_normalized(&mut n, dn)))?;
    rec.eqc("div_nx1_normalized", "quotient_wrong", &big(&n), &qe)?;
    rec.eqc("div_nx1_normalized", "remainder_wrong", &u(r), &re)?;
    Ok(())
}

fn strat_nx2(_: usize) -> BoxedStrategy<Case> {
    nd_pair(2, 2, MAXLEN)
        .prop_map(|(n, dv, class)| Case::new().l(n).l(dv).n(class))
        .boxed()
}

fn body_nx2<const B: usize, const L: usize>(c: &Case, rec: &mut Rec) -> R {
    let dv = (c.l[1][1] as u128) << 64 | c.l[1][0] as u128; // >= 2^64 by construction
    let db = u128b(dv);
    let n0 = trim(&c.l[0]).to_vec();
    if !n0.is_empty() {
        let nb = big(&n0);
        let (qe, re) = (&nb / &db, &nb % &db);
        rec.class_if(dv >> 127 == 1, "nx2:normalised");
        rec.class_if(dv >> 127 == 0, "nx2:shifted");
        if n0.len() >= 2 && !qe.is_zero() {
            rec.nontrivial(&(&n0, dv));
        }
        rec.sample(|| json!({"kernel": "div_nx2", "numerator": hexl(&n0), "d": format!("{dv:#x}")}));
        let mut n = n0.clone();
        let r = rec.no_panic("div_nx2", catch(|| d::div_nx2(&mut n, dv)))?;
        rec.eqc("div_nx2", "quotient_wrong", &big(&n), &qe)?;
        rec.eqc("div_nx2", "remainder_wrong", &u128b(r), &re)?;
    }
    let dn = dv | (1 << 127);
    let n0 = c.l[0].clone();
    let nb = big(&n0);
    let (qe, re) = (&nb / u128b(dn), &nb % u128b(dn));
    let mut n = n0.clone();
    let r = rec.no_panic("div_nx2_normalized", catch(|| d::div_nx2_normalized(&mut n, dn)))?;
    rec.eqc("div_nx2_normalized", "quotient_wrong", &big(&n), &qe)?;
    rec.eqc("div_nx2_normalized", "remainder_wrong", &u128b(r), &re)?;
    Ok(())
}

// ---------------------------------------------------------------- n-by-m

fn strat_nxm(_: usize) -> BoxedStrategy<Case> {
    (nd_pair(3, MAXLEN, MAXLEN), 0usize..3)
        .prop_map(|((mut n, dv, class), pad)| {
            // numerator at least as long as the divisor (zero padding at the top is
            // inside the documented conditions of use)
            let want = n.len().max(dv.len()) + pad;
            n.resize(want.min(MAXLEN + 2), 0);
            Case::new().l(n).l(dv).n(class)
        })
        .boxed()
}

fn body_nxm<const B: usize, const L: usize>(c: &Case, rec: &mut Rec) -> R {
    let (n0, d0) = (&c.l[0], &c.l[1]);
    let (nb, db) = (big(n0), big(d0));
    let (qe, re) = (&nb / &db, &nb % &db);
    rec.class_if(d0[d0.len() - 1] >> 63 == 1, "nxm:shift0");
    rec.class_if(d0[d0.len() - 1] >> 63 == 0, "nxm:shifted");
    rec.class_if(*n0.last().unwrap() == 0, "nxm:numerator_top_zero");
    if !qe.is_zero() {
        rec.nontrivial(&(n0, d0));
    }
    rec.sample(|| json!({"kernel": "div_nxm", "numerator": hexl(n0), "divisor": hexl(d0), "q": hex(&qe)}));
    let mut n = n0.clone();
    let mut dv = d0.clone();
    rec.no_panic("div_nxm", catch(|| d::div_nxm(&mut n, &mut dv)))?;
    rec.eqc("div_nxm", "quotient_wrong", &big(&n), &qe)?;
    rec.eqc("div_nxm", "remainder_wrong", &big(&dv), &re)?;
    Ok(())
}

/// numerator = q*d + r laid out in len(d)+len(q) limbs, len(q) >= 1, divisor >= 2
/// limbs with the top bit set.
fn strat_nxm_norm(_: usize) -> BoxedStrategy<Case> {
    (limbs(MAXLEN), limbs(MAXLEN), limbs(MAXLEN), 2usize..=10, 1usize..=6, 0u8..5, 0u8..4)
        .prop_map(|(dm, qm, rm, dl, ql, rk, qk)| {
            let mut dv = dm[..dl].to_vec();
            dv[dl - 1] |= 1 << 63;
            let db = big(&dv);
            let q = match qk {
                0 => big(&qm[..ql]),
                1 => big(&vec![u64::MAX; ql]),
                2 => big(&vec![u64::MAX; ql]) - 1u32,
                _ => {
                    let mut v = qm[..ql].to_vec();
                    v[ql - 1] = u64::MAX;
                    big(&v)
                }
            };
            let r = match rk {
                0 => BigUint::zero(),
                1 => BigUint::one(),
                2 => &db - 1u32,
                3 => big(&rm[..dl]) % &db,
                _ => (&db - 1u32) >> 1,
            };
            let n = &q * &db + &r;
            Case::new().l(limbs_of(&n, dl + ql)).l(dv)
        })
        .boxed()
}

fn body_nxm_norm<const B: usize, const L: usize>(c: &Case, rec: &mut Rec) -> R {
    let (n0, d0) = (&c.l[0], &c.l[1]);
    let (nb, db) = (big(n0), big(d0));
    let (qe, re) = (&nb / &db, &nb % &db);
    let dl = d0.len();
    if !qe.is_zero() {
        rec.nontrivial(&(n0, d0));
    }
    rec.sample(|| json!({"kernel": "div_nxm_normalized", "numerator": hexl(n0), "divisor": hexl(d0), "q": hex(&qe)}));
    let mut n = n0.clone();
    rec.no_panic("div_nxm_normalized", catch(|| d::div_nxm_normalized(&mut n, d0)))?;
    rec.eqc("div_nxm_normalized", "remainder_wrong", &big(&n[..dl]), &re)?;
    rec.eqc("div_nxm_normalized", "quotient_wrong", &big(&n[dl..]), &qe)?;
    Ok(())
}

// ---------------------------------------------------------------- 2x1, 3x2, reciprocals

fn norm_limb() -> BoxedStrategy<u64> {
    prop_oneof![
        4 => limb().prop_map(|x| x | (1 << 63)),
        1 => Just(1u64 << 63),
        1 => Just(u64::MAX),
        1 => Just((1u64 << 63) + 1),
        1 => Just(u64::MAX - 1),
        // table-row boundaries of the reciprocal lookup (top 9 bits)
        2 => (256u64..512, 0u8..4, any::<u64>()).prop_map(|(row, k, x)| match k {
            0 => row << 55,
            1 => (row << 55) + 1,
            2 => (row << 55) | ((1u64 << 55) - 1),
            _ => (row << 55) | (x >> 9),
        }),
        2 => any::<u64>().prop_map(|x| x | (1 << 63)),
        // step edges of the single-limb reciprocal: d = floor((2^128 - 1) / (2^64 + v)) and neighbours
        2 => (limb(), 0u64..5).prop_map(|(v, k)| {
            let e = (u128::MAX / ((1u128 << 64) + v as u128)) as u64;
            (e.wrapping_add(k).wrapping_sub(2)) | (1 << 63)
        }),
    ]
    .boxed()
}

fn recip_ref(dv: u64) -> u64 {
    ((u128::MAX / dv as u128) - (1u128 << 64)) as u64
}

fn recip2_ref(dv: u128) -> u64 {
    let n = (BigUint::one() << 192usize) - 1u32;
    let q = n / u128b(dv) - (BigUint::one() << 64usize);
    q.to_u64().expect("reciprocal_2 reference fits u64")
}

/// Dense sampling of the single-limb reciprocal: one case = one batch of 4096 divisors of one of
/// the 256 lookup-table rows (top 9 bits), drawn by a fixed xorshift sequence from (row, batch).
/// The Newton steps absorb most one-unit errors of a table entry; the divisors for which an entry
/// has no slack are a ~10^-5 fraction of a row, selected by the middle bits of the divisor, so a
/// row needs ~10^6 samples (256 batches) rather than its end points.
fn enum_recip_dense_part(part: u64, batches: u64, f: &mut dyn FnMut(&Case) -> R) -> R {
    for row in (256u64..512).filter(|r| r % 16 == part) {
        for b in 0..batches {
            f(&Case::new().n(row).n(b))?;
        }
    }
    Ok(())
}

fn body_recip_dense<const B: usize, const L: usize>(c: &Case, rec: &mut Rec) -> R {
    let (row, batch) = (c.n[0], c.n[1]);
    let mut x: u64 = (row << 32 | batch).wrapping_mul(0x9E37_79B9_7F4A_7C15) | 1;
    rec.nontrivial(&(row, batch));
    if batch == 0 {
        rec.sample(|| json!({"kernel": "reciprocal (dense batch)", "table_row": row, "divisors_per_batch": 4096}));
    }
    rec.eval(2 * 4096);
    for i in 0..4096u64 {
        x ^= x << 13;
        x ^= x >> 7;
        x ^= x << 17;
        // low 55 bits from the sequence; every 16th divisor has zero / all-ones low 24 bits
        let mut low = x >> 9;
        if i % 16 == 0 {
            low &= !0xff_ffff;
        } else if i % 16 == 1 {
            low |= 0xff_ffff;
        }
        let dv = row << 55 | low;
        let e = recip_ref(dv);
        let v = d::reciprocal(dv);
        if v != e {
            return rec.fail("reciprocal", "value_wrong", format!("reciprocal({dv:#x}) = {v:#x} expected {e:#x} (table row {row})"));
        }
        let v = d::reciprocal_mg10(dv);
        if v != e {
            return rec.fail("reciprocal_mg10", "value_wrong", format!("reciprocal_mg10({dv:#x}) = {v:#x} expected {e:#x} (table row {row})"));
        }
    }
    Ok(())
}

fn strat_2x1(_: usize) -> BoxedStrategy<Case> {
    (norm_limb(), limb(), limb(), 0u8..4)
        .prop_map(|(dv, hi, lo, k)| {
            // u >> 64 < d
            let hi = match k {
                0 => hi % dv,
                1 => dv - 1,
                2 => 0,
                _ => hi % dv,
            };
            let lo = if k == 1 { lo | !0 << 32 } else { lo };
            Case::new().n(dv).n(hi).n(lo)
        })
        .boxed()
}

fn body_2x1<const B: usize, const L: usize>(c: &Case, rec: &mut Rec) -> R {
    let (dv, hi, lo) = (c.n[0], c.n[1], c.n[2]);
    let uu = (hi as u128) << 64 | lo as u128;
    let exp = ((uu / dv as u128) as u64, (uu % dv as u128) as u64);
    rec.nontrivial(&(dv, hi, lo));
    rec.sample(|| json!({"kernel": "div_2x1", "u": format!("{uu:#x}"), "d": format!("{dv:#x}")}));
    let v = rec.no_panic("reciprocal", catch(|| d::reciprocal(dv)))?;
    rec.eq("reciprocal", &v, &recip_ref(dv))?;
    let r = rec.no_panic("div_2x1", catch(|| d::div_2x1(uu, dv, v)))?;
    rec.eq("div_2x1", &r, &exp)?;
    let r = rec.no_panic("div_2x1_mg10", catch(|| d::div_2x1_mg10(uu, dv, v)))?;
    rec.eq("div_2x1_mg10", &r, &exp)?;
    let r = rec.no_panic("div_2x1_ref", catch(|| d::div_2x1_ref(uu, dv)))?;
    rec.eq("div_2x1_ref", &r, &exp)?;
    Ok(())
}

fn norm_u128() -> BoxedStrategy<u128> {
    (norm_limb(), limb(), 0u8..10)
        .prop_map(|(d1, d0, k)| {
            if k >= 8 {
                // a step edge of the reciprocal itself: the largest d whose reciprocal is still
                // >= v, d = floor((2^192 - 1) / (2^64 + v)), or a neighbour; any off-by-one of
                // reciprocal_2 shows at such an edge
                let v = d0;
                let top = (BigUint::one() << 192usize) - 1u32;
                let e = top / ((BigUint::one() << 64usize) + v);
                let e = e + (d1 % 5) - 2u32;
                if let Some(x) = e.to_u128() {
                    if x >> 127 == 1 {
                        return x;
                    }
                }
            }
            if k >= 6 {
                // a tie of reciprocal_2's last correction step
                if let Some((t1, t0)) = vcore::recip::find_tie(d1, 24, d0 as usize) {
                    return (t1 as u128) << 64 | t0 as u128;
                }
            }
            let d0 = match k {
                0 => 0,
                1 => 1,
                2 => u64::MAX,
                3 => d1,
                _ => d0,
            };
            (d1 as u128) << 64 | d0 as u128
        })
        .boxed()
}

fn strat_3x2(_: usize) -> BoxedStrategy<Case> {
    (norm_u128(), limb(), limb(), limb(), 0u8..7)
        .prop_map(|(dv, a, b, u0, k)| {
            let raw = (a as u128) << 64 | b as u128;
            // u21 < d
            let u21 = match k {
                0 => raw % dv,
                1 => dv - 1,
                2 => dv & !(u64::MAX as u128), // same high limb, zero low limb (< d unless d0 == 0)
                3 => (dv >> 64 << 64) | (b as u128),
                // the window 2^63:0 (with u0 from the alphabet: 2^191 + small)
                5 => 1u128 << 127,
                6 => (1u128 << 127) | (b as u128),
                _ => raw % dv,
            };
            let u21 = if u21 >= dv { dv - 1 } else { u21 };
            Case::new().n((dv >> 64) as u64).n(dv as u64).n((u21 >> 64) as u64).n(u21 as u64).n(u0)
        })
        .boxed()
}

fn body_3x2<const B: usize, const L: usize>(c: &Case, rec: &mut Rec) -> R {
    let dv = (c.n[0] as u128) << 64 | c.n[1] as u128;
    let u21 = (c.n[2] as u128) << 64 | c.n[3] as u128;
    let u0 = c.n[4];
    let nb = (u128b(u21) << 64usize) + u(u0);
    let qe = (&nb / u128b(dv)).to_u64().expect("3x2 quotient fits");
    let re = (&nb % u128b(dv)).to_u128().expect("3x2 remainder fits");
    rec.nontrivial(&(dv, u21, u0));
    rec.class_if(c.n[2] == c.n[0], "3x2:n2==d1");
    rec.sample(|| json!({"kernel": "div_3x2", "u21": format!("{u21:#x}"), "u0": format!("{u0:#x}"), "d": format!("{dv:#x}")}));
    let v = rec.no_panic("reciprocal_2", catch(|| d::reciprocal_2(dv)))?;
    rec.eq("reciprocal_2", &v, &recip2_ref(dv))?;
    let r = rec.no_panic("div_3x2", catch(|| d::div_3x2(u21, u0, dv, v)))?;
    rec.eq("div_3x2", &r, &(qe, re))?;
    let r = rec.no_panic("div_3x2_mg10", catch(|| d::div_3x2_mg10(u21, u0, dv, v)))?;
    rec.eq("div_3x2_mg10", &r, &(qe, re))?;
    Ok(())
}

fn strat_recip(_: usize) -> BoxedStrategy<Case> {
    (norm_limb(), norm_u128(), 0u8..10, 0usize..4)
        .prop_map(|(a, b, k, pick)| {
            // half of the cases: d2 = a tie of the last correction step (or a neighbour)
            if k < 5 {
                if let Some((t1, t0)) = vcore::recip::find_tie((b >> 64) as u64, 24, pick) {
                    let t0 = t0.wrapping_add([0u64, 0, 0, 1, u64::MAX][k as usize]);
                    return Case::new().n(a).n(t1).n(t0).n(1);
                }
            }
            Case::new().n(a).n((b >> 64) as u64).n(b as u64).n(0)
        })
        .boxed()
}

fn body_recip<const B: usize, const L: usize>(c: &Case, rec: &mut Rec) -> R {
    let dv = c.n[0];
    let d2 = (c.n[1] as u128) << 64 | c.n[2] as u128;
    rec.nontrivial(&(dv, d2));
    if c.n.get(3) == Some(&1) {
        let (p, t0, carry, _) = vcore::recip::model(c.n[1], c.n[2]);
        let tie = carry && p == c.n[1];
        rec.class_if(tie, "recip2:tie_p==d1");
        rec.class_if(tie && t0 > c.n[2], "recip2:tie_t0>d0");
        rec.class_if(tie && t0 < c.n[1], "recip2:tie_t0<d1");
        rec.class_if(tie && t0 >= c.n[1] && t0 <= c.n[2], "recip2:tie_d1<=t0<=d0");
    }
    rec.sample(|| json!({"kernel": "reciprocal", "d": format!("{dv:#x}"), "d2": format!("{d2:#x}")}));
    let e = recip_ref(dv);
    let v = rec.no_panic("reciprocal", catch(|| d::reciprocal(dv)))?;
    rec.eq("reciprocal", &v, &e)?;
    let v = rec.no_panic("reciprocal_mg10", catch(|| d::reciprocal_mg10(dv)))?;
    rec.eq("reciprocal_mg10", &v, &e)?;
    let v = rec.no_panic("reciprocal_ref", catch(|| d::reciprocal_ref(dv)))?;
    rec.eq("reciprocal_ref", &v, &e)?;
    let e2 = recip2_ref(d2);
    let v = rec.no_panic("reciprocal_2", catch(|| d::reciprocal_2(d2)))?;
    rec.eq("reciprocal_2", &v, &e2)?;
    let v = rec.no_panic("reciprocal_2_mg10", catch(|| d::reciprocal_2_mg10(d2)))?;
    rec.eq("reciprocal_2_mg10", &v, &e2)?;
    Ok(())
}

/// Fixed enumeration: every one of the 256 table rows x {row start, start+1, row
/// end, end-1, three scattered points}, plus the global extremes; reciprocal_2
/// on the same d1 x d0 in {0, 1, MAX, d1, scattered}.
fn enum_recip(_: usize, f: &mut dyn FnMut(&Case) -> R) -> R {
    let mut x: u64 = 0x9E3779B97F4A7C15;
    let mut next = || {
        x ^= x << 13;
        x ^= x >> 7;
        x ^= x << 17;
        x
    };
    let mut d1s = vec![1u64 << 63, u64::MAX, (1u64 << 63) + 1, u64::MAX - 1];
    for row in 256u64..512 {
        let lo = row << 55;
        let hi = lo | ((1u64 << 55) - 1);
        d1s.extend([lo, lo + 1, hi, hi - 1, lo | (next() >> 9), lo | (next() >> 9), lo | (next() >> 9)]);
    }
    for d1 in d1s {
        for d0 in [0u64, 1, u64::MAX, d1, next(), next() >> 32] {
            f(&Case::new().n(d1).n(d1).n(d0))?;
        }
    }
    // 2^127 and 2^128-1
    f(&Case::new().n(1 << 63).n(1 << 63).n(0))?;
    f(&Case::new().n(u64::MAX).n(u64::MAX).n(u64::MAX))?;
    Ok(())
}

fn main() {
    // oracle self-test
    if recip_ref(1 << 63) != u64::MAX || recip_ref(u64::MAX) != 1 || recip2_ref(1 << 127) != u64::MAX {
        harness_error("reciprocal reference self-test failed");
    }
    let spec = PropSpec {
        id: "C14",
        rule_text: "slice-level generators: numerator/divisor lengths 0..=12 independently (one pair in eight of the `div` rule stretched to up to 40 / 20 limbs) with zero padding at the high end, divisors of every effective length with 0..63 leading zero bits, numerators from 5 classes (independent boundary-alphabet limbs; q*d+r with extreme q,d,r; copying the divisor's leading limbs with perturbed lower limbs, equal and slightly smaller top window; powers of two aligned to a limb top after the normalising shift, -1, +1, with low noise); one divisor in six (>= 2 limbs) has normalised leading 128 bits solved onto the tie of reciprocal_2's last correction step (p == d1 after the carry; vcore::recip bisection) or one beside it; complete enumeration of all numerators of 1..=4 limbs x divisors of 1..=3 limbs over {0,1,2^63,MAX-1,MAX} for algorithms::div; each specialised kernel only on its documented domain; reciprocals on all 256 table rows (start, start+1, end, end-1, 3 scattered) x 6 low limbs, enumerated, plus a dense fixed sample of 2^20 divisors per table row (rule reciprocal_dense_rows, 2.7e8 single-limb reciprocals against u128 division), plus generated, half of the generated reciprocal_2 arguments solved onto the last correction step's tie (classes recip2:tie_*), one in five on a step edge of the reciprocal function itself (d = floor((2^192-1)/(2^64+v)) +- 2, likewise floor((2^128-1)/(2^64+v)) for the single-limb reciprocal). Oracle: num-bigint / u128 quotient and remainder; floor((2^128-1)/d)-2^64 and floor((2^192-1)/d)-2^64. Non-trivial: divisor >= 2 limbs after trimming and non-zero quotient (div), >= 2 numerator limbs (n-by-1), non-zero quotient (n-by-2, n-by-m), every case for the fixed-size kernels and reciprocals (all inputs are normalised by construction); distinct by inputs. div_3x2_ref is excluded: its own doc comment says it is off by one.",
        assumptions: vec![
            "num-bigint and u128 division are correct (oracle)",
            "div_nxm_normalized is exercised only on the shape len(numerator)=len(divisor)+len(quotient), len(quotient)>=1, the shape used by the repository's own tests (DESIGN 4 C14)",
            "x86-64 little-endian target; debug-assertions on (fast profile repeats the thorough run without)",
        ],
        thorough_mult: 50,
    };
    main_with(
        spec,
        |jobs, args| {
            jobs.gen("div", 0, 200_000, || strat_div(0), body_div::<0, 0>);
            jobs.enumerate("div_limb_alphabet", 0, |f| enum_div_alphabet(f), body_div::<0, 0>);
            jobs.gen("div_nx1", 0, 40_000, || strat_nx1(0), body_nx1::<0, 0>);
            jobs.gen("div_nx2", 0, 40_000, || strat_nx2(0), body_nx2::<0, 0>);
            jobs.gen("div_nxm", 0, 60_000, || strat_nxm(0), body_nxm::<0, 0>);
            jobs.gen("div_nxm_normalized", 0, 60_000, || strat_nxm_norm(0), body_nxm_norm::<0, 0>);
            jobs.gen("div_2x1", 0, 60_000, || strat_2x1(0), body_2x1::<0, 0>);
            jobs.gen("div_3x2", 0, 60_000, || strat_3x2(0), body_3x2::<0, 0>);
            jobs.gen("reciprocal", 0, 100_000, || strat_recip(0), body_recip::<0, 0>);
            jobs.fixed_list("reciprocal_table_rows", 0, |f| enum_recip(0, f), body_recip::<0, 0>);
            // 256 rows x 256 batches x 4096 divisors = 2.7e8 reciprocals, split into 16 jobs
            let batches: u64 = if args.tier == "thorough" { 2048 } else { 256 };
            for part in 0..16u64 {
                jobs.fixed_list("reciprocal_dense_rows", 0, move |f| enum_recip_dense_part(part, batches, f), body_recip_dense::<0, 0>);
            }
        },
        |_| Map::new(),
    );
}
