//! C08 — byte encodings (DESIGN 4, C08).

use proptest::collection::vec;
use proptest::prelude::*;
use ruint::Uint;
use vcore::big::*;
use vcore::gen::*;
use vcore::*;

fn nbytes(bits: usize) -> usize {
    (bits + 7) / 8
}

/// little-endian base-256 digits padded to `len`
fn le_digits(v: &BigUint, len: usize) -> Vec<u8> {
    let mut d = if v.is_zero() { vec![] } else { v.to_bytes_le() };
    assert!(d.len() <= len);
    d.resize(len, 0);
    d
}

// ------------------------------------------------------------------ encoding

fn strat_enc(bits: usize) -> BoxedStrategy<Case> {
    let n = nlimbs(bits);
    // values with zero top bytes: small values in wide types
    let small = (uint(bits), 0..=bits).prop_map(move |(v, k)| {
        let b = big(&v) >> k;
        limbs_of(&b, n)
    });
    (prop_oneof![2 => uint(bits), 1 => small], 0usize..12, 0usize..10)
        .prop_map(|(v, extra, short)| Case::new().l(v).n(extra as u64).n(short as u64))
        .boxed()
}

fn body_enc<const B: usize, const L: usize, const BY: usize>(c: &Case, rec: &mut Rec) -> R {
    let v: Uint<B, L> = mk(&c.l[0]);
    let vb = num(&v);
    let extra = c.n[0] as usize;
    let short = (c.n[1] as usize).min(BY); // how many bytes the too-short buffer lacks (0 = none)
    assert_eq!(BY, nbytes(B));
    let le = le_digits(&vb, BY);
    let mut be = le.clone();
    be.reverse();
    let tl = le.iter().rposition(|x| *x != 0).map_or(0, |i| i + 1);
    let le_trim = le[..tl].to_vec();
    let mut be_trim = le_trim.clone();
    be_trim.reverse();
    rec.class_if(tl < BY, "has_zero_top_bytes");
    rec.class_if(vb.is_zero(), "zero");
    if tl < BY || short > 0 {
        rec.nontrivial(&(&c.l[0], extra, short));
    }
    rec.sample(|| json!({"value": hex(&vb), "le": hex_bytes(&le), "buffer_extra": extra, "buffer_short_by": short}));

    chk!(rec, "as_le_slice", v.as_le_slice().to_vec(), le);
    chk!(rec, "as_le_bytes", v.as_le_bytes().to_vec(), le);
    chk!(rec, "as_le_bytes_trimmed", v.as_le_bytes_trimmed().to_vec(), le_trim);
    chk!(rec, "to_le_bytes", v.to_le_bytes::<BY>().to_vec(), le);
    chk!(rec, "to_be_bytes", v.to_be_bytes::<BY>().to_vec(), be);
    chk!(rec, "to_le_bytes_vec", v.to_le_bytes_vec(), le);
    chk!(rec, "to_be_bytes_vec", v.to_be_bytes_vec(), be);
    chk!(rec, "to_le_bytes_trimmed_vec", v.to_le_bytes_trimmed_vec(), le_trim);
    chk!(rec, "to_be_bytes_trimmed_vec", v.to_be_bytes_trimmed_vec(), be_trim);

    // copy into a longer, poisoned buffer
    const POISON: u8 = 0xA5;
    let mut exp_le = vec![POISON; BY + extra];
    exp_le[..BY].copy_from_slice(&le);
    let mut exp_be = vec![POISON; BY + extra];
    exp_be[..BY].copy_from_slice(&be);
    chk!(rec, "copy_le_bytes_to", { let mut buf = vec![POISON; BY + extra]; let r = v.copy_le_bytes_to(&mut buf); (r, buf) }, (BY, exp_le.clone()));
    chk!(rec, "copy_be_bytes_to", { let mut buf = vec![POISON; BY + extra]; let r = v.copy_be_bytes_to(&mut buf); (r, buf) }, (BY, exp_be.clone()));
    chk!(rec, "checked_copy_le_bytes_to", { let mut buf = vec![POISON; BY + extra]; let r = v.checked_copy_le_bytes_to(&mut buf); (r, buf) }, (Some(BY), exp_le));
    chk!(rec, "checked_copy_be_bytes_to", { let mut buf = vec![POISON; BY + extra]; let r = v.checked_copy_be_bytes_to(&mut buf); (r, buf) }, (Some(BY), exp_be));
    if short > 0 {
        // too-short buffer: None and untouched
        let untouched = vec![POISON; BY - short];
        chk!(rec, "checked_copy_le_bytes_to", { let mut buf = vec![POISON; BY - short]; let r = v.checked_copy_le_bytes_to(&mut buf); (r, buf) }, (None, untouched.clone()));
        chk!(rec, "checked_copy_be_bytes_to", { let mut buf = vec![POISON; BY - short]; let r = v.checked_copy_be_bytes_to(&mut buf); (r, buf) }, (None, untouched));
    }

    // round trips
    let le_arr: [u8; BY] = le.clone().try_into().unwrap();
    let be_arr: [u8; BY] = be.clone().try_into().unwrap();
    chk!(rec, "from_le_bytes", Uint::<B, L>::from_le_bytes::<BY>(le_arr), v);
    chk!(rec, "from_be_bytes", Uint::<B, L>::from_be_bytes::<BY>(be_arr), v);
    chk!(rec, "from_le_slice", Uint::<B, L>::from_le_slice(&le), v);
    chk!(rec, "from_be_slice", Uint::<B, L>::from_be_slice(&be), v);
    chk!(rec, "try_from_le_slice", Uint::<B, L>::try_from_le_slice(&le_trim), Some(v));
    chk!(rec, "try_from_be_slice", Uint::<B, L>::try_from_be_slice(&be_trim), Some(v));
    chk!(rec, "try_from_le_slice", Uint::<B, L>::try_from_le_slice(&le), Some(v));
    chk!(rec, "try_from_be_slice", Uint::<B, L>::try_from_be_slice(&be), Some(v));
    Ok(())
}

// ------------------------------------------------------------------ decoding

/// byte strings of length 0..=BYTES+8 (big-endian reading order is decided by the body:
/// the same string is decoded both ways).
fn strat_dec(bits: usize) -> BoxedStrategy<Case> {
    let by = nbytes(bits);
    let n = nlimbs(bits);
    let enc = uint(bits).prop_map(move |v| le_digits(&big(&v), by));
    // full length, value possibly out of range: excess high bits set in the top byte(s)
    let excess = (uint(bits), 0usize..8, any::<u8>()).prop_map(move |(v, k, x)| {
        let mut d = le_digits(&big(&v), by);
        if by > 0 {
            let top_bits = bits - 8 * (by - 1); // 1..=8 valid bits in the top byte
            let bad = if top_bits == 8 { 0 } else { (x | 1) << top_bits };
            d[by - 1] |= bad | if k == 0 { 0xff << (top_bits % 8) } else { 0 };
        }
        d
    });
    let all_ff = (0usize..=by + 8).prop_map(|l| vec![0xffu8; l]);
    let too_long = (uint(bits), 1usize..=8, any::<bool>(), byte()).prop_map(move |(v, k, zero, x)| {
        let mut d = le_digits(&big(&v), by);
        for _ in 0..k {
            d.push(if zero { 0 } else { x | 1 });
        }
        d
    });
    let shorter = (uint(bits), 0..=by).prop_map(move |(v, l)| {
        let b = big(&v) % pow2(8 * l);
        le_digits(&b, l)
    });
    let uniform = vec(any::<u8>(), 0..=by + 8);
    let _ = n;
    prop_oneof![2 => enc, 3 => excess, 1 => all_ff, 2 => too_long, 2 => shorter, 2 => uniform]
        .prop_map(|d| Case::new().b(d))
        .boxed()
}

fn enum_dec(bits: usize, f: &mut dyn FnMut(&Case) -> R) -> R {
    // all byte strings of length 0, 1 and (for BYTES = 1) 2
    f(&Case::new().b(vec![]))?;
    for a in 0..=255u8 {
        f(&Case::new().b(vec![a]))?;
    }
    if nbytes(bits) <= 1 {
        for a in 0..=255u8 {
            for b in [0u8, 1, 0x7f, 0x80, 0xff] {
                f(&Case::new().b(vec![a, b]))?;
            }
        }
    }
    Ok(())
}

fn body_dec<const B: usize, const L: usize, const BY: usize>(c: &Case, rec: &mut Rec) -> R {
    let s = &c.b[0];
    let m = pow2(B);
    let fast_path_width = B % 64 != 0 && BY % 8 == 0;
    for le in [true, false] {
        let val = if le { BigUint::from_bytes_le(s) } else { BigUint::from_bytes_be(s) };
        let fits = s.len() <= BY && val < m;
        let exp: Option<Uint<B, L>> = if fits { Some(mkb(&val)) } else { None };
        rec.class_if(s.len() > BY, "too_long");
        rec.class_if(s.len() == BY && !fits, "full_length_out_of_range");
        rec.class_if(s.len() < BY, "shorter_than_BYTES");
        rec.class_if(fits, "accepted");
        if (s.len() == BY && !fits) || s.len() > BY {
            rec.nontrivial(&(s, le));
        }
        if le {
            rec.sample(|| json!({"bytes": hex_bytes(s), "len": s.len(), "BYTES": BY, "denotes_le": hex(&val), "accept": fits}));
        }
        let (try_name, from_name, arr_name) = if le { ("try_from_le_slice", "from_le_slice", "from_le_bytes") } else { ("try_from_be_slice", "from_be_slice", "from_be_bytes") };
        let panic_class = if fast_path_width && s.len() == BY && !fits { "panic:full_limb_fast_path" } else { "panic" };
        // try_from_*: never panics
        let r = catch(|| if le { Uint::<B, L>::try_from_le_slice(s) } else { Uint::<B, L>::try_from_be_slice(s) });
        rec.eval(1);
        match r {
            Err(msg) => rec.fail(try_name, panic_class, format!("{try_name}({}) panicked: {msg}", hex_bytes(s)))?,
            Ok(got) => {
                if got != exp {
                    let class = match (got.is_some(), exp.is_some()) {
                        (true, false) => "accepted_out_of_range",
                        (false, true) => "rejected_valid",
                        _ => "value_wrong",
                    };
                    rec.fail(try_name, class, format!("{try_name}({}) = {got:?} expected {exp:?}", hex_bytes(s)))?;
                }
            }
        }
        // from_*_slice panics exactly when the checked form is None
        let r = catch(|| if le { Uint::<B, L>::from_le_slice(s) } else { Uint::<B, L>::from_be_slice(s) });
        rec.eval(1);
        match (r, exp) {
            (Ok(g), Some(e)) if g == e => {}
            (Err(_), None) => {}
            (Ok(g), e) => rec.fail(from_name, if e.is_none() { "accepted_out_of_range" } else { "value_wrong" }, format!("{from_name}({}) = {g:?} expected {e:?}", hex_bytes(s)))?,
            (Err(msg), Some(e)) => rec.fail(from_name, "panic", format!("{from_name}({}) panicked ({msg}) expected {e:?}", hex_bytes(s)))?,
        }
        if s.len() == BY {
            let arr: [u8; BY] = s.clone().try_into().unwrap();
            let r = catch(|| if le { Uint::<B, L>::from_le_bytes::<BY>(arr) } else { Uint::<B, L>::from_be_bytes::<BY>(arr) });
            rec.eval(1);
            match (r, exp) {
                (Ok(g), Some(e)) if g == e => {}
                (Err(_), None) => {}
                (Ok(g), e) => rec.fail(arr_name, if e.is_none() { "accepted_out_of_range" } else { "value_wrong" }, format!("{arr_name}({}) = {g:?} expected {e:?}", hex_bytes(s)))?,
                (Err(msg), Some(e)) => rec.fail(arr_name, "panic", format!("{arr_name}({}) panicked ({msg}) expected {e:?}", hex_bytes(s)))?,
            }
        }
    }
    Ok(())
}

macro_rules! reg3 {
    ($jobs:expr, $rule:expr, $cases:expr, $strat:expr, $body:ident; [$($b:literal),* $(,)?]) => {
        $( $jobs.gen($rule, $b, $cases, move || $strat($b), $body::<$b, { ruint::nlimbs($b) }, { ($b + 7) / 8 }>); )*
    };
}
macro_rules! reg3_enum {
    ($jobs:expr, $rule:expr, $en:expr, $body:ident; [$($b:literal),* $(,)?]) => {
        $( $jobs.fixed_list($rule, $b, move |f| $en($b, f), $body::<$b, { ruint::nlimbs($b) }, { ($b + 7) / 8 }>); )*
    };
}

fn main() {
    let spec = PropSpec {
        id: "C08",
        rule_text: "encoding: values per width (boundary alphabet; small values in wide types so that top bytes are zero) x longer poisoned buffers (0..11 extra bytes) and too-short buffers; decoding: byte strings of length 0..=BYTES+8 from 6 classes (encodings of values; full-length strings with excess high bits set in the top byte; all-0xff; too long by 1..8 with zero or non-zero extra bytes; shorter strings; uniform), each decoded both little- and big-endian; all strings of length <= 1 (and 2-byte strings for BYTES <= 1) enumerated. Widths emphasise 60, 63, 127, 190, 250, 255 (whole-limb fast path with a partial mask) and non-multiples of 8. Oracle: base-256 digits of the num-bigint value, padded / trimmed / reversed; Some(v) iff len <= BYTES and v < 2^BITS. Non-trivial: full-length string denoting a value >= 2^BITS, or a string longer than BYTES, or (encoding) a value with zero top bytes or a too-short buffer; distinct by inputs.",
        assumptions: vec![
            "num-bigint to_bytes_le/from_bytes_* are correct (oracle)",
            "little-endian target only (the big-endian arms are never compiled here)",
            "copy_*_bytes_to with a too-short buffer is outside the property (documented to panic); only the checked forms are exercised there",
        ],
        thorough_mult: 40,
    };
    main_with(
        spec,
        |jobs, _| {
            reg3!(jobs, "encode", 6000, strat_enc, body_enc; [0, 1, 2, 3, 7, 8, 9, 12, 16, 31, 32, 60, 63, 64, 65, 72, 96, 127, 128, 129, 160, 190, 192, 250, 255, 256, 257, 320, 384, 512, 535, 1024]);
            reg3!(jobs, "decode", 12000, strat_dec, body_dec; [0, 1, 2, 3, 7, 8, 9, 12, 16, 31, 32, 60, 63, 64, 65, 72, 96, 127, 128, 129, 160, 190, 192, 250, 255, 256, 257, 320, 384, 512, 535, 1024]);
            reg3!(jobs, "encode", 300, strat_enc, body_enc; [4160, 65600]);
            reg3!(jobs, "decode", 600, strat_dec, body_dec; [4160, 65600]);
            reg3!(jobs, "encode", 400, strat_enc, body_enc; [24, 48, 56, 80, 88, 104, 112, 120, 136, 144, 152, 168, 176, 184, 208, 216, 224, 232, 240, 248, 1088, 1536, 2112]);
            reg3!(jobs, "decode", 800, strat_dec, body_dec; [24, 48, 56, 80, 88, 104, 112, 120, 136, 144, 152, 168, 176, 184, 208, 216, 224, 232, 240, 248, 1088, 1536, 2112]);
            reg3_enum!(jobs, "decode_short_strings", enum_dec, body_dec; [0, 1, 2, 3, 7, 8, 9, 12, 16, 60, 63, 64, 65, 127]);
        },
        |_| Map::new(),
    );
}
