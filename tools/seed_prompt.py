#!/usr/bin/env python3
import json,sys
pid=sys.argv[1]
for l in open('/verif/properties.jsonl'):
    p=json.loads(l)
    if p['id']==pid: break
W=f"/tmp/seed_{pid}"
print(f"""You are a software engineer asked to produce ONE realistic faulty change ("seeded defect") to the Rust crate `ruint` (recmo/uint: const-generic fixed-width unsigned big integers `Uint<BITS, LIMBS>`), for evaluating verification tooling. Work ONLY inside your own scratch git worktree; never touch /repo or anything under /verif.

Setup (run first):  mkdir -p {W} && git -C /repo worktree add --detach {W}/repo HEAD   — then work in {W}/repo (cargo is offline: use `--offline`; set CARGO_TARGET_DIR={W}/target for every cargo command).

The property your change must break (this is all you are given about what will be checked):

  id: {p['id']}
  title: {p['title']}
  statement: {p['statement']}
  quantified over: {p['quantifier']['text']}
  code it is anchored in: {', '.join(p['anchors']['files'])}

Task: make a small source change to the crate (library code under src/ or ruint-macro/src/, not tests, not Cargo features) that
  (a) still compiles (default features AND with `--features "std,alloy-rlp,arbitrary,ark-ff,ark-ff-04,borsh,bytemuck,der,fastrlp,fastrlp-04,num-bigint,num-integer,num-traits,parity-scale-codec,postgres,primitive-types,proptest,quickcheck,rand,rand-09,rlp,serde,ssz,subtle,zeroize"` when the touched file is feature-gated),
  (b) still passes the existing test suite unedited: `cargo test --workspace --offline` (run it with your change; all tests must pass; doctests included),
  (c) breaks the property above on some input / configuration / program / history, and
  (d) needs something SPECIFIC to manifest — an unusual input (a particular limb pattern, a carry that only happens for rare operands, a width that is not a multiple of 64, a boundary value, a rarely-taken branch, a specific shift amount or length), a multi-step sequence of operations, or two cooperating sites that each look fine alone — NOT something ordinary use or a couple of random inputs would expose at once. Think of plausible refactoring slips, "optimisations", off-by-one changes in rarely-taken branches, a dropped mask / carry / bounds check in one special case. Do not make it trivially detectable (e.g. do not break every call), and do not make it undetectable in principle (the property as stated must really be violated, observable through the public API on the default x86-64 target).

Deliverables, all inside {W}/out/ :
  patch.diff   — `git -C {W}/repo diff` of your change (source only)
  demo.rs or demo_test.rs plus RUN.md — a demonstration: a small test or program with the exact commands to run it, that FAILS with your change and PASSES without it (verify both yourself: `git stash` / `git stash pop` or apply/reverse the patch). The demo must exercise the public API and state which input triggers the fault and why it is specific.
  meta.json    — {{"property": "{p['id']}", "summary": "...one paragraph what was changed...", "needs": "...what specific input / sequence is needed to manifest...", "files": [...], "test_suite": "exact command you ran and its pass counts with the change applied"}}

Before finishing: restore the worktree to contain ONLY your patch applied (no demo files inside src/ that alter the crate), copy the deliverables to {W}/out/, and report in your final message: the idea, the triggering input, confirmation of (a)-(d) with the commands you ran. Do not delete {W}. Do not read or write anything under /verif. Keep the change minimal (ideally 1-5 lines).""")
