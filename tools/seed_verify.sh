#!/bin/bash
# Confirms a seeded change in its own scratch worktree: patch == worktree diff, suite passes with
# it, demo fails with it and passes without it. Usage: seed_verify.sh C01 | seed_verify.sh /tmp/seed2_C01 [features]
W=$1; case $W in /*) ;; *) W=/tmp/seed_$W;; esac; FEAT=${2:+--features $2}; R=$W/repo; O=$W/out
export CARGO_TARGET_DIR=$W/target CARGO_NET_OFFLINE=true
cd $R || exit 2
if ! diff <(git diff) $O/patch.diff >/dev/null; then echo "NOTE: worktree diff differs from patch.diff"; git checkout -- . ; git apply $O/patch.diff || exit 2; fi
echo "== suite with change"; cargo test --workspace --offline 2>&1 | grep -E '^test result|FAILED|error' | head
demo=$(ls $O/demo_test.rs $O/demo.rs 2>/dev/null | head -1)
mkdir -p tests; cp $demo tests/zz_seed_demo.rs
echo "== demo WITH change (must fail)"; cargo test --offline $FEAT --test zz_seed_demo 2>&1 | grep -E '^test result|error(\[|:)' | head -3
git apply -R $O/patch.diff
echo "== demo WITHOUT change (must pass)"; cargo test --offline $FEAT --test zz_seed_demo 2>&1 | grep -E '^test result|error(\[|:)' | head -3
git apply $O/patch.diff; rm -f tests/zz_seed_demo.rs; rmdir tests 2>/dev/null
git status --short
