//! E4 target `uintops`: coverage-guided differential fuzzing of the `Uint` arithmetic surface against
//! num-bigint. Input layout: byte 0 selects the width, byte 1 the operation, the rest is split
//! into three BYTES-long little-endian operands (zero padded, masked to BITS). The environment
//! variable VERIF_FUZZ_PROP restricts the run to the operations of one property (the thorough
//! tier of that property sets it, and so does a replay): byte 1 then indexes that property's
//! operations only. The oracle is inside the target: every mismatch prints a `VERIF-ORACLE` line and
//! aborts; no operation is called outside its documented domain, so any panic is a failure too.
#![no_main]
use libfuzzer_sys::fuzz_target;
use num_bigint::BigUint;
use num_traits::{One, ToPrimitive, Zero};
use ruint::Uint;
use std::sync::OnceLock;

fn num<const B: usize, const L: usize>(x: &Uint<B, L>) -> BigUint {
    let mut bytes = Vec::with_capacity(L * 8);
    for l in x.as_limbs() {
        bytes.extend_from_slice(&l.to_le_bytes());
    }
    BigUint::from_bytes_le(&bytes)
}

fn mk<const B: usize, const L: usize>(v: &BigUint) -> Uint<B, L> {
    let mut limbs = [0u64; L];
    let d = v.to_u64_digits();
    assert!(d.len() <= L, "oracle value does not fit (harness bug)");
    limbs[..d.len()].copy_from_slice(&d);
    Uint::from_limbs(limbs)
}

fn operand<const B: usize, const L: usize>(data: &[u8], k: usize) -> Uint<B, L> {
    let bytes = (B + 7) / 8;
    let mut limbs = [0u64; L];
    for i in 0..bytes {
        if let Some(x) = data.get(k * bytes + i) {
            limbs[i / 8] |= (*x as u64) << (8 * (i % 8));
        }
    }
    if L > 0 {
        limbs[L - 1] &= ruint::mask(B);
    }
    Uint::from_limbs(limbs)
}

fn filter() -> Option<&'static str> {
    static F: OnceLock<Option<String>> = OnceLock::new();
    F.get_or_init(|| std::env::var("VERIF_FUZZ_PROP").ok().filter(|s| !s.is_empty())).as_deref()
}

struct Ctx {
    prop: &'static str,
    op: &'static str,
    width: usize,
    input: String,
}

impl Ctx {
    fn fail(&self, what: &str, got: String, exp: String) -> ! {
        eprintln!("VERIF-ORACLE property={} op={} check={} width={} {} got {} expected {}", self.prop, self.op, what, self.width, self.input, got, exp);
        std::process::abort();
    }
    fn eq<T: PartialEq + std::fmt::Debug>(&self, what: &str, got: T, exp: T) {
        if got != exp {
            self.fail(what, format!("{got:?}"), format!("{exp:?}"));
        }
    }
}

const NOPS: u8 = 21;

fn prop_of(op: u8) -> &'static str {
    match op {
        0..=2 => "C01",
        3..=5 => "C02",
        6 => "C03",
        7..=9 => "C05",
        10 => "C06",
        11 => "C08",
        12 | 13 => "C09",
        14..=16 => "C10",
        17 => "C12",
        _ => "C13",
    }
}

fn ilog(v: &BigUint, base: &BigUint) -> u64 {
    // floor(log_base(v)) for v >= 1, base >= 2
    let mut n = 0u64;
    let mut p = base.clone();
    while &p <= v {
        p *= base;
        n += 1;
    }
    n
}

fn run<const B: usize, const L: usize, const B2: usize, const L2: usize>(op: u8, data: &[u8]) {
    type U<const B: usize, const L: usize> = Uint<B, L>;
    // with a property filter the operation byte indexes that property's operations only
    let op = match filter() {
        Some(f) => {
            let ops: Vec<u8> = (0..NOPS).filter(|o| prop_of(*o) == f).collect();
            if ops.is_empty() {
                return;
            }
            ops[op as usize % ops.len()]
        }
        None => op,
    };
    let prop = prop_of(op);
    let a: U<B, L> = operand(data, 0);
    let b: U<B, L> = operand(data, 1);
    let c: U<B, L> = operand(data, 2);
    let (an, bn, cn) = (num(&a), num(&b), num(&c));
    let m = BigUint::one() << B;
    let max = &m - 1u32;
    let cx = |opn: &'static str| Ctx { prop, op: opn, width: B, input: format!("a=0x{an:x} b=0x{bn:x} c=0x{cn:x}") };
    // a small integer parameter and a shift amount taken from c
    let small = cn.iter_u64_digits().next().unwrap_or(0);
    let amount: usize = if small & 0x1_0000 != 0 { usize::MAX - (small & 0xff) as usize } else { (small & 0xffff) as usize % (B + 130) };
    match op {
        0 => {
            let t = cx("add");
            let s = &an + &bn;
            let ov = s >= m;
            let w: U<B, L> = mk(&(&s % &m));
            t.eq("overflowing_add", a.overflowing_add(b), (w, ov));
            t.eq("wrapping_add", a.wrapping_add(b), w);
            t.eq("checked_add", a.checked_add(b), if ov { None } else { Some(w) });
            t.eq("saturating_add", a.saturating_add(b), if ov { U::<B, L>::MAX } else { w });
            t.eq("add", a + b, w);
            t.eq("add_assign", { let mut x = a; x += b; x }, w);
        }
        1 => {
            let t = cx("sub");
            let ov = an < bn;
            let w: U<B, L> = mk(&((&m + &an - &bn) % &m));
            t.eq("overflowing_sub", a.overflowing_sub(b), (w, ov));
            t.eq("wrapping_sub", a.wrapping_sub(b), w);
            t.eq("checked_sub", a.checked_sub(b), if ov { None } else { Some(w) });
            t.eq("saturating_sub", a.saturating_sub(b), if ov { U::<B, L>::ZERO } else { w });
            t.eq("sub", a - b, w);
            let d = if ov { &bn - &an } else { &an - &bn };
            t.eq("abs_diff", a.abs_diff(b), mk(&d));
        }
        2 => {
            let t = cx("neg");
            let w: U<B, L> = mk(&((&m - &an) % &m));
            t.eq("wrapping_neg", a.wrapping_neg(), w);
            t.eq("overflowing_neg", a.overflowing_neg(), (w, !an.is_zero()));
            t.eq("checked_neg", a.checked_neg(), if an.is_zero() { Some(w) } else { None });
            t.eq("neg", -a, w);
        }
        3 => {
            let t = cx("mul");
            let p = &an * &bn;
            let ov = p >= m;
            let w: U<B, L> = mk(&(&p % &m));
            t.eq("overflowing_mul", a.overflowing_mul(b), (w, ov));
            t.eq("wrapping_mul", a.wrapping_mul(b), w);
            t.eq("checked_mul", a.checked_mul(b), if ov { None } else { Some(w) });
            t.eq("saturating_mul", a.saturating_mul(b), if ov { U::<B, L>::MAX } else { w });
            t.eq("mul", a * b, w);
        }
        4 => {
            let t = cx("inv_ring");
            match a.inv_ring() {
                None => t.eq("inv_ring none only for even", B == 0 || !an.bit(0), true),
                Some(x) => {
                    t.eq("inv_ring some only for odd", B > 0 && an.bit(0), true);
                    t.eq("a*inv mod 2^B", (&an * num(&x)) % &m, BigUint::one() % &m);
                }
            }
        }
        5 => {
            let t = cx("widening_mul");
            let p = &an * &bn;
            t.eq("widening_mul", a.widening_mul::<B, L, B2, L2>(b), mk::<B2, L2>(&p));
        }
        6 => {
            let t = cx("div");
            if bn.is_zero() {
                t.eq("checked_div(0)", a.checked_div(b), None);
                t.eq("checked_rem(0)", a.checked_rem(b), None);
                t.eq("checked_next_multiple_of(0)", a.checked_next_multiple_of(b), None);
                return;
            }
            let (q, r) = (&an / &bn, &an % &bn);
            let (qe, re): (U<B, L>, U<B, L>) = (mk(&q), mk(&r));
            t.eq("div_rem", a.div_rem(b), (qe, re));
            t.eq("div", a / b, qe);
            t.eq("rem", a % b, re);
            t.eq("checked_div", a.checked_div(b), Some(qe));
            t.eq("checked_rem", a.checked_rem(b), Some(re));
            let ce = if r.is_zero() { q.clone() } else { &q + 1u32 };
            t.eq("div_ceil", a.div_ceil(b), mk(&ce));
            let nm = &ce * &bn;
            t.eq("checked_next_multiple_of", a.checked_next_multiple_of(b), if nm < m { Some(mk(&nm)) } else { None });
        }
        7 => {
            let t = cx("shl");
            let (w, ov) = if amount >= B + 70 { (BigUint::zero(), !an.is_zero()) } else { ((&an << amount) % &m, (&an << amount) >= m) };
            let w: U<B, L> = mk(&w);
            t.eq("overflowing_shl", a.overflowing_shl(amount), (w, ov));
            t.eq("wrapping_shl", a.wrapping_shl(amount), w);
            t.eq("checked_shl", a.checked_shl(amount), if ov { None } else { Some(w) });
            t.eq("saturating_shl", a.saturating_shl(amount), if ov { U::<B, L>::MAX } else { w });
            t.eq("shl", a << amount, w);
            t.eq("shl_assign", { let mut x = a; x <<= amount; x }, w);
        }
        8 => {
            let t = cx("shr");
            let w = if amount >= B + 70 { BigUint::zero() } else { &an >> amount };
            let lost = if amount >= B + 70 { !an.is_zero() } else { (&w << amount) != an };
            let we: U<B, L> = mk(&w);
            t.eq("overflowing_shr", a.overflowing_shr(amount), (we, lost));
            t.eq("wrapping_shr", a.wrapping_shr(amount), we);
            t.eq("checked_shr", a.checked_shr(amount), if lost { None } else { Some(we) });
            t.eq("shr", a >> amount, we);
            if B > 0 {
                let s = amount.min(B);
                let sign = an.bit(B as u64 - 1);
                let ar = if sign { (&an >> s) | (&max ^ (&max >> s)) } else { &an >> s };
                t.eq("arithmetic_shr", a.arithmetic_shr(amount), mk(&ar));
            }
        }
        9 => {
            let t = cx("rotate");
            if B > 0 {
                let s = amount % B;
                let rl = ((&an << s) | (&an >> (B - s))) & &max;
                let rr = ((&an >> s) | (&an << (B - s))) & &max;
                t.eq("rotate_left", a.rotate_left(amount), mk(&rl));
                t.eq("rotate_right", a.rotate_right(amount), mk(&rr));
            } else {
                t.eq("rotate_left", a.rotate_left(amount), a);
                t.eq("rotate_right", a.rotate_right(amount), a);
            }
        }
        10 => {
            let t = cx("bits");
            let bl = an.bits() as usize;
            let pop = an.count_ones() as usize;
            let inv = &max ^ &an;
            t.eq("leading_zeros", a.leading_zeros(), B - bl);
            t.eq("leading_ones", a.leading_ones(), B - inv.bits() as usize);
            t.eq("trailing_zeros", a.trailing_zeros(), an.trailing_zeros().map_or(B, |x| x as usize));
            t.eq("trailing_ones", a.trailing_ones(), inv.trailing_zeros().map_or(B, |x| x as usize));
            t.eq("count_ones", a.count_ones(), pop);
            t.eq("count_zeros", a.count_zeros(), B - pop);
            t.eq("bit_len", a.bit_len(), bl);
            t.eq("byte_len", a.byte_len(), (bl + 7) / 8);
            t.eq("is_power_of_two", a.is_power_of_two(), pop == 1);
            let np = if pop == 1 { an.clone() } else { BigUint::one() << bl };
            t.eq("checked_next_power_of_two", a.checked_next_power_of_two(), if np < m { Some(mk(&np)) } else { None });
            let exp = bl.saturating_sub(64);
            t.eq("most_significant_bits", a.most_significant_bits(), ((&an >> exp).to_u64().unwrap(), exp));
            let mut rev = BigUint::zero();
            for i in 0..B {
                if an.bit(i as u64) {
                    rev.set_bit((B - 1 - i) as u64, true);
                }
            }
            t.eq("reverse_bits", a.reverse_bits(), mk(&rev));
            t.eq("not", !a, mk(&inv));
            t.eq("and", a & b, mk(&(&an & &bn)));
            t.eq("or", a | b, mk(&(&an | &bn)));
            t.eq("xor", a ^ b, mk(&(&an ^ &bn)));
            let i = amount;
            t.eq("bit", a.bit(i), i < B && an.bit(i as u64));
            let mut s = an.clone();
            if i < B {
                s.set_bit(i as u64, small & 0x2_0000 != 0);
            }
            t.eq("set_bit", { let mut x = a; x.set_bit(i, small & 0x2_0000 != 0); x }, mk(&s));
            t.eq("checked_byte", a.checked_byte(i), if i < (B + 7) / 8 { Some(an.to_bytes_le().get(i).copied().unwrap_or(0)) } else { None });
        }
        11 => {
            let t = cx("bytes");
            let bytes = (B + 7) / 8;
            let mut le = an.to_bytes_le();
            le.resize(bytes, 0);
            let be: Vec<u8> = le.iter().rev().copied().collect();
            t.eq("to_le_bytes_vec", a.to_le_bytes_vec(), le.clone());
            t.eq("to_be_bytes_vec", a.to_be_bytes_vec(), be.clone());
            t.eq("as_le_slice", a.as_le_slice().to_vec(), le.clone());
            let trimmed: Vec<u8> = if an.is_zero() { vec![] } else { an.to_bytes_be() };
            t.eq("to_be_bytes_trimmed_vec", a.to_be_bytes_trimmed_vec(), trimmed);
            t.eq("try_from_le_slice(encode)", U::<B, L>::try_from_le_slice(&le), Some(a));
            t.eq("try_from_be_slice(encode)", U::<B, L>::try_from_be_slice(&be), Some(a));
            // arbitrary slice: everything after the first operand
            let raw = data.get(bytes..).unwrap_or(&[]);
            let vbe = BigUint::from_bytes_be(raw);
            let vle = BigUint::from_bytes_le(raw);
            t.eq("try_from_be_slice(raw)", U::<B, L>::try_from_be_slice(raw), if raw.len() <= bytes && vbe < m { Some(mk(&vbe)) } else { None });
            t.eq("try_from_le_slice(raw)", U::<B, L>::try_from_le_slice(raw), if raw.len() <= bytes && vle < m { Some(mk(&vle)) } else { None });
        }
        12 => {
            let t = cx("base");
            let base = small.max(2);
            let mut digits = vec![];
            let mut v = an.clone();
            while !v.is_zero() {
                digits.push((&v % base).to_u64().unwrap());
                v /= base;
            }
            t.eq("to_base_le", a.to_base_le(base).collect::<Vec<_>>(), digits.clone());
            t.eq("to_base_be", a.to_base_be(base).collect::<Vec<_>>(), digits.iter().rev().copied().collect::<Vec<_>>());
            t.eq("from_base_le(to_base_le)", U::<B, L>::from_base_le(base, digits.iter().copied()).ok(), Some(a));
            t.eq("from_base_be(to_base_be)", U::<B, L>::from_base_be(base, digits.iter().rev().copied()).ok(), Some(a));
            // arbitrary digit string: the limbs of b reduced below the base, most significant first
            let ds: Vec<u64> = b.as_limbs().iter().map(|x| x % base).collect();
            let mut val = BigUint::zero();
            for d in &ds {
                val = val * base + *d;
            }
            let exp = if val < m { Some(mk::<B, L>(&val)) } else { None };
            t.eq("from_base_be(digits)", U::<B, L>::from_base_be(base, ds.iter().copied()).ok(), exp);
            t.eq("from_base_le(digits)", U::<B, L>::from_base_le(base, ds.iter().rev().copied()).ok(), exp);
        }
        13 => {
            let t = cx("fmt");
            t.eq("Display", format!("{a}"), an.to_str_radix(10));
            t.eq("LowerHex", format!("{a:x}"), an.to_str_radix(16));
            t.eq("UpperHex", format!("{a:X}"), an.to_str_radix(16).to_uppercase());
            t.eq("Octal", format!("{a:o}"), an.to_str_radix(8));
            t.eq("Binary", format!("{a:b}"), an.to_str_radix(2));
            t.eq("LowerHex#", format!("{a:#x}"), format!("0x{}", an.to_str_radix(16)));
            let radix = (small % 35 + 2) as u32;
            let s = an.to_str_radix(radix);
            t.eq("from_str_radix", U::<B, L>::from_str_radix(&s, radix as u64).ok(), Some(a));
            t.eq("from_str(dec)", s_parse::<B, L>(&an.to_str_radix(10)), Some(a));
            t.eq("from_str(0x)", s_parse::<B, L>(&format!("0x{}", an.to_str_radix(16))), Some(a));
            // one past the top: value + 2^B must overflow
            let big = (&an + &m).to_str_radix(radix);
            t.eq("from_str_radix(overflow)", U::<B, L>::from_str_radix(&big, radix as u64).ok(), None);
        }
        14 => {
            let t = cx("mod");
            let e = |v: BigUint| -> U<B, L> { if cn.is_zero() { U::<B, L>::ZERO } else { mk(&(v % &cn)) } };
            t.eq("reduce_mod", a.reduce_mod(c), e(an.clone()));
            t.eq("add_mod", a.add_mod(b, c), e(&an + &bn));
            t.eq("mul_mod", a.mul_mod(b, c), e(&an * &bn));
        }
        15 => {
            let t = cx("pow_mod");
            let e: U<B, L> = if cn.is_zero() { U::<B, L>::ZERO } else { mk(&an.modpow(&bn, &cn)) };
            t.eq("pow_mod", a.pow_mod(b, c), e);
        }
        16 => {
            let t = cx("inv_mod");
            use num_integer::Integer;
            let coprime = bn >= BigUint::from(2u32) && an.gcd(&bn).is_one();
            match a.inv_mod(b) {
                None => t.eq("inv_mod none", coprime, false),
                Some(x) => {
                    t.eq("inv_mod some", coprime, true);
                    let xn = num(&x);
                    t.eq("inv < modulus", xn < bn, true);
                    t.eq("a*inv mod m", (&an * &xn) % &bn, BigUint::one());
                }
            }
        }
        17 => {
            let t = cx("gcd");
            use num_integer::Integer;
            let g = an.gcd(&bn);
            t.eq("gcd", a.gcd(b), mk(&g));
            let l = if g.is_zero() { BigUint::zero() } else { &an / &g * &bn };
            t.eq("lcm", a.lcm(b), if l < m { Some(mk(&l)) } else { None });
            let (g2, x, y, sign) = a.gcd_extended(b);
            t.eq("gcd_extended.gcd", g2, mk(&g));
            let (ax, by) = ((&an * num(&x)) % &m, (&bn * num(&y)) % &m);
            let lhs = if sign { (&m + &ax - &by) % &m } else { (&m + &by - &ax) % &m };
            t.eq("bezout", lhs, &g % &m);
        }
        18 => {
            let t = cx("pow");
            let w: U<B, L> = mk(&(an.modpow(&bn, &m) % &m));
            let ov = if an <= BigUint::one() || bn.is_zero() {
                false
            } else if bn > BigUint::from(B as u64) {
                true
            } else {
                num_traits::pow::Pow::pow(&an, bn.to_u64().unwrap()) >= m
            };
            let w = if B == 0 { U::<B, L>::ZERO } else { w };
            t.eq("overflowing_pow", a.overflowing_pow(b), (w, ov));
            t.eq("wrapping_pow", a.wrapping_pow(b), w);
            t.eq("checked_pow", a.checked_pow(b), if ov { None } else { Some(w) });
            t.eq("saturating_pow", a.saturating_pow(b), if ov { U::<B, L>::MAX } else { w });
        }
        19 => {
            let t = cx("log");
            let two = BigUint::from(2u32);
            let e = if an.is_zero() || bn < two { None } else { Some(ilog(&an, &bn) as usize) };
            t.eq("checked_log", a.checked_log(b), e);
            t.eq("checked_log2", a.checked_log2(), if an.is_zero() { None } else { Some(an.bits() as usize - 1) });
            t.eq("checked_log10", a.checked_log10(), if an.is_zero() { None } else { Some(ilog(&an, &BigUint::from(10u32)) as usize) });
        }
        _ => {
            let t = cx("root");
            let degree = (small % 96) as usize + 1;
            t.eq("root", a.root(degree), mk(&an.nth_root(degree as u32)));
        }
    }
}

fn s_parse<const B: usize, const L: usize>(s: &str) -> Option<Uint<B, L>> {
    s.parse().ok()
}

fuzz_target!(|data: &[u8]| {
    if data.len() < 2 {
        return;
    }
    let (w, op, rest) = (data[0], data[1] % NOPS, &data[2..]);
    match w % 10 {
        0 => run::<1, 1, 2, 1>(op, rest),
        1 => run::<8, 1, 16, 1>(op, rest),
        2 => run::<63, 1, 126, 2>(op, rest),
        3 => run::<64, 1, 128, 2>(op, rest),
        4 => run::<65, 2, 130, 3>(op, rest),
        5 => run::<127, 2, 254, 4>(op, rest),
        6 => run::<128, 2, 256, 4>(op, rest),
        7 => run::<192, 3, 384, 6>(op, rest),
        8 => run::<256, 4, 512, 8>(op, rest),
        _ => run::<320, 5, 640, 10>(op, rest),
    }
});
