#!/usr/bin/env python3
"""Round-10 prompt: adversarial about detectability, told what earlier rounds touched."""
import json, sys, os, glob
pid, tag = sys.argv[1], sys.argv[2]
for l in open('/verif/properties.jsonl'):
    p = json.loads(l)
    if p['id'] == pid: break
prev = []
for d in sorted(glob.glob('/verif/seeded/%s*' % pid)):
    m = json.load(open(d + '/meta.json'))
    s = (m.get('summary', '') or '').replace('\n', ' ')
    prev.append('  - ' + s[:230])
W = f"/tmp/seed10_{pid}{tag}"
print(f"""You are a software engineer asked to produce ONE realistic faulty change ("seeded defect") to the Rust crate `ruint` (recmo/uint: const-generic fixed-width unsigned big integers `Uint<BITS, LIMBS>`), for evaluating verification tooling. Work ONLY inside your own scratch git worktree; never touch /repo itself or anything under /verif (do not read /verif either).

Setup (run first):  mkdir -p {W} && git -C /repo worktree add --detach {W}/repo HEAD   — then work in {W}/repo (cargo is offline: use `--offline`; set CARGO_TARGET_DIR={W}/target for every cargo command).

The property your change must break (this is all you are given about what will be checked):

  id: {p['id']}
  title: {p['title']}
  statement: {p['statement']}
  quantified over: {p['quantifier']['text']}
  code it is anchored in: {', '.join(p['anchors']['files'])}

Earlier rounds already produced the following changes for this property — pick a DIFFERENT function / branch / mechanism, ideally in a part of the anchored code none of them touches:
{chr(10).join(prev)}

Task: make a small source change to the crate (library code under src/ or ruint-macro/src/, not tests, not Cargo features, and not a revert of one of the recent `fix:` commits in `git log`) that
  (a) still compiles (default features AND with `--features "std,alloy-rlp,arbitrary,ark-ff,ark-ff-04,borsh,bytemuck,der,fastrlp,fastrlp-04,num-bigint,num-integer,num-traits,parity-scale-codec,postgres,primitive-types,proptest,quickcheck,rand,rand-09,rlp,serde,ssz,subtle,zeroize"` when the touched file is feature-gated),
  (b) still passes the existing test suite unedited: `cargo test --workspace --offline` (run it with your change; all tests must pass; doctests included),
  (c) breaks the property above on some input / configuration / program / history, and
  (d) is HARD TO DETECT: assume the verification tooling is a competent randomized differential tester — it compares the library with an arbitrary-precision oracle at a few dozen widths (0, 1, small ones, multiples of 64 and their neighbours, some larger ones), with values biased to limb boundaries (0, 1, MAX, powers of two +-1, all-ones limbs), exhaustive enumeration at tiny widths (<= 8 bits) and of all operand tuples whose limbs come from a small alphabet {{0, 1, 2^63, MAX-1, MAX, ...}}; it exercises every operator call form (by value / by reference / assign), huge indices and amounts, iterator shapes, chunked readers, single-field mutations of valid encodings, and it has branch counters on the rare correction steps of division, Montgomery reduction and the Lehmer step and constructs inputs that reach them. Nine earlier rounds of seeded defects were used to harden it. Your change should have a realistic chance of slipping past such a tester: it should manifest only for operand relations, lengths, widths, flag combinations, call forms (by-reference vs by-value, assign forms, trait vs inherent), nesting or sequences that such a generator is unlikely to produce by luck — yet remain a REALISTIC slip (a plausible refactoring mistake, "optimisation", off-by-one in a rarely-taken branch, a dropped mask / carry / bounds check in one special case; NOT a backdoor keyed on a magic constant that no maintainer would ever write), and the property as stated must really be violated, observable through the public API on the default x86-64 target.

Deliverables, all inside {W}/out/ :
  patch.diff   — `git -C {W}/repo diff` of your change (source only)
  demo_test.rs plus RUN.md — a demonstration written as an integration test file (it will be copied to tests/zz_seed_demo.rs of the worktree and run with `cargo test --offline [--features F] --test zz_seed_demo`) that FAILS with your change and PASSES without it (verify both yourself by applying/reversing the patch). It must use only the public API, state which input triggers the fault and why it is specific, and name the cargo features it needs in RUN.md.
  meta.json    — {{"property": "{p['id']}", "summary": "...one paragraph what was changed...", "needs": "...what specific input / sequence is needed to manifest...", "files": [...], "features": "cargo features the demo needs, or empty", "test_suite": "exact command you ran and its pass counts with the change applied"}}

Before finishing: restore the worktree to contain ONLY your patch applied (no demo files left inside the worktree), and report in your final message: the idea, the triggering input, confirmation of (a)-(d) with the commands you ran. Do not delete {W}. Keep the change minimal (ideally 1-5 lines).""")
