//! C13 — pow, log, root (DESIGN 4, C13).

use proptest::prelude::*;
use ruint::Uint;
use vcore::big::*;
use vcore::gen::*;
use vcore::*;

fn small_const(bits: usize) -> BoxedStrategy<Vec<u64>> {
    let n = nlimbs(bits);
    prop_oneof![Just(0u64), Just(1), Just(2), Just(3), Just(4), Just(5), Just(7), Just(10), Just(16), Just(255), Just(256), Just(1 << 32)]
        .prop_map(move |x| mask_vec(if n == 0 { vec![] } else { vec![x] }, bits))
        .boxed()
}

fn pow2ish(bits: usize) -> BoxedStrategy<Vec<u64>> {
    let n = nlimbs(bits);
    if bits == 0 {
        return Just(vec![]).boxed();
    }
    (0..bits, 0u8..3)
        .prop_map(move |(k, d)| {
            let mut v = pow2_vec(k, n);
            match d {
                0 => {}
                1 => sub_small(&mut v, 1),
                _ => add_small(&mut v, 1),
            }
            mask_vec(v, bits)
        })
        .boxed()
}

/// does r^d <= v hold?  (early exit; r^d is never materialised beyond v)
fn pow_le(r: &BigUint, d: u64, v: &BigUint) -> bool {
    if r.is_zero() {
        return d == 0 && !v.is_zero() || d > 0; // 0^d = 0 <= v ; 0^0 = 1
    }
    if r.is_one() {
        return !v.is_zero();
    }
    // r >= 2: r^d >= 2^d
    if d as u128 * (r.bits() as u128 - 1) >= v.bits() as u128 + 1 {
        return false;
    }
    let mut acc = BigUint::one();
    let mut base = r.clone();
    let mut e = d;
    let mut base_over = false; // base itself already exceeds v
    while e > 0 {
        if e & 1 == 1 {
            if base_over {
                return false;
            }
            acc *= &base;
            if &acc > v {
                return false;
            }
        }
        e >>= 1;
        if e > 0 {
            if base_over {
                // stays over
            } else {
                base = &base * &base;
                if &base > v {
                    base_over = true;
                }
            }
        }
    }
    true
}

// ------------------------------------------------------------------ pow

fn strat_pow(bits: usize) -> BoxedStrategy<Case> {
    let n = nlimbs(bits);
    if bits == 0 {
        return Just(Case::new().l(vec![]).l(vec![]).n(0)).boxed();
    }
    let base = prop_oneof![3 => small_const(bits), 2 => pow2ish(bits), 2 => uint(bits)];
    let bb = bits as u64;
    let exp = prop_oneof![
        3 => (0u64..5).prop_map(move |x| mask_vec(vec![x], bits)),
        2 => prop_oneof![Just(bb.saturating_sub(1)), Just(bb), Just(bb + 1), Just(bb / 2), Just(bb / 3)].prop_map(move |x| mask_vec(vec![x], bits)),
        1 => (0u64..300).prop_map(move |x| mask_vec(vec![x], bits)),
        1 => pow2ish(bits),
        1 => uint(bits),
    ];
    let free = (base, exp).prop_map(|(a, e)| (a, e, 0u64));
    // boundary by construction: e small, a = floor((2^BITS - 1)^(1/e)) + {0, 1}  (just fits / just overflows)
    let boundary = (2u32..66, any::<bool>()).prop_map(move |(e, up)| {
        let e = e.min(bits as u32 + 1);
        let r = (pow2(bits) - 1u32).nth_root(e);
        let a = if up { (r + 1u32) % pow2(bits) } else { r };
        (limbs_of(&a, n), mask_vec(vec![e as u64], bits), 1u64)
    });
    prop_oneof![3 => free, 1 => boundary].prop_map(|(a, e, k)| Case::new().l(a).l(e).n(k)).boxed()
}

fn enum_pairs(bits: usize, f: &mut dyn FnMut(&Case) -> R) -> R {
    let m = 1u64 << bits;
    for a in 0..m {
        for b in 0..m {
            let (la, lb) = if bits == 0 { (vec![], vec![]) } else { (vec![a], vec![b]) };
            f(&Case::new().l(la).l(lb).n(9))?;
        }
    }
    Ok(())
}

fn body_pow<const B: usize, const L: usize>(c: &Case, rec: &mut Rec) -> R {
    type U<const B: usize, const L: usize> = Uint<B, L>;
    let a: U<B, L> = mk(&c.l[0]);
    let e: U<B, L> = mk(&c.l[1]);
    let (ab, eb) = (num(&a), num(&e));
    let two = pow2(B);
    let max: U<B, L> = mkb(&(&two - 1u32));
    // exact overflow predicate and wrapped value
    let (wrapped, of) = if B == 0 {
        (BigUint::zero(), false)
    } else if eb.is_zero() {
        (BigUint::one(), false)
    } else if ab <= BigUint::one() {
        (ab.clone(), false)
    } else if (BigUint::from(ab.bits() - 1) * &eb) >= BigUint::from(B as u64) {
        (ab.modpow(&eb, &two), true)
    } else {
        let p = ab.pow(eb.to_u32().expect("small exponent"));
        (&p % &two, p >= two)
    };
    rec.class_if(of, "pow_overflow");
    rec.class_if(c.n.last() == Some(&1), "gen:boundary_by_root");
    rec.class_if(eb.is_zero(), "exponent=0");
    if ab > BigUint::one() && eb > BigUint::one() {
        rec.nontrivial(&(&c.l[0], &c.l[1]));
    }
    rec.sample(|| json!({"base": hex(&ab), "exp": hex(&eb), "wrapped": hex(&wrapped), "overflow": of}));
    let w: U<B, L> = mkb(&wrapped);
    let r = rec.no_panic("overflowing_pow", catch(|| a.overflowing_pow(e)))?;
    rec.eqc("overflowing_pow", "value_wrong", &r.0, &w)?;
    rec.eqc("overflowing_pow", if of { "flag_false_expected_true" } else { "flag_true_expected_false" }, &r.1, &of)?;
    chk!(rec, "pow", a.pow(e), w);
    chk!(rec, "wrapping_pow", a.wrapping_pow(e), w);
    chk!(rec, "checked_pow", a.checked_pow(e), if of { None } else { Some(w) });
    chk!(rec, "saturating_pow", a.saturating_pow(e), if of { max } else { w });
    Ok(())
}

// ------------------------------------------------------------------ log

fn strat_log(bits: usize) -> BoxedStrategy<Case> {
    let n = nlimbs(bits);
    if bits == 0 {
        return Just(Case::new().l(vec![]).l(vec![]).n(0)).boxed();
    }
    let base = prop_oneof![4 => small_const(bits), 1 => pow2ish(bits), 1 => uint(bits)];
    // value = base^k + {-1, 0, +1}
    let perfect = (base.clone(), 0u32..600, 0u8..3).prop_map(move |(b, k, d)| {
        let bb = big(&b);
        let two = pow2(bits);
        let mut p = BigUint::one();
        if bb > BigUint::one() {
            for _ in 0..k {
                let q = &p * &bb;
                if q >= two {
                    break;
                }
                p = q;
            }
        }
        let v = match d {
            0 => p,
            1 => p - 1u32,
            _ => (p + 1u32) % &two,
        };
        (limbs_of(&v, n), b, 1u64)
    });
    let free = (prop_oneof![1 => pow2ish(bits), 2 => uint(bits)], base).prop_map(|(v, b)| (v, b, 0u64));
    // base = value + {-1, 0, 1}
    let near = (uint(bits), 0u8..3).prop_map(move |(v, d)| {
        let two = pow2(bits);
        let b = (big(&v) + &two + BigUint::from(d as u32) - 1u32) % &two;
        (v, limbs_of(&b, n), 2u64)
    });
    prop_oneof![3 => perfect, 2 => free, 1 => near].prop_map(|(v, b, k)| Case::new().l(v).l(b).n(k)).boxed()
}

fn ilog(v: &BigUint, b: &BigUint) -> usize {
    // floor(log_b(v)) for v >= 1, b >= 2: the largest k with b^k <= v, by bisection over
    // exact powers (b >= 2^(bits(b)-1) bounds k by bits(v) / (bits(b)-1))
    if *b == BigUint::from(2u32) {
        return v.bits() as usize - 1;
    }
    let (mut lo, mut hi) = (0u64, v.bits() / (b.bits() - 1) + 1);
    while lo < hi {
        let mid = lo + (hi - lo + 1) / 2;
        if num_traits::Pow::pow(b, mid) <= *v {
            lo = mid;
        } else {
            hi = mid - 1;
        }
    }
    lo as usize
}

/// Every power of a fixed set of bases that fits the width, with its two neighbours. `stride`
/// thins the exponents of the bases 2 and 3 (which have thousands of powers at wide widths).
fn enum_powers(bits: usize, stride: usize, part: usize, nparts: usize, f: &mut dyn FnMut(&Case) -> R) -> R {
    let n = nlimbs(bits);
    let two = pow2(bits);
    let mut bases: Vec<BigUint> = [2u64, 3, 5, 7, 10, 16, 100, 255, 256, 257, 65536, u32::MAX as u64, 1 << 32, (1 << 32) + 1, u64::MAX].iter().map(|x| BigUint::from(*x)).collect();
    bases.push(BigUint::one() << 64);
    bases.push((BigUint::one() << 64) + 1u32);
    for b in bases {
        if b >= two {
            continue;
        }
        // beyond 8192 bits every base is thinned (the last power that fits is always kept)
        let thin = if b <= BigUint::from(3u32) { stride } else if bits > 8192 { (stride / 2).max(1) } else { 1 };
        let bl = limbs_of(&b, n);
        let mut p = BigUint::one();
        let mut k = 0usize;
        while p < two {
            if (k % thin == 0 || &p * &b >= two) && (k / thin) % nparts == part {
                for d in 0..3u8 {
                    let v = match d {
                        0 => p.clone(),
                        1 => &p - 1u32,
                        _ => (&p + 1u32) % &two,
                    };
                    f(&Case::new().l(limbs_of(&v, n)).l(bl.clone()).n(1))?;
                }
            }
            p *= &b;
            k += 1;
        }
    }
    Ok(())
}

/// the same list at a giant width, split into 8 jobs
macro_rules! reg_powers_giant {
    ($jobs:expr, $stride:expr; [$($b:literal),* $(,)?]) => {
        $( for part in 0..8usize {
            let stride: usize = $stride;
            $jobs.fixed_list("log_all_powers", $b, move |f| enum_powers($b, stride, part, 8, f), body_log::<$b, { ruint::nlimbs($b) }>);
        } )*
    };
}

macro_rules! reg_powers {
    ($jobs:expr, $stride:expr; [$($b:literal),* $(,)?]) => {
        $( {
            let stride: usize = $stride;
            $jobs.fixed_list("log_all_powers", $b, move |f| enum_powers($b, stride, 0, 1, f), body_log::<$b, { ruint::nlimbs($b) }>);
        } )*
    };
}

fn body_log<const B: usize, const L: usize>(c: &Case, rec: &mut Rec) -> R {
    type U<const B: usize, const L: usize> = Uint<B, L>;
    let v: U<B, L> = mk(&c.l[0]);
    let b: U<B, L> = mk(&c.l[1]);
    let (vb, bb) = (num(&v), num(&b));
    let defined = !vb.is_zero() && bb >= BigUint::from(2u32);
    let exp = if defined { Some(ilog(&vb, &bb)) } else { None };
    rec.class_if(!defined, "log_undefined");
    rec.class_if(c.n.last() == Some(&1), "gen:perfect_power_neighbour");
    if defined && vb >= bb {
        rec.nontrivial(&(&c.l[0], &c.l[1]));
    }
    rec.sample(|| json!({"value": hex(&vb), "base": hex(&bb), "log": exp}));
    // classes for the constants 2 and 10 not fitting the width
    let c2 = if B < 2 { "panic:constant_does_not_fit_width" } else { "panic" };
    let c10 = if B < 4 { "panic:constant_does_not_fit_width" } else { "panic" };

    // checked forms: never panic
    match catch(|| v.checked_log(b)) {
        Ok(r) => rec.eq("checked_log", &r, &exp)?,
        Err(m) => rec.fail("checked_log", c2, format!("checked_log({}, {}) panicked: {m}", hex(&vb), hex(&bb)))?,
    }
    let e2 = if vb.is_zero() { None } else { Some(vb.bits() as usize - 1) };
    match catch(|| v.checked_log2()) {
        Ok(r) => rec.eq("checked_log2", &r, &e2)?,
        Err(m) => rec.fail("checked_log2", c2, format!("checked_log2({}) panicked: {m}", hex(&vb)))?,
    }
    let e10 = if vb.is_zero() { None } else { Some(ilog(&vb, &BigUint::from(10u32))) };
    match catch(|| v.checked_log10()) {
        Ok(r) => rec.eq("checked_log10", &r, &e10)?,
        Err(m) => rec.fail("checked_log10", c10, format!("checked_log10({}) panicked: {m}", hex(&vb)))?,
    }
    // panicking forms: panic exactly when undefined
    let r = catch(|| v.log(b));
    rec.eval(1);
    match (r, exp) {
        (Ok(g), Some(e)) if g == e => {}
        (Err(_), None) => {}
        (Ok(g), e) => rec.fail("log", if e.is_none() { "no_panic" } else { "value_wrong" }, format!("log({}, {}) = {g} expected {e:?}", hex(&vb), hex(&bb)))?,
        (Err(m), Some(e)) => rec.fail("log", c2, format!("log({}, {}) panicked ({m}) expected {e}", hex(&vb), hex(&bb)))?,
    }
    let r = catch(|| v.log2());
    rec.eval(1);
    match (r, e2) {
        (Ok(g), Some(e)) if g == e => {}
        (Err(_), None) => {}
        (Ok(g), e) => rec.fail("log2", if e.is_none() { "no_panic" } else { "value_wrong" }, format!("log2({}) = {g} expected {e:?}", hex(&vb)))?,
        (Err(m), Some(e)) => rec.fail("log2", c2, format!("log2({}) panicked ({m}) expected {e}", hex(&vb)))?,
    }
    let r = catch(|| v.log10());
    rec.eval(1);
    match (r, e10) {
        (Ok(g), Some(e)) if g == e => {}
        (Err(_), None) => {}
        (Ok(g), e) => rec.fail("log10", if e.is_none() { "no_panic" } else { "value_wrong" }, format!("log10({}) = {g} expected {e:?}", hex(&vb)))?,
        (Err(m), Some(e)) => rec.fail("log10", c10, format!("log10({}) panicked ({m}) expected {e}", hex(&vb)))?,
    }
    Ok(())
}

// ------------------------------------------------------------------ root

fn strat_root(bits: usize) -> BoxedStrategy<Case> {
    let n = nlimbs(bits);
    if bits == 0 {
        return (0u64..4).prop_map(|d| Case::new().l(vec![]).n(d).n(0)).boxed();
    }
    let bb = bits as u64;
    let degree = prop_oneof![
        4 => 1u64..=8,
        3 => 1u64..=(bb + 2),
        1 => prop_oneof![Just(bb.saturating_sub(1).max(1)), Just(bb), Just(bb + 1), Just(bb + 2), Just(1u64 << 32), Just(u64::MAX), Just(0u64)],
    ];
    // value = r^d + {-1, 0, 1} for r from the alphabet scaled to fit
    let perfect = (uint(bits), degree.clone(), 0u8..3).prop_map(move |(r0, d, k)| {
        let two = pow2(bits);
        let dd = d.clamp(1, bb + 2);
        // r below 2^(bits/d) so that r^d fits
        let rbits = (bits as u64 / dd) as usize;
        let r = big(&r0) >> (bits - rbits.min(bits));
        let p = r.pow(dd as u32) % &two;
        let v = match k {
            0 => p,
            1 => (p + &two - 1u32) % &two,
            _ => (p + 1u32) % &two,
        };
        (limbs_of(&v, n), dd, 1u64)
    });
    let free = (prop_oneof![3 => uint(bits), 1 => pow2ish(bits), 1 => Just(mask_vec(vec![u64::MAX; n], bits))], degree).prop_map(|(v, d)| (v, d, 0u64));
    prop_oneof![1 => perfect, 1 => free].prop_map(|(v, d, k)| Case::new().l(v).n(d).n(k)).boxed()
}

fn enum_root(bits: usize, f: &mut dyn FnMut(&Case) -> R) -> R {
    let m = 1u64 << bits;
    for v in 0..m {
        for d in (0..=(bits as u64 + 2)).chain([1 << 32, u64::MAX]) {
            let lv = if bits == 0 { vec![] } else { vec![v] };
            f(&Case::new().l(lv).n(d).n(9))?;
        }
    }
    Ok(())
}

fn body_root<const B: usize, const L: usize>(c: &Case, rec: &mut Rec) -> R {
    type U<const B: usize, const L: usize> = Uint<B, L>;
    let v: U<B, L> = mk(&c.l[0]);
    let vb = num(&v);
    let d = c.n[0];
    if d == 0 {
        rec.class("degree=0");
        return rec.must_panic("root", catch(|| v.root(0)));
    }
    rec.class_if(c.n.last() == Some(&1), "gen:perfect_power_neighbour");
    rec.class_if(d >= B as u64, "degree>=BITS");
    if d >= 2 && vb.bits() > d {
        rec.nontrivial(&(&c.l[0], d));
    }
    let r = rec.no_panic("root", catch(|| v.root(d as usize)))?;
    let rb = num(&r);
    rec.sample(|| json!({"value": hex(&vb), "degree": d, "root": hex(&rb)}));
    rec.eval(1);
    // validity predicate: r^d <= v < (r+1)^d
    if !pow_le(&rb, d, &vb) && !(vb.is_zero() && rb.is_zero()) {
        rec.fail("root", "too_large", format!("root({}, {d}) = {}: r^d > value", hex(&vb), hex(&rb)))?;
    }
    if pow_le(&(&rb + 1u32), d, &vb) {
        rec.fail("root", "too_small", format!("root({}, {d}) = {}: (r+1)^d <= value", hex(&vb), hex(&rb)))?;
    }
    Ok(())
}

fn main() {
    // oracle self-tests
    let t = |r: u32, d: u64, v: u32| pow_le(&BigUint::from(r), d, &BigUint::from(v));
    if !(t(2, 3, 8) && !t(2, 3, 7) && t(1, 99, 1) && !t(1, 5, 0) && t(0, 5, 0) && !t(3, 40, 1000) && t(10, 3, 1000) && !t(10, 3, 999)) {
        harness_error("pow_le self-test failed");
    }
    if ilog(&BigUint::from(999u32), &BigUint::from(10u32)) != 2 || ilog(&BigUint::from(1000u32), &BigUint::from(10u32)) != 3 || ilog(&BigUint::from(1u32), &BigUint::from(3u32)) != 0 {
        harness_error("ilog self-test failed");
    }
    let spec = PropSpec {
        id: "C13",
        rule_text: "pow: (a,e) with a in {0,1,2,3,4,5,7,10,16,255,256,2^32, 2^k, 2^k+-1, alphabet}, e in {0..4, BITS/3, BITS/2, BITS-1, BITS, BITS+1, 0..300, 2^k, alphabet}, plus boundary pairs by construction a = floor((2^BITS-1)^(1/e)) + {0,1} for e in 2..65; log: (value, base) with value = base^k + {-1,0,1}, 2^k, alphabet and base in {small constants, 2^k+-1, alphabet, value+{-1,0,1}}; root: value = r^d + {-1,0,1}, MAX, 2^k, alphabet and degree in 1..=BITS+2 plus {0, 2^32, usize::MAX}; exhaustive for BITS <= 6 (all pairs for pow and log, all value x degree for root); fixed list log_all_powers: every power b^k < 2^BITS of 17 bases (2,3,5,7,10,16,100,255,256,257,65536,2^32-1,2^32,2^32+1,2^64-1,2^64,2^64+1) with b^k-1 and b^k+1, at 21 widths up to 4096; generated rules also at 1024, 2048 and 4096 bits. Oracle: num-bigint modpow and the exact overflow predicate; integer loop for logs; validity predicate r^d <= v < (r+1)^d for roots (early exit); termination through the step-bound hook. Non-trivial: pow a,e >= 2; log value >= base >= 2; root degree >= 2 and value >= 2^degree. Distinct by inputs.",
        assumptions: vec![
            "num-bigint pow/modpow/nth_root are correct (oracle and generator)",
            "termination is decided by a 2^16 step bound in the Newton and correction loops (hook), not by wall clock",
        ],
        thorough_mult: 30,
    };
    main_with(
        spec,
        |jobs, _| {
            reg_enum!(jobs, "pow_all_pairs", enum_pairs, body_pow; [0, 1, 2, 3, 4, 5, 6]);
            reg_enum!(jobs, "log_all_pairs", enum_pairs, body_log; [0, 1, 2, 3, 4, 5, 6]);
            reg_enum!(jobs, "root_all", enum_root, body_root; [0, 1, 2, 3, 4, 5, 6]);
            w_all!(reg_gen!(jobs, "pow", 10000, strat_pow, body_pow;));
            w_all!(reg_gen!(jobs, "log", 10000, strat_log, body_log;));
            w_all!(reg_gen!(jobs, "root", 10000, strat_root, body_root;));
            reg_gen!(jobs, "pow", 1000, strat_pow, body_pow; [1024]);
            reg_gen!(jobs, "log", 1000, strat_log, body_log; [1024]);
            reg_gen!(jobs, "root", 1000, strat_root, body_root; [1024]);
            reg_gen!(jobs, "pow", 300, strat_pow, body_pow; [2048, 4096]);
            reg_gen!(jobs, "log", 300, strat_log, body_log; [2048, 4096]);
            reg_gen!(jobs, "root", 300, strat_root, body_root; [2048, 4096]);
            reg_gen!(jobs, "pow", 100, strat_pow, body_pow; [4160]);
            reg_gen!(jobs, "log", 100, strat_log, body_log; [4160]);
            reg_gen!(jobs, "root", 60, strat_root, body_root; [4160]);
            // every power of 17 fixed bases (and its neighbours) at a spread of widths, including
            // two far above the float-estimate range of the logarithm
            // widths beyond the float estimate's exact range (the quotient of two f64 logarithms is
            // within 1e-12 of the truth only below results of about 8192)
            reg_powers_giant!(jobs, 48; [16448, 65600]);
            reg_powers!(jobs, 1; [7, 8, 16, 32, 63, 64, 65, 100, 127, 128, 129, 192, 255, 256, 257, 320, 512, 535, 1024, 2048, 4096]);
        },
        |_| Map::new(),
    );
}
