//! C20 — operator, wrapper and trait facades agree with the inherent methods
//! (DESIGN 4, C20). Differential check INSIDE the library: the reference is the
//! inherent `Uint` method (or plain `==`, `<`, `>`), the subject is every
//! alternative surface (operator shapes, `Bits`, num-traits, num-integer,
//! subtle, zeroize, Sum/Product).

#![allow(clippy::all)]
#![allow(deprecated)]

use num_integer::Integer as NI;
use num_traits as nt;
use proptest::collection::vec;
use proptest::prelude::*;
use ruint::{Bits, Uint};
use std::fmt::Debug;
use std::hash::{Hash, Hasher};
use std::str::FromStr;
use subtle::{
    Choice, ConditionallyNegatable, ConditionallySelectable, ConstantTimeEq, ConstantTimeGreater, ConstantTimeLess,
};
use vcore::big::*;
use vcore::gen::*;
use vcore::*;
use zeroize::Zeroize;

type U<const B: usize, const L: usize> = Uint<B, L>;

// ---------------------------------------------------------------------------
// comparison helpers

/// Facade outcome must equal the inherent outcome: same value, or both panic.
fn agree<T: PartialEq + Debug>(rec: &mut Rec, check: &str, got: Result<T, String>, exp: &Result<T, String>) -> R {
    rec.eval(1);
    match (&got, exp) {
        (Ok(g), Ok(e)) if g == e => Ok(()),
        (Err(_), Err(_)) => Ok(()),
        (Ok(g), Ok(e)) => rec.fail(check, "differs_from_inherent", format!("facade {g:?} inherent {e:?}")),
        (Err(m), Ok(e)) => rec.fail(check, "facade_panics", format!("facade panicked ({m}), inherent returned {e:?}")),
        (Ok(g), Err(m)) => {
            rec.fail(check, "facade_returns_where_inherent_fails", format!("facade returned {g:?}, inherent failed ({m})"))
        }
    }
}

/// Facade whose signature cannot carry the inherent `None`: it must return the
/// `Some` payload, and panic where the inherent method returns `None` or panics.
fn agree_unwrap<T: PartialEq + Debug + Clone>(
    rec: &mut Rec,
    check: &str,
    got: Result<T, String>,
    exp: &Result<Option<T>, String>,
) -> R {
    let e2: Result<T, String> = match exp {
        Ok(Some(v)) => Ok(v.clone()),
        Ok(None) => Err("inherent returned None".into()),
        Err(m) => Err(m.clone()),
    };
    agree(rec, check, got, &e2)
}

macro_rules! disc {
    ($rec:expr, $cnt:ident, $cond:expr, $name:literal) => {
        if $cond {
            $rec.class(concat!("disc:", $name));
            $cnt += 1;
        }
    };
}

/// The six operator shapes of a binary operator against one reference outcome.
macro_rules! binop6 {
    ($rec:expr, $a:expr, $b:expr, $tr:literal, $op:tt, $opa:tt, $r:expr) => {{
        let (a, b) = ($a, $b);
        let r = $r;
        agree($rec, concat!($tr, "(val,val)"), catch(|| a $op b), r)?;
        agree($rec, concat!($tr, "(val,&ref)"), catch(|| a $op &b), r)?;
        agree($rec, concat!($tr, "(&ref,val)"), catch(|| &a $op b), r)?;
        agree($rec, concat!($tr, "(&ref,&ref)"), catch(|| &a $op &b), r)?;
        agree($rec, concat!($tr, "Assign(val)"), catch(|| { let mut x = a; x $opa b; x }), r)?;
        agree($rec, concat!($tr, "Assign(&ref)"), catch(|| { let mut x = a; x $opa &b; x }), r)?;
    }};
}

/// Same for the `Bits` wrapper (results unwrapped with `into_inner`).
macro_rules! bits_binop6 {
    ($rec:expr, $a:expr, $b:expr, $tr:literal, $op:tt, $opa:tt, $r:expr) => {{
        let (a, b) = (Bits::from($a), Bits::from($b));
        let r = $r;
        agree($rec, concat!("Bits::", $tr, "(val,val)"), catch(|| (a $op b).into_inner()), r)?;
        agree($rec, concat!("Bits::", $tr, "(val,&ref)"), catch(|| (a $op &b).into_inner()), r)?;
        agree($rec, concat!("Bits::", $tr, "(&ref,val)"), catch(|| (&a $op b).into_inner()), r)?;
        agree($rec, concat!("Bits::", $tr, "(&ref,&ref)"), catch(|| (&a $op &b).into_inner()), r)?;
        agree($rec, concat!("Bits::", $tr, "Assign(val)"), catch(|| { let mut x = a; x $opa b; x.into_inner() }), r)?;
        agree($rec, concat!("Bits::", $tr, "Assign(&ref)"), catch(|| { let mut x = a; x $opa &b; x.into_inner() }), r)?;
    }};
}

/// value / ref / assign / ref-assign shapes of `<<` and `>>` for one integer type.
macro_rules! shift_ty {
    ($rec:expr, $a:expr, $n:expr, $t:ident, $rl:expr, $rr:expr) => {
        if let Ok(t) = <$t>::try_from($n) {
            let a = $a;
            let t: $t = t;
            $rec.class(concat!("amount_fits:", stringify!($t)));
            agree($rec, concat!("Shl<", stringify!($t), ">"), catch(|| a << t), $rl)?;
            agree($rec, concat!("Shl<&", stringify!($t), ">"), catch(|| a << &t), $rl)?;
            agree($rec, concat!("ShlAssign<", stringify!($t), ">"), catch(|| { let mut x = a; x <<= t; x }), $rl)?;
            agree($rec, concat!("ShlAssign<&", stringify!($t), ">"), catch(|| { let mut x = a; x <<= &t; x }), $rl)?;
            agree($rec, concat!("Shr<", stringify!($t), ">"), catch(|| a >> t), $rr)?;
            agree($rec, concat!("Shr<&", stringify!($t), ">"), catch(|| a >> &t), $rr)?;
            agree($rec, concat!("ShrAssign<", stringify!($t), ">"), catch(|| { let mut x = a; x >>= t; x }), $rr)?;
            agree($rec, concat!("ShrAssign<&", stringify!($t), ">"), catch(|| { let mut x = a; x >>= &t; x }), $rr)?;
        }
    };
}

fn hash_of<T: Hash>(x: &T) -> u64 {
    let mut h = std::collections::hash_map::DefaultHasher::new();
    x.hash(&mut h);
    h.finish()
}

/// Limb-wise reference for `& | ^` (harness side, no ruint arithmetic).
fn limbwise<const B: usize, const L: usize>(a: &U<B, L>, b: &U<B, L>, f: impl Fn(u64, u64) -> u64) -> U<B, L> {
    let v: Vec<u64> = a.as_limbs().iter().zip(b.as_limbs().iter()).map(|(x, y)| f(*x, *y)).collect();
    mk::<B, L>(&v)
}

/// Little-endian bytes of a limb vector, `nb` bytes.
fn le_bytes_of(l: &[u64], nb: usize) -> Vec<u8> {
    let mut v = Vec::with_capacity(l.len() * 8);
    for x in l {
        v.extend_from_slice(&x.to_le_bytes());
    }
    v.resize(nb.max(v.len()), 0);
    v.truncate(nb);
    v
}

fn limbs_from_le_bytes(b: &[u8], n: usize) -> Vec<u64> {
    let mut v = vec![0u64; n];
    for (i, x) in b.iter().enumerate() {
        if i / 8 < n {
            v[i / 8] |= (*x as u64) << (8 * (i % 8));
        }
    }
    v
}

/// Byte-swap oracle for widths with BITS % 8 == 0.
fn swap_bytes_ref(l: &[u64], bits: usize) -> Vec<u64> {
    let nb = bits / 8;
    let mut b = le_bytes_of(l, nb);
    b.reverse();
    limbs_from_le_bytes(&b, nlimbs(bits))
}

fn selftest() {
    for x in [0u64, 1, 0x0123_4567_89ab_cdef, u64::MAX, 0xff00_0000_0000_0000] {
        if swap_bytes_ref(&[x], 64) != vec![x.swap_bytes()] {
            harness_error("swap_bytes_ref disagrees with u64::swap_bytes");
        }
        let y = x.rotate_left(17) ^ 0x55;
        let w = ((x as u128) << 64 | y as u128).swap_bytes();
        if swap_bytes_ref(&[y, x], 128) != vec![w as u64, (w >> 64) as u64] {
            harness_error("swap_bytes_ref disagrees with u128::swap_bytes");
        }
        if swap_bytes_ref(&[x & 0xffff], 16) != vec![((x & 0xffff) as u16).swap_bytes() as u64] {
            harness_error("swap_bytes_ref disagrees with u16::swap_bytes");
        }
        if limbs_from_le_bytes(&le_bytes_of(&[x, y], 16), 2) != vec![x, y] {
            harness_error("byte/limb round trip");
        }
        let a: U<64, 1> = mk(&[x]);
        let b: U<64, 1> = mk(&[y]);
        if limbwise(&a, &b, |p, q| p & q).as_limbs()[0] != x & y || limbwise(&a, &b, |p, q| p ^ q).as_limbs()[0] != x ^ y {
            harness_error("limbwise oracle");
        }
    }
}

// ---------------------------------------------------------------------------
// generators

/// `2^bits - a + d  (mod 2^bits)` as limbs.
fn neg_plus(a: &[u64], d: i32, bits: usize) -> Vec<u64> {
    let m = pow2(bits);
    let mut v = (&m + &m - big(a)) % &m;
    if d > 0 {
        v = (v + 1u32) % &m;
    } else if d < 0 {
        v = (v + &m - 1u32) % &m;
    }
    limbs_of(&v, nlimbs(bits))
}

/// Operand pairs with a generator class tag.
fn pair(bits: usize) -> BoxedStrategy<(Vec<u64>, Vec<u64>, u64)> {
    let n = nlimbs(bits);
    if bits == 0 {
        return Just((vec![], vec![], 0u64)).boxed();
    }
    prop_oneof![
        6 => (uint(bits), uint(bits)).prop_map(|(a, b)| (a, b, 0u64)),
        // add/sub overflow boundary: b = 2^B - a + {-1,0,1}
        2 => (uint(bits), -1i32..=1).prop_map(move |(a, d)| { let b = neg_plus(&a, d, bits); (a, b, 1) }),
        // equal operands
        1 => uint(bits).prop_map(|a| (a.clone(), a, 2)),
        // zero divisor / zero numerator
        1 => uint(bits).prop_map(move |a| (a, vec![0; n], 3)),
        1 => uint(bits).prop_map(move |b| (vec![0; n], b, 4)),
        // single-limb divisor / multiplier (products that do not overflow)
        2 => (uint(bits), limb()).prop_map(move |(a, x)| { let mut b = vec![0; n]; b[0] = x; (a, mask_vec(b, bits), 5) }),
        // neighbours
        1 => (uint(bits), any::<bool>()).prop_map(move |(a, up)| {
            let mut b = a.clone();
            if up { add_small(&mut b, 1) } else { sub_small(&mut b, 1) }
            (a, mask_vec(b, bits), 6)
        }),
        // equal except in two limbs changed in opposite directions (comparison order)
        2 => (uint(bits), 0..n, 0..n, limb(), limb()).prop_map(move |(a, i, j, x, y)| {
            let mut b = a.clone();
            b[i] = b[i].wrapping_add(x | 1);
            b[j] = b[j].wrapping_sub(y | 1);
            (a, mask_vec(b, bits), 7)
        }),
        // both short (products fit, quotients non-trivial)
        2 => (uint(bits), uint(bits), 0..=bits, 0..=bits).prop_map(move |(a, b, i, j)| {
            let (ba, bb) = (big(&a) >> i, big(&b) >> j);
            (limbs_of(&ba, n), limbs_of(&bb, n), 8)
        }),
    ]
    .boxed()
}

fn pair_class(k: u64) -> &'static str {
    match k {
        0 => "gen:independent",
        1 => "gen:b=2^B-a+d",
        2 => "gen:a==b",
        3 => "gen:b==0",
        4 => "gen:a==0",
        5 => "gen:b_one_limb",
        6 => "gen:b=a+-1",
        7 => "gen:two_limbs_opposite",
        8 => "gen:both_shifted_down",
        _ => "gen:other",
    }
}

/// Shift / rotate amounts: around the width, limb multiples, truncation
/// boundaries of the narrower integer types, and very large values.
fn amount(bits: usize) -> BoxedStrategy<u64> {
    let hi = (bits + 70) as u64;
    prop_oneof![
        10 => index_around(bits, 70),
        6 => 0..=(bits.saturating_sub(1) as u64),
        2 => prop_oneof![
            Just(127u64), Just(128), Just(255), Just(256), Just(257), Just(32767), Just(32768), Just(65535), Just(65536),
            Just((1u64 << 31) - 1), Just(1u64 << 31), Just(u32::MAX as u64), Just(1u64 << 32), Just((1u64 << 32) + 1),
            Just((1u64 << 63) - 1), Just(1u64 << 63), Just(u64::MAX)
        ],
        2 => (0..=hi, prop_oneof![Just(128u64), Just(256), Just(65536), Just(1u64 << 32)]).prop_map(|(k, base)| base + k),
        1 => (any::<u64>(), 0u32..64).prop_map(|(x, s)| x >> s),
    ]
    .boxed()
}

/// A canonical value that fits 128 bits more often than `uint` does.
fn uint_smallish(bits: usize) -> BoxedStrategy<Vec<u64>> {
    let n = nlimbs(bits);
    if bits == 0 {
        return Just(vec![]).boxed();
    }
    prop_oneof![
        3 => uint(bits),
        2 => (limb(), limb(), 0u8..4).prop_map(move |(x, y, k)| {
            let mut v = vec![0u64; n];
            v[0] = x;
            if n > 1 && k >= 1 { v[1] = y; }
            if n > 2 && k == 3 { v[2] = 1; }
            mask_vec(v, bits)
        }),
    ]
    .boxed()
}

const ALPHA36: &[u8] = b"0123456789abcdefghijklmnopqrstuvwxyz";
const ALPHA64: &[u8] = b"ABCDEFGHIJKLMNOPQRSTUVWXYZabcdefghijklmnopqrstuvwxyz0123456789+/";

/// (digits string for from_str_radix, radix, prefixed string for FromStr)
fn text(bits: usize) -> BoxedStrategy<(String, u64, String)> {
    let radix = prop_oneof![
        4 => prop_oneof![Just(10u64), Just(16), Just(2), Just(8)],
        2 => prop_oneof![Just(36u64), Just(37), Just(63), Just(64)],
        2 => 2u64..=64,
        1 => prop_oneof![Just(0u64), Just(1), Just(65), Just(u32::MAX as u64), Just((1u64 << 32) + 10), Just((1u64 << 32) + 16), Just(u64::MAX)],
    ];
    (radix, vec(0u64..64, 0..=330usize), any::<u16>(), 0u8..8, 0u8..16, any::<u8>())
        .prop_map(move |(radix, ds, lensel, prefix, noise, upper)| {
            let r = radix.clamp(2, 64);
            let per = 63 - r.leading_zeros() as usize; // floor(log2 r) >= 1
            let cap = (bits / per + 2).min(ds.len());
            let len = lensel as usize % (cap + 1);
            let mut s = String::new();
            for (i, d) in ds.iter().take(len).enumerate() {
                let d = (*d % r) as usize;
                let mut ch = if radix <= 36 { ALPHA36[d] as char } else { ALPHA64[d] as char };
                if radix <= 36 && (upper >> (i % 8)) & 1 == 1 {
                    ch = ch.to_ascii_uppercase();
                }
                s.push(ch);
            }
            match noise {
                0 => s.push('_'),
                1 => s.insert(0, '_'),
                2 => s.push('g'),
                3 => s.push('!'),
                4 => s.push('='),
                5 => s.push('\u{e9}'),
                6 => s.insert(0, '+'),
                _ => {}
            }
            let p = match prefix {
                0 => "0x",
                1 => "0b",
                2 => "0o",
                3 => "0X",
                4 => "0B",
                5 => "0O",
                _ => "",
            };
            // FromStr input: digits valid for the radix the prefix selects
            let pr: u64 = match prefix { 0 | 3 => 16, 1 | 4 => 2, 2 | 5 => 8, _ => 10 };
            let pper = 63 - pr.leading_zeros() as usize;
            let plen = lensel as usize % ((bits / pper + 2).min(ds.len()) + 1);
            let mut body = String::new();
            for (i, d) in ds.iter().take(plen).enumerate() {
                let mut ch = ALPHA36[(*d % pr) as usize] as char;
                if (upper >> (i % 8)) & 1 == 1 {
                    ch = ch.to_ascii_uppercase();
                }
                body.push(ch);
            }
            match noise {
                0 => body.push('_'),
                2 => body.push('g'),
                3 => body.push('!'),
                5 => body.insert(0, '\u{e9}'),
                6 => body.insert(0, '+'),
                _ => {}
            }
            let fs = if noise == 7 { format!("{p}{s}") } else { format!("{p}{body}") };
            (s, radix, fs)
        })
        .boxed()
}

/// Byte strings for slice parsers of a type with `nb` bytes, built around the
/// encoding of a canonical value `a` (so that `Some` is common).
fn bytes_for(bits: usize) -> BoxedStrategy<Vec<u8>> {
    let nb = (bits + 7) / 8;
    prop_oneof![
        // full-length little-endian encoding of a canonical value
        3 => uint(bits).prop_map(move |a| le_bytes_of(&a, nb)),
        // the same reversed (big-endian encoding)
        3 => uint(bits).prop_map(move |a| { let mut b = le_bytes_of(&a, nb); b.reverse(); b }),
        // shorter
        2 => (uint(bits), 0..=nb).prop_map(move |(a, k)| le_bytes_of(&a, k)),
        // arbitrary bytes of length around nb
        3 => vec(byte(), 0..=nb + 2),
        // canonical plus an extra byte (zero or not) on either side
        2 => (uint(bits), byte(), any::<bool>()).prop_map(move |(a, x, front)| {
            let mut b = le_bytes_of(&a, nb);
            if front { b.insert(0, x) } else { b.push(x) }
            b
        }),
    ]
    .boxed()
}

// ---------------------------------------------------------------------------
// rule "ops": arithmetic / bitwise operator shapes, Neg / Not, Sum / Product

fn strat_ops(bits: usize) -> BoxedStrategy<Case> {
    (pair(bits), vec(uint(bits), 0..=3usize))
        .prop_map(|((a, b, k), rest)| {
            let mut c = Case::new().l(a).l(b).n(k);
            for r in rest {
                c = c.l(r);
            }
            c
        })
        .boxed()
}

fn body_ops<const B: usize, const L: usize>(c: &Case, rec: &mut Rec) -> R {
    let a: U<B, L> = mk(&c.l[0]);
    let b: U<B, L> = mk(&c.l[1]);
    let items: Vec<U<B, L>> = c.l.iter().map(|v| mk::<B, L>(v)).collect();
    rec.class(pair_class(c.n.first().copied().unwrap_or(99)));

    // operator impls with a primitive right-hand side and comparisons with primitives: the
    // pinned tree has none (probes resolve to the fallback); a tree that adds one must agree with
    // the integers (judged only when the primitive fits the width, except for comparisons)
    {
        let bl = b.as_limbs();
        let p64 = bl.first().copied().unwrap_or(0);
        let p128 = p64 as u128 | (bl.get(1).copied().unwrap_or(0) as u128) << 64;
        let p128 = if c.n.first() == Some(&3) { p64 as u128 } else { p128 };
        if let Some(rs) = vcore::optional_prim_ops!(B, &c.l[0], p64, p128; [1, 8, 63, 64, 65, 127, 128, 129, 192, 256]) {
            let an = num(&a);
            for (i, r) in rs.iter().enumerate() {
                let Some(r) = r else {
                    rec.class("optional_primitive_operand_impl:absent");
                    continue;
                };
                rec.class("optional_primitive_operand_impl:present");
                let fits = if i < 8 || i == 16 || i == 18 { (p64 as u128) < (1u128 << B.min(127)) || B >= 64 } else { B >= 128 || p128 < (1u128 << B.min(127)) };
                if !fits && i < 16 {
                    continue;
                }
                let e = vcore::optional::expected(i, &an, p64, p128, B);
                rec.ensure(vcore::optional::NAMES[i], "differs_from_integers", *r == e, || format!("a = {}, primitive = {}: got {r:?} expected {e:?}", hex(&an), if i < 8 || i == 16 || i == 18 { p64 as u128 } else { p128 }))?;
            }
        }
    }

    // inherent references
    let r_add = catch(|| a.wrapping_add(b));
    let r_sub = catch(|| a.wrapping_sub(b));
    let r_mul = catch(|| a.wrapping_mul(b));
    let r_div = catch(|| a.wrapping_div(b));
    let r_rem = catch(|| a.wrapping_rem(b));
    let r_and: Result<U<B, L>, String> = Ok(limbwise(&a, &b, |x, y| x & y));
    let r_or: Result<U<B, L>, String> = Ok(limbwise(&a, &b, |x, y| x | y));
    let r_xor: Result<U<B, L>, String> = Ok(limbwise(&a, &b, |x, y| x ^ y));
    let r_neg = catch(|| a.wrapping_neg());
    let r_not = catch(|| U::<B, L>::not(a));
    for (nm, r) in [("wrapping_add", &r_add), ("wrapping_sub", &r_sub), ("wrapping_mul", &r_mul), ("wrapping_neg", &r_neg), ("not", &r_not)] {
        if let Err(m) = r {
            return rec.fail(nm, "panic", format!("inherent reference panicked: {m}"));
        }
    }
    let bz = b.is_zero();
    rec.class_if(bz, "zero_divisor");
    // zero divisor: the inherent method is documented to panic; if it does not,
    // the facade comparison below still applies (same outcome required).

    // discrimination: which plausible wrong forwards this case would expose
    let mut d = 0u32;
    {
        let (add, sub, mul) = (r_add.clone().unwrap(), r_sub.clone().unwrap(), r_mul.clone().unwrap());
        disc!(rec, d, add != sub, "add<->sub");
        disc!(rec, d, add != a.saturating_add(b), "add:wrapping<->saturating");
        disc!(rec, d, sub != b.wrapping_sub(a), "sub:swapped");
        disc!(rec, d, sub != a.saturating_sub(b), "sub:wrapping<->saturating");
        disc!(rec, d, mul != add, "mul<->add");
        disc!(rec, d, mul != a.saturating_mul(b), "mul:wrapping<->saturating");
        if let (Ok(q), Ok(r)) = (&r_div, &r_rem) {
            disc!(rec, d, q != r, "div<->rem");
            if !a.is_zero() {
                disc!(rec, d, *q != b.wrapping_div(a), "div:swapped");
                disc!(rec, d, *r != b.wrapping_rem(a), "rem:swapped");
            }
        }
        let (and, or, xor) = (r_and.clone().unwrap(), r_or.clone().unwrap(), r_xor.clone().unwrap());
        disc!(rec, d, and != or, "and<->or");
        disc!(rec, d, and != xor, "and<->xor");
        disc!(rec, d, or != xor, "or<->xor");
        disc!(rec, d, r_neg != r_not, "neg<->not");
    }
    if d > 0 {
        rec.nontrivial(&c);
    }
    rec.sample(|| json!({"a": hexl(&c.l[0]), "b": hexl(&c.l[1]), "items": c.l.len(), "discriminating_mixups": d}));

    binop6!(rec, a, b, "Add", +, +=, &r_add);
    binop6!(rec, a, b, "Sub", -, -=, &r_sub);
    binop6!(rec, a, b, "Mul", *, *=, &r_mul);
    binop6!(rec, a, b, "Div", /, /=, &r_div);
    binop6!(rec, a, b, "Rem", %, %=, &r_rem);
    binop6!(rec, a, b, "BitAnd", &, &=, &r_and);
    binop6!(rec, a, b, "BitOr", |, |=, &r_or);
    binop6!(rec, a, b, "BitXor", ^, ^=, &r_xor);

    agree(rec, "Neg::neg(val)", catch(|| -a), &r_neg)?;
    agree(rec, "Neg::neg(&ref)", catch(|| -&a), &r_neg)?;
    agree(rec, "Not::not(val)", catch(|| !a), &r_not)?;
    agree(rec, "Not::not(&ref)", catch(|| !&a), &r_not)?;
    // inherent not against the limb-wise complement (reference sanity inside the library)
    {
        let v: Vec<u64> = a.as_limbs().iter().map(|x| !*x).collect();
        agree(rec, "not", r_not.clone(), &Ok(mk::<B, L>(&v)))?;
    }

    // Sum / Product over value and reference iterators, full list and tail (possibly empty)
    for (tag, list) in [("all", &items[..]), ("tail", &items[2..])] {
        let r_sum = catch(|| list.iter().fold(U::<B, L>::ZERO, |s, x| s.wrapping_add(*x)));
        let r_prod = catch(|| list.iter().fold(U::<B, L>::ONE, |s, x| s.wrapping_mul(*x)));
        rec.class_if(list.is_empty(), "empty_iterator");
        rec.class_if(r_sum != r_prod, "disc:sum<->product");
        let (s1, s2, p1, p2) = if tag == "all" {
            ("Sum<Self>", "Sum<&Self>", "Product<Self>", "Product<&Self>")
        } else {
            ("Sum<Self>[tail]", "Sum<&Self>[tail]", "Product<Self>[tail]", "Product<&Self>[tail]")
        };
        agree(rec, s1, catch(|| list.iter().copied().sum::<U<B, L>>()), &r_sum)?;
        agree(rec, s2, catch(|| list.iter().sum::<U<B, L>>()), &r_sum)?;
        agree(rec, p1, catch(|| list.iter().copied().product::<U<B, L>>()), &r_prod)?;
        agree(rec, p2, catch(|| list.iter().product::<U<B, L>>()), &r_prod)?;
    }
    Ok(())
}

// ---------------------------------------------------------------------------
// rule "shifts": every shift / rotate surface

fn strat_shifts(bits: usize) -> BoxedStrategy<Case> {
    (uint(bits), amount(bits), 0u8..5, any::<u64>())
        .prop_map(move |(a, n, high, h)| {
            // the Uint-typed amount: n reduced to the width, high limbs zero; one in five (for
            // widths above 64 bits) instead has a small low limb and a non-zero higher limb, i.e.
            // a value >= 2^64, whose inherent counterpart is the amount saturated to usize::MAX
            let nl = nlimbs(bits);
            let mut m = if nl == 0 { vec![] } else { let mut v = vec![0u64; nl]; v[0] = n; mask_vec(v, bits) };
            if high == 0 && nl >= 2 {
                m[0] = n % (bits as u64 + 2);
                m[1 + (h as usize >> 8) % (nl - 1)] |= (h & 0xff) | 1;
                m = mask_vec(m, bits);
                if m[1..].iter().all(|x| *x == 0) {
                    m[1] = 1;
                }
            }
            Case::new().l(a).l(m).n(n)
        })
        .boxed()
}

#[allow(irrefutable_let_patterns)]
fn body_shifts<const B: usize, const L: usize>(c: &Case, rec: &mut Rec) -> R {
    let a: U<B, L> = mk(&c.l[0]);
    let m: U<B, L> = mk(&c.l[1]);
    let n: u64 = c.n[0];
    let nu = n as usize;
    let rl = catch(|| a.wrapping_shl(nu));
    let rr = catch(|| a.wrapping_shr(nu));
    let (Ok(vl), Ok(vr)) = (rl.clone(), rr.clone()) else {
        return rec.fail("wrapping_shl/shr", "panic", "inherent reference panicked".into());
    };
    rec.class(if B == 0 { "n:width0" } else if n == 0 { "n==0" } else if (n as u128) < B as u128 { "n<BITS" } else if n as u128 == B as u128 { "n==BITS" } else if n < 1 << 32 { "n>BITS" } else { "n>=2^32" });
    rec.class_if(n % 64 == 0 && n > 0 && (n as u128) < B as u128, "n:whole_limbs");

    let mut d = 0u32;
    disc!(rec, d, vl != vr, "shl<->shr");
    disc!(rec, d, a.rotate_left(nu) != a.rotate_right(nu), "rotl<->rotr");
    disc!(rec, d, a.rotate_left(nu) != vl, "rotate<->shift");
    disc!(rec, d, a.overflowing_shl(nu).1, "shl:wrapping<->checked");
    disc!(rec, d, a.overflowing_shr(nu).1, "shr:wrapping<->checked");
    disc!(rec, d, a.arithmetic_shr(nu) != vr, "shr:logical<->arithmetic");
    disc!(rec, d, n > 255 && vl != a.wrapping_shl(nu & 0xff), "amount:truncated_to_u8");
    disc!(rec, d, n > u32::MAX as u64 && vl != a.wrapping_shl(nu & 0xffff_ffff), "amount:truncated_to_u32");
    disc!(rec, d, B > 0 && n as u128 >= B as u128 && vl != a.wrapping_shl(nu % B.max(1)), "amount:std_masking");
    if d > 0 {
        rec.nontrivial(&c);
    }
    rec.sample(|| json!({"a": hexl(&c.l[0]), "n": n, "discriminating_mixups": d}));

    // primitive amount types (non-negative amounts only for the signed ones)
    shift_ty!(rec, a, n, usize, &rl, &rr);
    shift_ty!(rec, a, n, u8, &rl, &rr);
    shift_ty!(rec, a, n, u16, &rl, &rr);
    shift_ty!(rec, a, n, u32, &rl, &rr);
    shift_ty!(rec, a, n, u64, &rl, &rr);
    // negative amounts of the signed amount types: the operators forward `rhs as usize`
    // (sign-extended, i.e. a huge amount), so the reference is the inherent method at that amount
    {
        macro_rules! neg_ty {
            ($t:ident) => {
                if n > 0 {
                    let t: $t = (n.min(<$t>::MAX as u64) as $t).wrapping_neg();
                    if t < 0 {
                        let (nl, nr) = (catch(|| a.wrapping_shl(t as usize)), catch(|| a.wrapping_shr(t as usize)));
                        rec.class("amount_negative");
                        agree(rec, concat!("Shl<", stringify!($t), ">(negative)"), catch(|| a << t), &nl)?;
                        agree(rec, concat!("Shl<&", stringify!($t), ">(negative)"), catch(|| a << &t), &nl)?;
                        agree(rec, concat!("ShlAssign<", stringify!($t), ">(negative)"), catch(|| { let mut x = a; x <<= t; x }), &nl)?;
                        agree(rec, concat!("ShlAssign<&", stringify!($t), ">(negative)"), catch(|| { let mut x = a; x <<= &t; x }), &nl)?;
                        agree(rec, concat!("Shr<", stringify!($t), ">(negative)"), catch(|| a >> t), &nr)?;
                        agree(rec, concat!("Shr<&", stringify!($t), ">(negative)"), catch(|| a >> &t), &nr)?;
                        agree(rec, concat!("ShrAssign<", stringify!($t), ">(negative)"), catch(|| { let mut x = a; x >>= t; x }), &nr)?;
                        agree(rec, concat!("ShrAssign<&", stringify!($t), ">(negative)"), catch(|| { let mut x = a; x >>= &t; x }), &nr)?;
                    }
                }
            };
        }
        neg_ty!(isize);
        neg_ty!(i8);
        neg_ty!(i16);
        neg_ty!(i32);
        neg_ty!(i64);
    }
    shift_ty!(rec, a, n, isize, &rl, &rr);
    shift_ty!(rec, a, n, i8, &rl, &rr);
    shift_ty!(rec, a, n, i16, &rl, &rr);
    shift_ty!(rec, a, n, i32, &rl, &rr);
    shift_ty!(rec, a, n, i64, &rl, &rr);

    // Uint-typed amount: fits usize, or is >= 2^64 and corresponds to the saturated amount
    {
        let beyond = L >= 2 && m.as_limbs()[1..].iter().any(|x| *x != 0);
        rec.class_if(beyond, "uint_amount>=2^64");
        let mv = if L == 0 { 0usize } else if beyond { usize::MAX } else { m.as_limbs()[0] as usize };
        let ml = catch(|| a.wrapping_shl(mv));
        let mr = catch(|| a.wrapping_shr(mv));
        agree(rec, "Shl<Uint>", catch(|| a << m), &ml)?;
        agree(rec, "Shl<&Uint>", catch(|| a << &m), &ml)?;
        agree(rec, "ShlAssign<Uint>", catch(|| { let mut x = a; x <<= m; x }), &ml)?;
        agree(rec, "ShlAssign<&Uint>", catch(|| { let mut x = a; x <<= &m; x }), &ml)?;
        agree(rec, "Shr<Uint>", catch(|| a >> m), &mr)?;
        agree(rec, "Shr<&Uint>", catch(|| a >> &m), &mr)?;
        agree(rec, "ShrAssign<Uint>", catch(|| { let mut x = a; x >>= m; x }), &mr)?;
        agree(rec, "ShrAssign<&Uint>", catch(|| { let mut x = a; x >>= &m; x }), &mr)?;
        rec.class_if(ml != mr, "disc:uint_amount:shl<->shr");
    }

    // Bits wrapper: operator shapes and forwarded methods
    {
        let ba = Bits::from(a);
        agree(rec, "Bits::Shl<usize>(val)", catch(|| (ba << nu).into_inner()), &rl)?;
        agree(rec, "Bits::Shl<usize>(&ref)", catch(|| (&ba << nu).into_inner()), &rl)?;
        agree(rec, "Bits::Shl<&usize>(val)", catch(|| (ba << &nu).into_inner()), &rl)?;
        agree(rec, "Bits::Shl<&usize>(&ref)", catch(|| (&ba << &nu).into_inner()), &rl)?;
        agree(rec, "Bits::ShlAssign<usize>", catch(|| { let mut x = ba; x <<= nu; x.into_inner() }), &rl)?;
        agree(rec, "Bits::ShlAssign<&usize>", catch(|| { let mut x = ba; x <<= &nu; x.into_inner() }), &rl)?;
        agree(rec, "Bits::Shr<usize>(val)", catch(|| (ba >> nu).into_inner()), &rr)?;
        agree(rec, "Bits::Shr<usize>(&ref)", catch(|| (&ba >> nu).into_inner()), &rr)?;
        agree(rec, "Bits::Shr<&usize>(val)", catch(|| (ba >> &nu).into_inner()), &rr)?;
        agree(rec, "Bits::Shr<&usize>(&ref)", catch(|| (&ba >> &nu).into_inner()), &rr)?;
        agree(rec, "Bits::ShrAssign<usize>", catch(|| { let mut x = ba; x >>= nu; x.into_inner() }), &rr)?;
        agree(rec, "Bits::ShrAssign<&usize>", catch(|| { let mut x = ba; x >>= &nu; x.into_inner() }), &rr)?;

        agree(rec, "Bits::wrapping_shl", catch(|| ba.wrapping_shl(nu).into_inner()), &rl)?;
        agree(rec, "Bits::wrapping_shr", catch(|| ba.wrapping_shr(nu).into_inner()), &rr)?;
        agree(rec, "Bits::checked_shl", catch(|| ba.checked_shl(nu).map(Bits::into_inner)), &catch(|| a.checked_shl(nu)))?;
        agree(rec, "Bits::checked_shr", catch(|| ba.checked_shr(nu).map(Bits::into_inner)), &catch(|| a.checked_shr(nu)))?;
        agree(rec, "Bits::overflowing_shl", catch(|| { let (v, f) = ba.overflowing_shl(nu); (v.into_inner(), f) }), &catch(|| a.overflowing_shl(nu)))?;
        agree(rec, "Bits::overflowing_shr", catch(|| { let (v, f) = ba.overflowing_shr(nu); (v.into_inner(), f) }), &catch(|| a.overflowing_shr(nu)))?;
        agree(rec, "Bits::rotate_left", catch(|| ba.rotate_left(nu).into_inner()), &catch(|| a.rotate_left(nu)))?;
        agree(rec, "Bits::rotate_right", catch(|| ba.rotate_right(nu).into_inner()), &catch(|| a.rotate_right(nu)))?;
    }

    // num-traits surfaces taking a u32 amount; each forwards to the inherent
    // method of the same name with `n as usize` (ruint semantics, not std masking)
    if let Ok(n32) = u32::try_from(n) {
        let k = n32 as usize;
        agree(rec, "CheckedShl::checked_shl", catch(|| <U<B, L> as nt::CheckedShl>::checked_shl(&a, n32)), &catch(|| a.checked_shl(k)))?;
        agree(rec, "CheckedShr::checked_shr", catch(|| <U<B, L> as nt::CheckedShr>::checked_shr(&a, n32)), &catch(|| a.checked_shr(k)))?;
        agree(rec, "WrappingShl::wrapping_shl", catch(|| <U<B, L> as nt::WrappingShl>::wrapping_shl(&a, n32)), &rl)?;
        agree(rec, "WrappingShr::wrapping_shr", catch(|| <U<B, L> as nt::WrappingShr>::wrapping_shr(&a, n32)), &rr)?;
        agree(rec, "PrimInt::rotate_left", catch(|| <U<B, L> as nt::PrimInt>::rotate_left(a, n32)), &catch(|| a.rotate_left(k)))?;
        agree(rec, "PrimInt::rotate_right", catch(|| <U<B, L> as nt::PrimInt>::rotate_right(a, n32)), &catch(|| a.rotate_right(k)))?;
        agree(rec, "PrimInt::signed_shl", catch(|| <U<B, L> as nt::PrimInt>::signed_shl(a, n32)), &rl)?;
        agree(rec, "PrimInt::unsigned_shl", catch(|| <U<B, L> as nt::PrimInt>::unsigned_shl(a, n32)), &rl)?;
        agree(rec, "PrimInt::unsigned_shr", catch(|| <U<B, L> as nt::PrimInt>::unsigned_shr(a, n32)), &rr)?;
        agree(rec, "PrimInt::signed_shr", catch(|| <U<B, L> as nt::PrimInt>::signed_shr(a, n32)), &catch(|| a.arithmetic_shr(k)))?;
    }
    Ok(())
}

// ---------------------------------------------------------------------------
// rule "bits": the Bits wrapper (non-shift part)

fn strat_bits(bits: usize) -> BoxedStrategy<Case> {
    let nl = nlimbs(bits);
    let nb = (bits + 7) / 8;
    (pair(bits), limbs(nl), index_around(bits, 70), text(bits), bytes_for(bits), prop_oneof![3 => uint(bits).prop_map(move |a| le_bytes_of(&a, nb)), 1 => vec(byte(), nb)], any::<bool>())
        .prop_map(move |((a, b, k), raw, idx, (s, radix, fs), bytes, arr, arr_rev)| {
            let mut arr = arr;
            if arr_rev {
                arr.reverse();
            }
            Case::new().l(a).l(b).l(raw).n(k).n(idx).n(radix).b(bytes).b(arr).s(s).s(fs)
        })
        .boxed()
}

fn body_bits<const B: usize, const L: usize, const NB: usize>(c: &Case, rec: &mut Rec) -> R {
    let a: U<B, L> = mk(&c.l[0]);
    let b: U<B, L> = mk(&c.l[1]);
    let raw: [u64; L] = {
        let mut r = [0u64; L];
        for (i, x) in c.l[2].iter().take(L).enumerate() {
            r[i] = *x;
        }
        r
    };
    let idx = c.n[1] as usize;
    let radix = c.n[2];
    let bytes: &[u8] = &c.b[0];
    let arr: [u8; NB] = {
        let mut r = [0u8; NB];
        for (i, x) in c.b[1].iter().take(NB).enumerate() {
            r[i] = *x;
        }
        r
    };
    let (s, fs) = (c.s[0].as_str(), c.s[1].as_str());
    let ba = Bits::from(a);
    let bb = Bits::from(b);
    rec.class(pair_class(c.n[0]));

    // discrimination
    let mut d = 0u32;
    disc!(rec, d, a.leading_zeros() != a.trailing_zeros(), "leading<->trailing_zeros");
    disc!(rec, d, a.leading_zeros() != a.leading_ones(), "zeros<->ones");
    disc!(rec, d, a.to_le_bytes_vec() != a.to_be_bytes_vec(), "le<->be(to_bytes)");
    disc!(rec, d, catch(|| U::<B, L>::try_from_le_slice(bytes)) != catch(|| U::<B, L>::try_from_be_slice(bytes)), "le<->be(from_slice)");
    disc!(rec, d, catch(|| U::<B, L>::from_le_bytes::<NB>(arr)) != catch(|| U::<B, L>::from_be_bytes::<NB>(arr)), "le<->be(from_bytes)");
    disc!(rec, d, a != b, "operands_differ");
    disc!(rec, d, a.reverse_bits() != a, "reverse_bits_moves");
    disc!(rec, d, a.bit(idx), "bit_set_at_index");
    if d > 0 {
        rec.nontrivial(&c);
    }
    rec.sample(|| json!({"a": hexl(&c.l[0]), "b": hexl(&c.l[1]), "idx": idx, "radix": radix, "s": s, "bytes": hex_bytes(bytes), "discriminating_mixups": d}));

    // constants, conversions, accessors
    rec.eq("Bits::BITS", &Bits::<B, L>::BITS, &U::<B, L>::BITS)?;
    rec.eq("Bits::LIMBS", &Bits::<B, L>::LIMBS, &U::<B, L>::LIMBS)?;
    rec.eq("Bits::BYTES", &Bits::<B, L>::BYTES, &U::<B, L>::BYTES)?;
    rec.eq("Bits::ZERO", &Bits::<B, L>::ZERO.into_inner(), &U::<B, L>::ZERO)?;
    rec.eq("Bits::default", &Bits::<B, L>::default().into_inner(), &U::<B, L>::default())?;
    rec.eq("Bits::from(Uint)/into_inner", &ba.into_inner(), &a)?;
    rec.eq("Uint::from(Bits)", &<U<B, L> as From<Bits<B, L>>>::from(ba), &a)?;
    rec.eq("Into<Bits>/Into<Uint>", &{ let x: Bits<B, L> = a.into(); let y: U<B, L> = x.into(); y }, &a)?;
    rec.eq("Bits::as_uint", ba.as_uint(), &a)?;
    rec.eq("Bits::as_uint_mut", &{ let mut x = ba; *x.as_uint_mut() = b; x.into_inner() }, &b)?;
    rec.eq("Bits::as_limbs", ba.as_limbs(), a.as_limbs())?;
    rec.eq("Bits::as_limbs_mut", &{ let mut x = ba; unsafe { x.as_limbs_mut().copy_from_slice(b.as_limbs()) }; x.into_inner() }, &b)?;
    rec.eq("Bits::eq", &(ba == bb), &(a == b))?;
    rec.eq("Bits::ne", &(ba != bb), &(a != b))?;
    rec.eq("Bits::hash", &hash_of(&ba), &hash_of(&a))?;
    rec.eq("Bits::clone", &ba.clone().into_inner(), &a)?;

    // from_limbs: canonical limbs and raw (possibly non-canonical) limbs
    agree(rec, "Bits::from_limbs", catch(|| Bits::<B, L>::from_limbs(*a.as_limbs()).into_inner()), &catch(|| U::<B, L>::from_limbs(*a.as_limbs())))?;
    {
        let r = catch(|| U::<B, L>::from_limbs(raw));
        rec.class_if(r.is_err(), "from_limbs:rejects");
        agree(rec, "Bits::from_limbs", catch(|| Bits::<B, L>::from_limbs(raw).into_inner()), &r)?;
    }

    // forwarded unary methods
    agree(rec, "Bits::reverse_bits", catch(|| ba.reverse_bits().into_inner()), &catch(|| a.reverse_bits()))?;
    agree(rec, "Bits::leading_zeros", catch(|| ba.leading_zeros()), &catch(|| a.leading_zeros()))?;
    agree(rec, "Bits::leading_ones", catch(|| ba.leading_ones()), &catch(|| a.leading_ones()))?;
    agree(rec, "Bits::trailing_zeros", catch(|| ba.trailing_zeros()), &catch(|| a.trailing_zeros()))?;
    agree(rec, "Bits::trailing_ones", catch(|| ba.trailing_ones()), &catch(|| a.trailing_ones()))?;
    agree(rec, "Bits::as_le_bytes", catch(|| ba.as_le_bytes().into_owned()), &catch(|| a.as_le_bytes().into_owned()))?;
    agree(rec, "Bits::to_be_bytes_vec", catch(|| ba.to_be_bytes_vec()), &catch(|| a.to_be_bytes_vec()))?;
    agree(rec, "Bits::to_le_bytes", catch(|| ba.to_le_bytes::<NB>()), &catch(|| a.to_le_bytes::<NB>()))?;
    agree(rec, "Bits::to_be_bytes", catch(|| ba.to_be_bytes::<NB>()), &catch(|| a.to_be_bytes::<NB>()))?;

    // constructors from bytes
    {
        let r = catch(|| U::<B, L>::try_from_be_slice(bytes));
        rec.class(match &r { Ok(Some(_)) => "try_from_be_slice:Some", Ok(None) => "try_from_be_slice:None", Err(_) => "try_from_be_slice:panic" });
        agree(rec, "Bits::try_from_be_slice", catch(|| Bits::<B, L>::try_from_be_slice(bytes).map(Bits::into_inner)), &r)?;
        let r = catch(|| U::<B, L>::try_from_le_slice(bytes));
        rec.class(match &r { Ok(Some(_)) => "try_from_le_slice:Some", Ok(None) => "try_from_le_slice:None", Err(_) => "try_from_le_slice:panic" });
        agree(rec, "Bits::try_from_le_slice", catch(|| Bits::<B, L>::try_from_le_slice(bytes).map(Bits::into_inner)), &r)?;
        let r = catch(|| U::<B, L>::from_be_bytes::<NB>(arr));
        rec.class(if r.is_ok() { "from_be_bytes:ok" } else { "from_be_bytes:panic" });
        agree(rec, "Bits::from_be_bytes", catch(|| Bits::<B, L>::from_be_bytes::<NB>(arr).into_inner()), &r)?;
        let r = catch(|| U::<B, L>::from_le_bytes::<NB>(arr));
        rec.class(if r.is_ok() { "from_le_bytes:ok" } else { "from_le_bytes:panic" });
        agree(rec, "Bits::from_le_bytes", catch(|| Bits::<B, L>::from_le_bytes::<NB>(arr).into_inner()), &r)?;
    }

    // strings
    {
        let r = catch(|| U::<B, L>::from_str_radix(s, radix));
        rec.class(match &r { Ok(Ok(_)) => "from_str_radix:Ok", Ok(Err(_)) => "from_str_radix:Err", Err(_) => "from_str_radix:panic" });
        agree(rec, "Bits::from_str_radix", catch(|| Bits::<B, L>::from_str_radix(s, radix).map(Bits::into_inner)), &r)?;
        let r = catch(|| U::<B, L>::from_str(fs));
        rec.class(match &r { Ok(Ok(_)) => "from_str:Ok", Ok(Err(_)) => "from_str:Err", Err(_) => "from_str:panic" });
        agree(rec, "Bits::from_str", catch(|| Bits::<B, L>::from_str(fs).map(Bits::into_inner)), &r)?;
        agree(rec, "Bits::from_str(parse)", catch(|| fs.parse::<Bits<B, L>>().map(Bits::into_inner)), &r)?;
    }

    // Index, Not, bit operators
    agree(rec, "Bits::index", catch(|| ba[idx]), &catch(|| a.bit(idx)))?;
    rec.class_if(idx >= B, "index>=BITS");
    let r_not = catch(|| U::<B, L>::not(a));
    agree(rec, "Bits::Not(val)", catch(|| (!ba).into_inner()), &r_not)?;
    agree(rec, "Bits::Not(&ref)", catch(|| (!&ba).into_inner()), &r_not)?;
    let r_and: Result<U<B, L>, String> = Ok(limbwise(&a, &b, |x, y| x & y));
    let r_or: Result<U<B, L>, String> = Ok(limbwise(&a, &b, |x, y| x | y));
    let r_xor: Result<U<B, L>, String> = Ok(limbwise(&a, &b, |x, y| x ^ y));
    rec.class_if(r_and != r_or, "disc:and<->or");
    rec.class_if(r_and != r_xor, "disc:and<->xor");
    rec.class_if(r_or != r_xor, "disc:or<->xor");
    bits_binop6!(rec, a, b, "BitAnd", &, &=, &r_and);
    bits_binop6!(rec, a, b, "BitOr", |, |=, &r_or);
    bits_binop6!(rec, a, b, "BitXor", ^, ^=, &r_xor);

    // Zeroize (Uint and Bits)
    rec.eq("Zeroize(Uint)", &{ let mut x = a; Zeroize::zeroize(&mut x); x }, &U::<B, L>::ZERO)?;
    rec.eq("Zeroize(Bits)", &{ let mut x = ba; Zeroize::zeroize(&mut x); x.into_inner() }, &U::<B, L>::ZERO)?;
    Ok(())
}

// ---------------------------------------------------------------------------
// rule "num_traits": every num-traits impl except the shift traits (rule "shifts")

fn strat_nt(bits: usize) -> BoxedStrategy<Case> {
    let a_sel = prop_oneof![2 => pair(bits), 1 => (uint_smallish(bits), uint_smallish(bits)).prop_map(|(a, b)| (a, b, 9u64))];
    let exp = prop_oneof![4 => 0u64..=70, 1 => index_around(bits, 3), 1 => prop_oneof![Just(255u64), Just(256), Just(65535), Just(65536), Just(u32::MAX as u64)], 1 => any::<u32>().prop_map(|x| x as u64),
        // multiples of 2^BITS plus a little: exponents that wrap to something small in a narrow type
        1 => (1u64..8, 0u64..4).prop_map(move |(k, j)| ((k << bits.min(28)) + j).min(u32::MAX as u64))];
    (a_sel, uint(bits), limb(), limb(), text(bits), bytes_for(bits), exp)
        .prop_map(|((a, b, k), cc, p0, p1, (s, radix, _fs), bytes, e)| {
            Case::new().l(a).l(b).l(cc).n(k).n(p0).n(p1).n(radix).n(e).b(bytes).s(s)
        })
        .boxed()
}

/// ToPrimitive method against the plain TryFrom conversion.
macro_rules! to_prim {
    ($rec:expr, $a:expr, $m:ident, $t:ty) => {{
        let a = $a;
        let r = catch(|| <$t>::try_from(a).ok());
        $rec.class_if(matches!(r, Ok(Some(_))), concat!("ToPrimitive::", stringify!($m), ":Some"));
        agree($rec, concat!("ToPrimitive::", stringify!($m)), catch(|| nt::ToPrimitive::$m(&a)), &r)?;
    }};
}

/// FromPrimitive method and NumCast::from against the plain TryFrom conversion.
macro_rules! from_prim {
    ($rec:expr, $B:ident, $L:ident, $m:ident, $t:ty, $v:expr) => {{
        let v: $t = $v;
        let r = catch(|| U::<$B, $L>::try_from(v).ok());
        $rec.class_if(matches!(r, Ok(Some(_))), concat!("FromPrimitive::", stringify!($m), ":Some"));
        agree($rec, concat!("FromPrimitive::", stringify!($m)), catch(|| <U<$B, $L> as nt::FromPrimitive>::$m(v)), &r)?;
        agree($rec, concat!("NumCast::from<", stringify!($t), ">"), catch(|| <U<$B, $L> as nt::NumCast>::from(v)), &r)?;
    }};
}

fn body_nt<const B: usize, const L: usize>(c: &Case, rec: &mut Rec) -> R {
    type T<const B: usize, const L: usize> = U<B, L>;
    let a: U<B, L> = mk(&c.l[0]);
    let b: U<B, L> = mk(&c.l[1]);
    let cc: U<B, L> = mk(&c.l[2]);
    let (p0, p1, radix, exp) = (c.n[1], c.n[2], c.n[3], c.n[4]);
    let p128: u128 = (p1 as u128) << 64 | p0 as u128;
    let bytes: &[u8] = &c.b[0];
    let s = c.s[0].as_str();
    rec.class(pair_class(c.n[0]));
    rec.class_if(c.n[0] == 9, "gen:smallish");
    let bz = b.is_zero();
    rec.class_if(bz, "zero_divisor");

    // discrimination
    let mut d = 0u32;
    {
        let (oa, os, om) = (a.overflowing_add(b), a.overflowing_sub(b), a.overflowing_mul(b));
        disc!(rec, d, oa.1, "add:overflows(checked/wrapping/saturating differ)");
        disc!(rec, d, os.1, "sub:overflows(checked/wrapping/saturating differ)");
        disc!(rec, d, om.1, "mul:overflows(checked/wrapping/saturating differ)");
        disc!(rec, d, oa.0 != os.0, "add<->sub");
        disc!(rec, d, os.0 != b.wrapping_sub(a), "sub:swapped");
        disc!(rec, d, om.0 != oa.0, "mul<->add");
        if !bz {
            let (q, r) = a.div_rem(b);
            disc!(rec, d, q != r, "div<->rem");
            disc!(rec, d, !a.is_zero() && q != b.wrapping_div(a), "div:swapped");
        }
        disc!(rec, d, !a.is_zero(), "neg:overflows");
        disc!(rec, d, a.wrapping_mul(b).wrapping_add(cc) != a.wrapping_mul(cc).wrapping_add(b), "mul_add:args_swapped");
        disc!(rec, d, a.pow(b) != b.pow(a), "pow:swapped");
        disc!(rec, d, a.leading_zeros() != a.trailing_zeros(), "leading<->trailing_zeros");
        disc!(rec, d, a.count_ones() != a.count_zeros(), "count_ones<->zeros");
        disc!(rec, d, a.to_le_bytes_vec() != a.to_be_bytes_vec(), "le<->be(to_bytes)");
        disc!(rec, d, catch(|| T::<B, L>::try_from_le_slice(bytes)) != catch(|| T::<B, L>::try_from_be_slice(bytes)), "le<->be(from_slice)");
        disc!(rec, d, (p0 as i64) < 0, "from_i64<->from_u64");
        disc!(rec, d, (p128 as i128) < 0, "from_i128<->from_u128");
        disc!(rec, d, u64::try_from(a).is_ok() && i64::try_from(a).is_err(), "to_i64<->to_u64");
        disc!(rec, d, u128::try_from(a).is_ok() && u64::try_from(a).is_err(), "to_u64<->to_u128");
    }
    if d > 0 {
        rec.nontrivial(&c);
    }
    rec.sample(|| json!({"a": hexl(&c.l[0]), "b": hexl(&c.l[1]), "c": hexl(&c.l[2]), "p": format!("0x{p128:x}"), "radix": radix, "exp": exp, "s": s, "bytes": hex_bytes(bytes), "discriminating_mixups": d}));

    // identities and bounds
    rec.eq("Zero::zero", &<T<B, L> as nt::Zero>::zero(), &T::<B, L>::ZERO)?;
    rec.eq("Zero::is_zero", &nt::Zero::is_zero(&a), &(a == T::<B, L>::ZERO))?;
    rec.eq("Zero::set_zero", &{ let mut x = a; nt::Zero::set_zero(&mut x); x }, &T::<B, L>::ZERO)?;
    rec.eq("One::one", &<T<B, L> as nt::One>::one(), &T::<B, L>::ONE)?;
    rec.eq("One::is_one", &nt::One::is_one(&a), &(a == T::<B, L>::ONE))?;
    rec.eq("One::set_one", &{ let mut x = a; nt::One::set_one(&mut x); x }, &T::<B, L>::ONE)?;
    rec.eq("Bounded::min_value", &<T<B, L> as nt::Bounded>::min_value(), &T::<B, L>::MIN)?;
    rec.eq("Bounded::max_value", &<T<B, L> as nt::Bounded>::max_value(), &T::<B, L>::MAX)?;
    rec.eq("LowerBounded::min_value", &<T<B, L> as nt::bounds::LowerBounded>::min_value(), &T::<B, L>::MIN)?;
    rec.eq("UpperBounded::max_value", &<T<B, L> as nt::bounds::UpperBounded>::max_value(), &T::<B, L>::MAX)?;

    // checked / wrapping / saturating / overflowing arithmetic
    agree(rec, "CheckedAdd::checked_add", catch(|| nt::CheckedAdd::checked_add(&a, &b)), &catch(|| a.checked_add(b)))?;
    agree(rec, "CheckedSub::checked_sub", catch(|| nt::CheckedSub::checked_sub(&a, &b)), &catch(|| a.checked_sub(b)))?;
    agree(rec, "CheckedMul::checked_mul", catch(|| nt::CheckedMul::checked_mul(&a, &b)), &catch(|| a.checked_mul(b)))?;
    agree(rec, "CheckedDiv::checked_div", catch(|| nt::CheckedDiv::checked_div(&a, &b)), &catch(|| a.checked_div(b)))?;
    agree(rec, "CheckedRem::checked_rem", catch(|| nt::CheckedRem::checked_rem(&a, &b)), &catch(|| a.checked_rem(b)))?;
    agree(rec, "CheckedNeg::checked_neg", catch(|| nt::CheckedNeg::checked_neg(&a)), &catch(|| a.checked_neg()))?;
    agree(rec, "CheckedEuclid::checked_div_euclid", catch(|| nt::CheckedEuclid::checked_div_euclid(&a, &b)), &catch(|| a.checked_div(b)))?;
    agree(rec, "CheckedEuclid::checked_rem_euclid", catch(|| nt::CheckedEuclid::checked_rem_euclid(&a, &b)), &catch(|| a.checked_rem(b)))?;
    agree(
        rec,
        "CheckedEuclid::checked_div_rem_euclid",
        catch(|| nt::CheckedEuclid::checked_div_rem_euclid(&a, &b)),
        &catch(|| if b.is_zero() { None } else { Some(a.div_rem(b)) }),
    )?;
    agree(rec, "Euclid::div_euclid", catch(|| nt::Euclid::div_euclid(&a, &b)), &catch(|| a.wrapping_div(b)))?;
    agree(rec, "Euclid::rem_euclid", catch(|| nt::Euclid::rem_euclid(&a, &b)), &catch(|| a.wrapping_rem(b)))?;
    agree(rec, "Euclid::div_rem_euclid", catch(|| nt::Euclid::div_rem_euclid(&a, &b)), &catch(|| a.div_rem(b)))?;
    agree(rec, "WrappingAdd::wrapping_add", catch(|| nt::WrappingAdd::wrapping_add(&a, &b)), &catch(|| a.wrapping_add(b)))?;
    agree(rec, "WrappingSub::wrapping_sub", catch(|| nt::WrappingSub::wrapping_sub(&a, &b)), &catch(|| a.wrapping_sub(b)))?;
    agree(rec, "WrappingMul::wrapping_mul", catch(|| nt::WrappingMul::wrapping_mul(&a, &b)), &catch(|| a.wrapping_mul(b)))?;
    agree(rec, "WrappingNeg::wrapping_neg", catch(|| nt::WrappingNeg::wrapping_neg(&a)), &catch(|| a.wrapping_neg()))?;
    agree(rec, "SaturatingAdd::saturating_add", catch(|| nt::SaturatingAdd::saturating_add(&a, &b)), &catch(|| a.saturating_add(b)))?;
    agree(rec, "SaturatingSub::saturating_sub", catch(|| nt::SaturatingSub::saturating_sub(&a, &b)), &catch(|| a.saturating_sub(b)))?;
    agree(rec, "SaturatingMul::saturating_mul", catch(|| nt::SaturatingMul::saturating_mul(&a, &b)), &catch(|| a.saturating_mul(b)))?;
    agree(rec, "Saturating::saturating_add", catch(|| nt::Saturating::saturating_add(a, b)), &catch(|| a.saturating_add(b)))?;
    agree(rec, "Saturating::saturating_sub", catch(|| nt::Saturating::saturating_sub(a, b)), &catch(|| a.saturating_sub(b)))?;
    agree(rec, "OverflowingAdd::overflowing_add", catch(|| nt::ops::overflowing::OverflowingAdd::overflowing_add(&a, &b)), &catch(|| a.overflowing_add(b)))?;
    agree(rec, "OverflowingSub::overflowing_sub", catch(|| nt::ops::overflowing::OverflowingSub::overflowing_sub(&a, &b)), &catch(|| a.overflowing_sub(b)))?;
    agree(rec, "OverflowingMul::overflowing_mul", catch(|| nt::ops::overflowing::OverflowingMul::overflowing_mul(&a, &b)), &catch(|| a.overflowing_mul(b)))?;
    agree(rec, "Inv::inv", catch(|| nt::Inv::inv(a)), &catch(|| a.inv_ring()))?;
    rec.class_if(a.inv_ring().is_some(), "inv:Some");
    agree(rec, "MulAdd::mul_add", catch(|| nt::MulAdd::mul_add(a, b, cc)), &catch(|| a.wrapping_mul(b).wrapping_add(cc)))?;
    agree(rec, "MulAddAssign::mul_add_assign", catch(|| { let mut x = a; nt::MulAddAssign::mul_add_assign(&mut x, b, cc); x }), &catch(|| a.wrapping_mul(b).wrapping_add(cc)))?;
    agree(rec, "Pow<Self>::pow", catch(|| nt::Pow::pow(a, b)), &catch(|| T::<B, L>::pow(a, b)))?;

    // PrimInt::pow(u32): only exponents that fit the width (DESIGN: excluded otherwise)
    if let Ok(e32) = u32::try_from(exp) {
        if B >= 32 || (e32 as u64) < (1u64 << B) {
            rec.class("PrimInt::pow:checked");
            let r = catch(|| T::<B, L>::pow(a, T::<B, L>::from(e32)));
            agree(rec, "PrimInt::pow", catch(|| <T<B, L> as nt::PrimInt>::pow(a, e32)), &r)?;
            rec.class_if(r != catch(|| a.saturating_pow(T::<B, L>::from(e32))), "disc:pow:wrapping<->saturating");
        } else {
            // the exponent is not representable in Self, so there is no inherent call with the
            // same arguments: the facade may panic (the pinned tree does: Self::from(exp)), or
            // return a^exp mod 2^BITS as the inherent methods define it (computed here by
            // square-and-multiply over the inherent wrapping_mul); any other value is a wrong
            // forward
            rec.class("PrimInt::pow:exponent_beyond_width");
            rec.eval(1);
            match catch(|| <T<B, L> as nt::PrimInt>::pow(a, e32)) {
                Err(_) => rec.class("PrimInt::pow:exponent_beyond_width:panics"),
                Ok(got) => {
                    let mut acc = if B == 0 { T::<B, L>::ZERO } else { T::<B, L>::from(1u8) };
                    for i in (0..32).rev() {
                        acc = acc.wrapping_mul(acc);
                        if (e32 >> i) & 1 == 1 {
                            acc = acc.wrapping_mul(a);
                        }
                    }
                    rec.ensure("PrimInt::pow", "differs_from_inherent", got == acc, || format!("pow({a}, {e32}) with an exponent beyond the width: facade {got}, inherent multiplication gives {acc}"))?;
                }
            }
        }
    }

    // Num::from_str_radix (u32 radix widened to the inherent u64 radix)
    {
        let r32 = radix as u32;
        let r = catch(|| T::<B, L>::from_str_radix(s, r32 as u64));
        rec.class(match &r { Ok(Ok(_)) => "from_str_radix:Ok", Ok(Err(_)) => "from_str_radix:Err", Err(_) => "from_str_radix:panic" });
        agree(rec, "Num::from_str_radix", catch(|| <T<B, L> as nt::Num>::from_str_radix(s, r32)), &r)?;
    }

    // bytes
    {
        let r = catch(|| T::<B, L>::try_from_le_slice(bytes));
        rec.class(match &r { Ok(Some(_)) => "try_from_le_slice:Some", Ok(None) => "try_from_le_slice:None", Err(_) => "try_from_le_slice:panic" });
        agree_unwrap(rec, "FromBytes::from_le_bytes", catch(|| <T<B, L> as nt::FromBytes>::from_le_bytes(bytes)), &r)?;
        agree_unwrap(rec, "FromBytes::from_ne_bytes", catch(|| <T<B, L> as nt::FromBytes>::from_ne_bytes(bytes)), &r)?;
        let r = catch(|| T::<B, L>::try_from_be_slice(bytes));
        rec.class(match &r { Ok(Some(_)) => "try_from_be_slice:Some", Ok(None) => "try_from_be_slice:None", Err(_) => "try_from_be_slice:panic" });
        agree_unwrap(rec, "FromBytes::from_be_bytes", catch(|| <T<B, L> as nt::FromBytes>::from_be_bytes(bytes)), &r)?;
        agree(rec, "ToBytes::to_le_bytes", catch(|| nt::ToBytes::to_le_bytes(&a)), &catch(|| a.to_le_bytes_vec()))?;
        agree(rec, "ToBytes::to_be_bytes", catch(|| nt::ToBytes::to_be_bytes(&a)), &catch(|| a.to_be_bytes_vec()))?;
        agree(rec, "ToBytes::to_ne_bytes", catch(|| nt::ToBytes::to_ne_bytes(&a)), &catch(|| a.to_le_bytes_vec()))?;
    }

    // PrimInt bit queries
    agree(rec, "PrimInt::count_ones", catch(|| nt::PrimInt::count_ones(a) as usize), &catch(|| a.count_ones()))?;
    agree(rec, "PrimInt::count_zeros", catch(|| nt::PrimInt::count_zeros(a) as usize), &catch(|| a.count_zeros()))?;
    agree(rec, "PrimInt::leading_zeros", catch(|| nt::PrimInt::leading_zeros(a) as usize), &catch(|| a.leading_zeros()))?;
    agree(rec, "PrimInt::leading_ones", catch(|| nt::PrimInt::leading_ones(a) as usize), &catch(|| a.leading_ones()))?;
    agree(rec, "PrimInt::trailing_zeros", catch(|| nt::PrimInt::trailing_zeros(a) as usize), &catch(|| a.trailing_zeros()))?;
    agree(rec, "PrimInt::trailing_ones", catch(|| nt::PrimInt::trailing_ones(a) as usize), &catch(|| a.trailing_ones()))?;
    agree(rec, "PrimInt::reverse_bits", catch(|| nt::PrimInt::reverse_bits(a)), &catch(|| a.reverse_bits()))?;
    agree(rec, "PrimInt::from_le", catch(|| <T<B, L> as nt::PrimInt>::from_le(a)), &Ok(a))?;
    agree(rec, "PrimInt::to_le", catch(|| nt::PrimInt::to_le(a)), &Ok(a))?;
    if B % 8 == 0 {
        // swap_bytes is documented as not well defined otherwise (excluded)
        let sw: Result<T<B, L>, String> = Ok(mk::<B, L>(&swap_bytes_ref(&c.l[0], B)));
        rec.class_if(sw != Ok(a), "disc:swap_bytes_moves");
        agree(rec, "PrimInt::swap_bytes", catch(|| nt::PrimInt::swap_bytes(a)), &sw)?;
        agree(rec, "PrimInt::from_be", catch(|| <T<B, L> as nt::PrimInt>::from_be(a)), &sw)?;
        agree(rec, "PrimInt::to_be", catch(|| nt::PrimInt::to_be(a)), &sw)?;
    }

    // ToPrimitive (integer targets; float defaults are ambiguous, see report)
    to_prim!(rec, a, to_u8, u8);
    to_prim!(rec, a, to_u16, u16);
    to_prim!(rec, a, to_u32, u32);
    to_prim!(rec, a, to_u64, u64);
    to_prim!(rec, a, to_u128, u128);
    to_prim!(rec, a, to_usize, usize);
    to_prim!(rec, a, to_i8, i8);
    to_prim!(rec, a, to_i16, i16);
    to_prim!(rec, a, to_i32, i32);
    to_prim!(rec, a, to_i64, i64);
    to_prim!(rec, a, to_i128, i128);
    to_prim!(rec, a, to_isize, isize);

    // FromPrimitive + NumCast (integer sources)
    from_prim!(rec, B, L, from_u8, u8, p0 as u8);
    from_prim!(rec, B, L, from_u16, u16, p0 as u16);
    from_prim!(rec, B, L, from_u32, u32, p0 as u32);
    from_prim!(rec, B, L, from_u64, u64, p0);
    from_prim!(rec, B, L, from_u128, u128, p128);
    from_prim!(rec, B, L, from_usize, usize, p0 as usize);
    from_prim!(rec, B, L, from_i8, i8, p0 as i8);
    from_prim!(rec, B, L, from_i16, i16, p0 as i16);
    from_prim!(rec, B, L, from_i32, i32, p0 as i32);
    from_prim!(rec, B, L, from_i64, i64, p0 as i64);
    from_prim!(rec, B, L, from_i128, i128, p128 as i128);
    from_prim!(rec, B, L, from_isize, isize, p0 as isize);
    // NumCast from the type itself: identity whenever the value fits u128 (the
    // ToPrimitive bridge cannot carry more; larger values are not asserted)
    if u128::try_from(a).is_ok() {
        rec.class("NumCast::from<Uint>:fits_u128");
        agree(rec, "NumCast::from<Uint>", catch(|| <T<B, L> as nt::NumCast>::from(a)), &Ok(Some(a)))?;
    }
    Ok(())
}

// ---------------------------------------------------------------------------
// rule "num_integer": num_integer::Integer

fn strat_pair(bits: usize) -> BoxedStrategy<Case> {
    pair(bits).prop_map(|(a, b, k)| Case::new().l(a).l(b).n(k)).boxed()
}

fn body_ni<const B: usize, const L: usize>(c: &Case, rec: &mut Rec) -> R {
    let a: U<B, L> = mk(&c.l[0]);
    let b: U<B, L> = mk(&c.l[1]);
    rec.class(pair_class(c.n[0]));
    let bz = b.is_zero();
    rec.class_if(bz, "zero_divisor");
    let r_gcd = catch(|| U::<B, L>::gcd(a, b));
    let r_lcm = catch(|| U::<B, L>::lcm(a, b));
    rec.class(match &r_lcm { Ok(Some(_)) => "lcm:Some", Ok(None) => "lcm:None(overflow)", Err(_) => "lcm:panic" });

    let mut d = 0u32;
    if !bz {
        let (q, r) = a.div_rem(b);
        disc!(rec, d, q != r, "div<->rem");
        disc!(rec, d, !a.is_zero() && q != b.wrapping_div(a), "div:swapped");
        disc!(rec, d, q != a.div_ceil(b), "div_floor<->div_ceil");
    }
    if let (Ok(g), Ok(Some(l))) = (&r_gcd, &r_lcm) {
        disc!(rec, d, g != l, "gcd<->lcm");
    }
    disc!(rec, d, matches!(r_lcm, Ok(None)), "lcm:overflow_must_panic");
    disc!(rec, d, B > 0, "even<->odd");
    if d > 0 {
        rec.nontrivial(&c);
    }
    rec.sample(|| json!({"a": hexl(&c.l[0]), "b": hexl(&c.l[1]), "discriminating_mixups": d}));

    agree(rec, "Integer::div_floor", catch(|| NI::div_floor(&a, &b)), &catch(|| a.wrapping_div(b)))?;
    agree(rec, "Integer::mod_floor", catch(|| NI::mod_floor(&a, &b)), &catch(|| a.wrapping_rem(b)))?;
    agree(rec, "Integer::div_rem", catch(|| NI::div_rem(&a, &b)), &catch(|| U::<B, L>::div_rem(a, b)))?;
    agree(rec, "Integer::div_mod_floor", catch(|| NI::div_mod_floor(&a, &b)), &catch(|| U::<B, L>::div_rem(a, b)))?;
    agree(rec, "Integer::div_ceil", catch(|| NI::div_ceil(&a, &b)), &catch(|| U::<B, L>::div_ceil(a, b)))?;
    agree(rec, "Integer::gcd", catch(|| NI::gcd(&a, &b)), &r_gcd)?;
    agree_unwrap(rec, "Integer::lcm", catch(|| NI::lcm(&a, &b)), &r_lcm)?;
    {
        // default method: (gcd, lcm)
        let r = match (&r_gcd, &r_lcm) {
            (Ok(g), Ok(Some(l))) => Ok((*g, *l)),
            _ => Err("gcd or lcm fails".to_string()),
        };
        agree(rec, "Integer::gcd_lcm", catch(|| NI::gcd_lcm(&a, &b)), &r)?;
    }
    {
        let r = catch(|| { let (g, x, y, _s) = U::<B, L>::gcd_extended(a, b); (g, x, y) });
        agree(rec, "Integer::extended_gcd", catch(|| { let e = NI::extended_gcd(&a, &b); (e.gcd, e.x, e.y) }), &r)?;
    }
    {
        // definition: multiple of zero only if zero; otherwise remainder zero
        let r = catch(|| if b.is_zero() { a.is_zero() } else { a.wrapping_rem(b).is_zero() });
        rec.class_if(r == Ok(true), "is_multiple_of:true");
        agree(rec, "Integer::is_multiple_of", catch(|| NI::is_multiple_of(&a, &b)), &r)?;
        agree(rec, "Integer::divides", catch(|| NI::divides(&a, &b)), &r)?;
    }
    agree(rec, "Integer::is_even", catch(|| NI::is_even(&a)), &catch(|| !a.bit(0)))?;
    agree(rec, "Integer::is_odd", catch(|| NI::is_odd(&a)), &catch(|| a.bit(0)))?;
    agree(rec, "Integer::inc", catch(|| { let mut x = a; NI::inc(&mut x); x }), &catch(|| a.wrapping_add(U::<B, L>::ONE)))?;
    agree(rec, "Integer::dec", catch(|| { let mut x = a; NI::dec(&mut x); x }), &catch(|| a.wrapping_sub(U::<B, L>::ONE)))?;
    Ok(())
}

// ---------------------------------------------------------------------------
// rule "subtle": constant-time comparisons, selection, negation, bit test

fn strat_subtle(bits: usize) -> BoxedStrategy<Case> {
    (pair(bits), any::<bool>(), index_around(bits, 70))
        .prop_map(|((a, b, k), ch, idx)| Case::new().l(a).l(b).n(k).n(ch as u64).n(idx))
        .boxed()
}

fn body_subtle<const B: usize, const L: usize>(c: &Case, rec: &mut Rec) -> R {
    let a: U<B, L> = mk(&c.l[0]);
    let b: U<B, L> = mk(&c.l[1]);
    let ch = (c.n[1] & 1) as u8;
    let idx = c.n[2] as usize;
    rec.class(pair_class(c.n[0]));
    rec.class(if a == b { "a==b" } else if a < b { "a<b" } else { "a>b" });
    rec.class(if ch == 1 { "choice=1" } else { "choice=0" });
    // limb-order sensitivity: the most significant differing limb says one thing,
    // the least significant differing limb the opposite
    let hi = (0..L).rev().find(|i| a.as_limbs()[*i] != b.as_limbs()[*i]);
    let lo = (0..L).find(|i| a.as_limbs()[*i] != b.as_limbs()[*i]);
    let order_sensitive = match (hi, lo) {
        (Some(h), Some(l)) => h != l && (a.as_limbs()[h] > b.as_limbs()[h]) != (a.as_limbs()[l] > b.as_limbs()[l]),
        _ => false,
    };
    let mut d = 0u32;
    disc!(rec, d, a != b, "gt<->lt,select_a<->b");
    disc!(rec, d, order_sensitive, "limb_order");
    disc!(rec, d, ch == 1 && !a.is_zero(), "negate_taken");
    disc!(rec, d, a.bit(idx), "bit_set_at_index");
    if d > 0 {
        rec.nontrivial(&c);
    }
    rec.sample(|| json!({"a": hexl(&c.l[0]), "b": hexl(&c.l[1]), "choice": ch, "idx": idx, "discriminating_mixups": d}));

    agree(rec, "ConstantTimeEq::ct_eq", catch(|| bool::from(a.ct_eq(&b))), &Ok(a == b))?;
    agree(rec, "ConstantTimeEq::ct_ne", catch(|| bool::from(a.ct_ne(&b))), &Ok(a != b))?;
    agree(rec, "ConstantTimeGreater::ct_gt", catch(|| bool::from(a.ct_gt(&b))), &Ok(a > b))?;
    agree(rec, "ConstantTimeLess::ct_lt", catch(|| bool::from(a.ct_lt(&b))), &Ok(a < b))?;
    agree(rec, "ConstantTimeGreater::ct_gt(swapped)", catch(|| bool::from(b.ct_gt(&a))), &Ok(b > a))?;
    agree(rec, "ConstantTimeLess::ct_lt(swapped)", catch(|| bool::from(b.ct_lt(&a))), &Ok(b < a))?;

    let sel = if ch == 1 { b } else { a };
    agree(rec, "ConditionallySelectable::conditional_select", catch(|| U::<B, L>::conditional_select(&a, &b, Choice::from(ch))), &Ok(sel))?;
    agree(rec, "ConditionallySelectable::conditional_assign", catch(|| { let mut x = a; x.conditional_assign(&b, Choice::from(ch)); x }), &Ok(sel))?;
    agree(
        rec,
        "ConditionallySelectable::conditional_swap",
        catch(|| { let (mut x, mut y) = (a, b); U::<B, L>::conditional_swap(&mut x, &mut y, Choice::from(ch)); (x, y) }),
        &Ok(if ch == 1 { (b, a) } else { (a, b) }),
    )?;
    agree(
        rec,
        "ConditionallyNegatable::conditional_negate",
        catch(|| { let mut x = a; x.conditional_negate(Choice::from(ch)); x }),
        &catch(|| if ch == 1 { a.wrapping_neg() } else { a }),
    )?;

    // bit_ct: documented to panic for index >= BITS, otherwise equals bit()
    let r = catch(|| bool::from(a.bit_ct(idx)));
    if idx < B {
        rec.class("bit_ct:in_range");
        agree(rec, "bit_ct", r, &catch(|| a.bit(idx)))?;
    } else {
        rec.class("bit_ct:out_of_range");
        rec.must_panic("bit_ct", r)?;
    }
    Ok(())
}

// ---------------------------------------------------------------------------

/// Like `reg_gen!` but for bodies with a third const parameter BYTES.
macro_rules! reg_gen3 {
    ($jobs:expr, $rule:expr, $cases:expr, $strat:expr, $body:ident; [$($b:literal),* $(,)?]) => {
        $(
            {
                let st = $strat;
                $jobs.gen($rule, $b, $cases, move || st($b), $body::<$b, { ruint::nlimbs($b) }, { ($b + 7) / 8 }>);
            }
        )*
    };
}

fn main() {
    selftest();
    let spec = PropSpec {
        id: "C20",
        rule_text: "Differential inside the library: reference = inherent Uint method (or plain ==,<,>; limb-wise &|^ and a byte-reversal oracle computed by the harness), subject = every facade. Rules: ops (optional impls with a primitive operand - Uint op u64/u128 for + - * / % & | ^ and PartialEq/PartialOrd with u64/u128 - probed by autoref dispatch at 10 widths and compared with the integers when a tree has them; six shapes of + - * / % & | ^, Neg/Not val/ref, Sum/Product over value and reference iterators incl. empty), shifts (<< >> value/ref/assign/ref-assign for usize,u8,u16,u32,u64,isize,i8,i16,i32,i64 with non-negative amounts, with negative amounts of the signed types (reference: the inherent method at `rhs as usize`, which is what the operator impls forward) and for Uint amounts that fit usize or are >= 2^64 with a small low limb (reference: the inherent method at the amount saturated to usize::MAX); Bits shift operators and forwarded shift/rotate methods; CheckedShl/Shr, WrappingShl/Shr, PrimInt rotate/signed/unsigned shifts), bits (all other forwarded Bits methods, constants, From/Into, Default, Eq/Hash, FromStr, from_str_radix, byte constructors, Index, Not, & | ^ shapes; Zeroize), num_traits (all non-shift impls incl. default methods with integer targets), num_integer (13 implemented methods + gcd_lcm + divides), subtle (ct_eq/ne/gt/lt, select/assign/swap, conditional_negate, bit_ct). Inputs: operand pairs from 9 classes (independent boundary-alphabet values, b=2^B-a+{-1,0,1}, a==b, b==0, a==0, one-limb b, b=a+-1, two limbs changed in opposite directions, both shifted down), amounts from index_around(BITS,70) plus integer-type truncation boundaries and huge values, byte strings around the canonical encodings, digit strings in radix 0..=64 and beyond. Non-trivial: the case discriminates, i.e. at least one plausible wrong forward (wrapping/checked/saturating sibling, swapped operands, div<->rem, shl<->shr, add<->sub, and<->or<->xor, rotate left<->right, le<->be, truncated amount, signed<->unsigned conversion ...) gives a different result than the correct inherent method on this input; per-kind counts are the `disc:*` classes.",
        assumptions: vec![
            "the inherent methods are the reference (decided independently by C01-C13); a defect shared by facade and inherent method is invisible here by construction",
            "x86-64 little-endian target only (to_ne/from_ne = le, to_be/from_be = swap_bytes)",
            "PrimInt::pow with an exponent that does not fit the width may panic or must equal a^exp mod 2^BITS by inherent multiplication; excluded: swap_bytes/from_be/to_be for BITS % 8 != 0",
            "not asserted (ambiguous mapping): ToPrimitive::to_f32/to_f64 and FromPrimitive::from_f32/from_f64 defaults, NumCast from floats and from Uint values above u128::MAX, Integer::next_multiple_of/prev_multiple_of defaults",
            "harness profile has debug-assertions and overflow-checks on",
        ],
        thorough_mult: 20,
    };
    main_with(
        spec,
        |jobs, _| {
            reg_gen!(jobs, "ops", 8000, strat_ops, body_ops; [0, 1, 2, 3, 7, 8, 16, 32, 60, 63, 64, 65, 96, 127, 128, 129, 160, 192, 255, 256, 257, 320, 512]);
            reg_gen!(jobs, "shifts", 8000, strat_shifts, body_shifts; [0, 1, 2, 3, 7, 8, 16, 32, 60, 63, 64, 65, 127, 128, 129, 192, 255, 256, 257, 320, 512]);
            reg_gen3!(jobs, "bits", 8000, strat_bits, body_bits; [0, 1, 2, 3, 7, 8, 16, 32, 60, 63, 64, 65, 96, 127, 128, 129, 160, 192, 255, 256, 257, 320, 512]);
            reg_gen!(jobs, "num_traits", 8000, strat_nt, body_nt; [0, 1, 2, 3, 7, 8, 16, 32, 60, 63, 64, 65, 72, 96, 127, 128, 129, 160, 192, 224, 255, 256, 257, 320, 512]);
            reg_gen!(jobs, "num_integer", 8000, strat_pair, body_ni; [0, 1, 2, 3, 7, 8, 16, 32, 60, 63, 64, 65, 127, 128, 129, 192, 255, 256, 257, 320, 512]);
            reg_gen!(jobs, "subtle", 8000, strat_subtle, body_subtle; [0, 1, 2, 3, 7, 8, 16, 32, 60, 63, 64, 65, 127, 128, 129, 192, 255, 256, 257, 320, 512]);
        },
        |_| {
            let mut m = Map::new();
            m.insert(
                "excluded_inputs".into(),
                json!([
                    "PrimInt::swap_bytes / from_be / to_be for BITS % 8 != 0 (documented as not well defined)",
                    "(none for shift amounts: Uint-typed amounts >= 2^64 are compared at the saturated amount)"
                ]),
            );
            m.insert(
                "not_asserted_ambiguous".into(),
                json!([
                    "ToPrimitive::to_f32/to_f64 (num-traits defaults via to_i64/to_u64: None above u64::MAX although f64::from(&Uint) succeeds)",
                    "FromPrimitive::from_f32/from_f64 (num-traits defaults truncate through i64/u64; TryFrom<f64> for Uint rounds and has a wider range)",
                    "NumCast::from for float sources and for Uint sources above u128::MAX (bridge is ToPrimitive::to_u128)",
                    "Integer::next_multiple_of / prev_multiple_of (num-integer defaults; the inherent next_multiple_of is DESIGN defect 1)",
                    "CheckedShl/CheckedShr/WrappingShl/WrappingShr: asserted against the inherent ruint methods of the same name (ruint semantics: no amount masking, None on lost bits), which differ from the std semantics quoted in the num-traits docs"
                ]),
            );
            m
        },
    );
}
