//! Check engine: jobs, recorder, proptest driver, exhaustive enumerator,
//! replay files, known findings, evidence writer, CLI.

use proptest::strategy::{BoxedStrategy, Strategy, ValueTree};
use proptest::test_runner::{Config, RngAlgorithm, TestCaseError, TestError, TestRng, TestRunner};
use serde_json::{json, Map, Value};
use std::cell::RefCell;
use std::collections::{BTreeMap, HashSet};
use std::hash::{Hash, Hasher};
use std::panic::{catch_unwind, AssertUnwindSafe};
use std::path::PathBuf;
use std::sync::atomic::{AtomicUsize, Ordering};
use std::sync::{Arc, Mutex};
use std::time::Instant;

// ---------------------------------------------------------------------------
// Case: the uniform container every rule's generated input is mapped into, so
// that replay files and shrinking are uniform across all rules.

#[derive(Clone, Debug, Default, PartialEq, Eq, Hash)]
pub struct Case {
    /// limb vectors (little endian)
    pub l: Vec<Vec<u64>>,
    /// scalar numbers
    pub n: Vec<u64>,
    /// byte strings
    pub b: Vec<Vec<u8>>,
    /// text strings
    pub s: Vec<String>,
}

impl Case {
    pub fn new() -> Self {
        Self::default()
    }
    pub fn l(mut self, v: Vec<u64>) -> Self {
        self.l.push(v);
        self
    }
    pub fn n(mut self, v: u64) -> Self {
        self.n.push(v);
        self
    }
    pub fn b(mut self, v: Vec<u8>) -> Self {
        self.b.push(v);
        self
    }
    pub fn s(mut self, v: String) -> Self {
        self.s.push(v);
        self
    }
    pub fn to_json(&self) -> Value {
        json!({
            "l": self.l.iter().map(|v| v.iter().map(|x| format!("0x{x:x}")).collect::<Vec<_>>()).collect::<Vec<_>>(),
            "n": self.n.iter().map(|x| format!("0x{x:x}")).collect::<Vec<_>>(),
            "b": self.b.iter().map(|v| hex_bytes(v)).collect::<Vec<_>>(),
            "s": self.s,
        })
    }
    pub fn from_json(v: &Value) -> Option<Self> {
        let pu = |x: &Value| -> Option<u64> {
            let s = x.as_str()?;
            u64::from_str_radix(s.strip_prefix("0x")?, 16).ok()
        };
        let mut c = Case::new();
        for lv in v.get("l")?.as_array()? {
            c.l.push(lv.as_array()?.iter().map(pu).collect::<Option<Vec<_>>>()?);
        }
        for x in v.get("n")?.as_array()? {
            c.n.push(pu(x)?);
        }
        for x in v.get("b")?.as_array()? {
            c.b.push(unhex_bytes(x.as_str()?)?);
        }
        for x in v.get("s")?.as_array()? {
            c.s.push(x.as_str()?.to_string());
        }
        Some(c)
    }
}

pub fn hex_bytes(v: &[u8]) -> String {
    let mut s = String::with_capacity(v.len() * 2);
    for b in v {
        s.push_str(&format!("{b:02x}"));
    }
    s
}

pub fn unhex_bytes(s: &str) -> Option<Vec<u8>> {
    if s.len() % 2 != 0 {
        return None;
    }
    (0..s.len() / 2)
        .map(|i| u8::from_str_radix(&s[2 * i..2 * i + 2], 16).ok())
        .collect()
}

// ---------------------------------------------------------------------------
// Failures

#[derive(Clone, Debug)]
pub struct Fail {
    /// which sub-check of the rule failed (usually the API function name)
    pub check: String,
    /// semantic class of the failure (used to match known findings)
    pub class: String,
    pub msg: String,
}

pub type R = Result<(), Fail>;

/// Run a closure that calls into the library, turning a panic into `Err(msg)`.
pub fn catch<T>(f: impl FnOnce() -> T) -> Result<T, String> {
    match catch_unwind(AssertUnwindSafe(f)) {
        Ok(v) => Ok(v),
        Err(e) => Err(panic_msg(&e)),
    }
}

pub fn panic_msg(e: &Box<dyn std::any::Any + Send>) -> String {
    if let Some(s) = e.downcast_ref::<&str>() {
        (*s).to_string()
    } else if let Some(s) = e.downcast_ref::<String>() {
        s.clone()
    } else {
        "<non-string panic>".to_string()
    }
}

// ---------------------------------------------------------------------------
// Known findings

#[derive(Clone, Debug)]
pub struct Known {
    pub property: String,
    pub id: String,
    pub status: String, // "known" | "fixed"
    pub check: String,
    pub class: String,
    pub what: String,
    pub commit: Option<String>,
    pub witness: Option<(String, usize, Case)>, // (rule, bits, case)
}

pub fn load_known(root: &PathBuf, property: &str) -> Vec<Known> {
    let p = root.join("known_findings.json");
    let Ok(txt) = std::fs::read_to_string(&p) else {
        return vec![];
    };
    let v: Value = match serde_json::from_str(&txt) {
        Ok(v) => v,
        Err(e) => {
            eprintln!("HARNESS-ERROR: cannot parse {}: {e}", p.display());
            std::process::exit(2);
        }
    };
    let mut out = vec![];
    for e in v.get("findings").and_then(|x| x.as_array()).cloned().unwrap_or_default() {
        let g = |k: &str| e.get(k).and_then(|x| x.as_str()).unwrap_or("").to_string();
        if g("property") != property {
            continue;
        }
        let witness = e.get("witness").and_then(|w| {
            Some((
                w.get("rule")?.as_str()?.to_string(),
                w.get("bits")?.as_u64()? as usize,
                Case::from_json(w.get("case")?)?,
            ))
        });
        out.push(Known {
            property: g("property"),
            id: g("id"),
            status: g("status"),
            check: g("check"),
            class: g("class"),
            what: g("what"),
            commit: e.get("commit").and_then(|x| x.as_str()).map(|s| s.to_string()),
            witness,
        });
    }
    out
}

// ---------------------------------------------------------------------------
// Recorder

const NT_CAP: usize = 3_000_000;

pub struct Rec {
    pub rule: &'static str,
    pub bits: usize,
    pub evals: u64,
    pub cases: u64,
    nt: HashSet<u64>,
    nt_capped: bool,
    pub classes: BTreeMap<&'static str, u64>,
    pub samples: Vec<Value>,
    pub excluded_known: BTreeMap<String, u64>,
    frozen: bool,
    strict: bool,
    known: Arc<Vec<Known>>,
    cur_nt: bool,
    sample_cap: usize,
}

/// "got .. expected .." for a mismatch. Formatting the value the library returned is itself a
/// library call (Debug of a non-canonical Uint panics), so it runs under catch_unwind.
fn describe<T: std::fmt::Debug>(got: &T, exp: &T) -> String {
    let g = std::panic::catch_unwind(std::panic::AssertUnwindSafe(|| format!("{got:?}"))).unwrap_or_else(|_| "<a value whose Debug formatting panics>".to_string());
    format!("got {g} expected {exp:?}")
}

impl Rec {
    pub fn new(rule: &'static str, bits: usize, known: Arc<Vec<Known>>, strict: bool) -> Self {
        Rec {
            rule,
            bits,
            evals: 0,
            cases: 0,
            nt: HashSet::new(),
            nt_capped: false,
            classes: BTreeMap::new(),
            samples: vec![],
            excluded_known: BTreeMap::new(),
            frozen: false,
            strict,
            known,
            cur_nt: false,
            sample_cap: 2,
        }
    }
    /// `n` oracle comparisons were made.
    #[inline]
    pub fn eval(&mut self, n: u64) {
        if !self.frozen {
            self.evals += n;
        }
    }
    /// Mark the current case as non-trivial by the property's stated rule;
    /// `key` identifies the case for distinct counting.
    pub fn nontrivial<K: Hash>(&mut self, key: &K) {
        if self.frozen {
            return;
        }
        self.cur_nt = true;
        if self.nt.len() >= NT_CAP {
            self.nt_capped = true;
            return;
        }
        let mut h = std::collections::hash_map::DefaultHasher::new();
        self.rule.hash(&mut h);
        self.bits.hash(&mut h);
        key.hash(&mut h);
        self.nt.insert(h.finish());
    }
    #[inline]
    pub fn class(&mut self, name: &'static str) {
        if !self.frozen {
            *self.classes.entry(name).or_insert(0) += 1;
        }
    }
    pub fn class_if(&mut self, cond: bool, name: &'static str) {
        if cond {
            self.class(name);
        }
    }
    /// Offer a sample (kept if the case is non-trivial and room is left).
    pub fn sample(&mut self, f: impl FnOnce() -> Value) {
        if !self.frozen && self.cur_nt && self.samples.len() < self.sample_cap {
            let mut v = f();
            if let Value::Object(m) = &mut v {
                m.insert("rule".into(), json!(self.rule));
                m.insert("bits".into(), json!(self.bits));
            }
            self.samples.push(v);
        }
    }
    /// Report an oracle mismatch. Returns Ok(()) when it is attributed to a
    /// listed known finding (and we are not in strict/replay mode).
    pub fn fail(&mut self, check: &str, class: &str, msg: String) -> R {
        if !self.strict {
            for k in self.known.iter() {
                if k.status == "known" && k.check == check && k.class == class {
                    if !self.frozen {
                        *self.excluded_known.entry(k.id.clone()).or_insert(0) += 1;
                    }
                    return Ok(());
                }
            }
        }
        Err(Fail { check: check.to_string(), class: class.to_string(), msg })
    }
    pub fn eq<T: PartialEq + std::fmt::Debug>(&mut self, check: &str, got: &T, exp: &T) -> R {
        self.eval(1);
        if got == exp {
            Ok(())
        } else {
            self.fail(check, "value_wrong", describe(got, exp))
        }
    }
    pub fn eqc<T: PartialEq + std::fmt::Debug>(&mut self, check: &str, class: &str, got: &T, exp: &T) -> R {
        self.eval(1);
        if got == exp {
            Ok(())
        } else {
            self.fail(check, class, describe(got, exp))
        }
    }
    pub fn ensure(&mut self, check: &str, class: &str, cond: bool, msg: impl FnOnce() -> String) -> R {
        self.eval(1);
        if cond {
            Ok(())
        } else {
            self.fail(check, class, msg())
        }
    }
    /// The library call must not panic: unwrap or fail with class `panic`.
    pub fn no_panic<T>(&mut self, check: &str, r: Result<T, String>) -> Result<T, Fail> {
        match r {
            Ok(v) => Ok(v),
            Err(m) => match self.fail(check, "panic", format!("unexpected panic: {m}")) {
                Ok(()) => Err(Fail { check: check.into(), class: "__known_skip".into(), msg: m }),
                Err(f) => Err(f),
            },
        }
    }
    /// The library call must panic.
    pub fn must_panic<T: std::fmt::Debug>(&mut self, check: &str, r: Result<T, String>) -> R {
        self.eval(1);
        match r {
            Err(_) => Ok(()),
            Ok(v) => self.fail(check, "no_panic", format!("expected a panic, got {v:?}")),
        }
    }
    fn begin_case(&mut self) {
        self.cur_nt = false;
        if !self.frozen {
            self.cases += 1;
        }
    }
}

/// Helper for bodies: a known-finding panic inside a multi-check body aborts the
/// rest of that case quietly.
pub fn skip_known(r: R) -> R {
    match r {
        Err(f) if f.class == "__known_skip" => Ok(()),
        x => x,
    }
}

// ---------------------------------------------------------------------------
// Jobs

pub type Body = fn(&Case, &mut Rec) -> R;
pub type StratFn = Box<dyn Fn() -> BoxedStrategy<Case> + Send + Sync>;
pub type EnumFn = Box<dyn Fn(&mut dyn FnMut(&Case) -> R) -> R + Send + Sync>;

pub enum Source {
    Gen(StratFn),
    Enum(EnumFn),
}

pub struct Job {
    pub rule: &'static str,
    pub bits: usize,
    /// cases at quick tier (Gen only)
    pub cases: u32,
    pub source: Source,
    pub body: Body,
    pub shard: u32,
    pub nshards: u32,
    pub shrink_iters: u32,
    /// Enum source only: true when the enumeration is a complete finite space
    pub complete: bool,
}

pub struct Jobs {
    pub v: Vec<Job>,
    /// 1 in the quick tier, `PropSpec::thorough_mult` in the thorough tier
    pub tier_mult: u32,
    /// proptest max_shrink_iters for jobs registered from now on (default 4000;
    /// lower it for rules whose body is expensive, e.g. compiles a program)
    pub shrink_iters: u32,
    /// cases per shard for jobs registered from now on (default 5000)
    pub shard_size: u32,
}

impl Jobs {
    /// Generated job; split in fixed-size shards so that the work list is long
    /// enough for 16 workers independent of the machine.
    pub fn gen(
        &mut self,
        rule: &'static str,
        bits: usize,
        cases: u32,
        strat: impl Fn() -> BoxedStrategy<Case> + Send + Sync + Clone + 'static,
        body: Body,
    ) {
        let total = cases.saturating_mul(self.tier_mult);
        let shard_size = self.shard_size.max(1);
        let nshards = ((total + shard_size - 1) / shard_size).max(1);
        for s in 0..nshards {
            let lo = (total as u64 * s as u64 / nshards as u64) as u32;
            let hi = (total as u64 * (s as u64 + 1) / nshards as u64) as u32;
            let st = strat.clone();
            self.v.push(Job {
                rule,
                bits,
                cases: hi - lo,
                source: Source::Gen(Box::new(move || st())),
                body,
                shard: s,
                nshards,
                shrink_iters: self.shrink_iters,
                complete: false,
            });
        }
    }
    pub fn enumerate(
        &mut self,
        rule: &'static str,
        bits: usize,
        en: impl Fn(&mut dyn FnMut(&Case) -> R) -> R + Send + Sync + 'static,
        body: Body,
    ) {
        self.v.push(Job { rule, bits, cases: 0, source: Source::Enum(Box::new(en)), body, shard: 0, nshards: 1, shrink_iters: self.shrink_iters, complete: true });
    }
    /// A fixed (deterministic, hand-built) list of cases that is NOT a complete
    /// enumeration of a space.
    pub fn fixed_list(
        &mut self,
        rule: &'static str,
        bits: usize,
        en: impl Fn(&mut dyn FnMut(&Case) -> R) -> R + Send + Sync + 'static,
        body: Body,
    ) {
        self.v.push(Job { rule, bits, cases: 0, source: Source::Enum(Box::new(en)), body, shard: 0, nshards: 1, shrink_iters: self.shrink_iters, complete: false });
    }
}

pub struct JobResult {
    pub rec: Rec,
    pub failure: Option<(Case, Fail)>,
    pub exhaustive: bool,
    pub wall: f64,
}

pub fn seed_for(seed: u64, prop: &str, rule: &str, bits: usize, shard: u32) -> [u8; 32] {
    // FNV-style mixing into 4 lanes; deterministic and stable across runs.
    let mut out = [0u8; 32];
    for lane in 0..4u64 {
        let mut h: u64 = 0xcbf29ce484222325 ^ seed.wrapping_mul(0x9E3779B97F4A7C15).wrapping_add(lane);
        let mut feed = |bs: &[u8]| {
            for b in bs {
                h ^= *b as u64;
                h = h.wrapping_mul(0x100000001b3);
            }
            h ^= h >> 29;
        };
        feed(prop.as_bytes());
        feed(&[0]);
        feed(rule.as_bytes());
        feed(&[0]);
        feed(&(bits as u64).to_le_bytes());
        feed(&shard.to_le_bytes());
        feed(&seed.to_le_bytes());
        out[lane as usize * 8..lane as usize * 8 + 8].copy_from_slice(&h.to_le_bytes());
    }
    out
}

fn run_body(body: Body, case: &Case, rec: &mut Rec) -> R {
    #[cfg(recmo_uint_verif)]
    ruint::verif_hooks::reset_steps();
    rec.begin_case();
    match catch(|| body(case, rec)) {
        Ok(r) => skip_known(r),
        Err(m) => {
            let class = if m.contains("recmo_uint_verif: step bound exceeded") { "step_bound" } else { "panic" };
            rec.fail("<uncaught>", class, format!("panic escaped the rule body: {m}"))
        }
    }
}

fn run_job(job: &Job, prop: &'static str, seed: u64, known: Arc<Vec<Known>>) -> JobResult {
    let t0 = Instant::now();
    let mut rec = Rec::new(job.rule, job.bits, known.clone(), false);
    let mut failure = None;
    let mut exhaustive = false;
    match &job.source {
        Source::Enum(en) => {
            exhaustive = job.complete;
            let mut first: Option<(Case, Fail)> = None;
            let body = job.body;
            let r = en(&mut |case: &Case| {
                let r = run_body(body, case, &mut rec);
                if let Err(f) = &r {
                    if first.is_none() {
                        first = Some((case.clone(), f.clone()));
                    }
                }
                r
            });
            if let Err(f) = r {
                failure = first.or(Some((Case::new(), f)));
            }
        }
        Source::Gen(mk) => {
            let strat = mk();
            let cfg = Config {
                cases: job.cases,
                failure_persistence: None,
                max_shrink_iters: job.shrink_iters,
                max_shrink_time: 0,
                fork: false,
                timeout: 0,
                verbose: 0,
                source_file: None,
                max_local_rejects: 1 << 16,
                max_global_rejects: 1 << 16,
                ..Config::default()
            };
            let rng = TestRng::from_seed(RngAlgorithm::ChaCha, &seed_for(seed, prop, job.rule, job.bits, job.shard));
            let mut runner = TestRunner::new_with_rng(cfg, rng);
            let cell = RefCell::new(&mut rec);
            let body = job.body;
            let res = runner.run(&strat, |case| {
                let mut g = cell.borrow_mut();
                match run_body(body, &case, &mut g) {
                    Ok(()) => Ok(()),
                    Err(f) => {
                        g.frozen = true;
                        Err(TestCaseError::fail(format!("{}:{}:{}", f.check, f.class, f.msg)))
                    }
                }
            });
            drop(cell);
            match res {
                Ok(()) => {}
                Err(TestError::Fail(_, case)) => {
                    // Recompute the structured failure on the shrunk case.
                    let mut r2 = Rec::new(job.rule, job.bits, known.clone(), false);
                    let f = match run_body(job.body, &case, &mut r2) {
                        Err(f) => f,
                        Ok(()) => Fail {
                            check: "<flaky>".into(),
                            class: "not_reproducible".into(),
                            msg: "shrunk case passed on re-run".into(),
                        },
                    };
                    failure = Some((case, f));
                }
                Err(TestError::Abort(reason)) => {
                    eprintln!("HARNESS-ERROR: proptest aborted in rule {} bits {}: {}", job.rule, job.bits, reason);
                    std::process::exit(2);
                }
            }
        }
    }
    JobResult { rec, failure, exhaustive, wall: t0.elapsed().as_secs_f64() }
}

// ---------------------------------------------------------------------------
// CLI + main driver

pub struct Args {
    pub tier: String,
    pub seed: u64,
    pub replay: Option<PathBuf>,
    pub only: Option<String>,
    pub root: PathBuf,
    pub threads: usize,
}

pub fn parse_args() -> Args {
    let mut a = Args {
        tier: std::env::var("VERIF_TIER").unwrap_or_else(|_| "quick".into()),
        seed: std::env::var("VERIF_SEED").ok().and_then(|s| s.trim().parse::<u64>().ok()).unwrap_or(0),
        replay: None,
        only: None,
        root: std::env::var("VERIF_ROOT")
            .map(PathBuf::from)
            .unwrap_or_else(|_| PathBuf::from(concat!(env!("CARGO_MANIFEST_DIR"), "/.."))),
        threads: 16,
    };
    let mut it = std::env::args().skip(1);
    while let Some(x) = it.next() {
        match x.as_str() {
            "--tier" => a.tier = it.next().expect("--tier value"),
            "--seed" => a.seed = it.next().expect("--seed value").parse().expect("seed int"),
            "--replay" => a.replay = Some(PathBuf::from(it.next().expect("--replay path"))),
            "--only" => a.only = it.next(),
            "--root" => a.root = PathBuf::from(it.next().expect("--root path")),
            "--threads" => a.threads = it.next().expect("n").parse().expect("int"),
            other => {
                eprintln!("HARNESS-ERROR: unknown argument {other}");
                std::process::exit(2);
            }
        }
    }
    if let Ok(c) = std::fs::canonicalize(&a.root) {
        a.root = c;
    }
    if a.tier != "quick" && a.tier != "thorough" {
        eprintln!("HARNESS-ERROR: tier must be quick or thorough");
        std::process::exit(2);
    }
    a
}

pub struct PropSpec {
    pub id: &'static str,
    /// generator + non-trivial rule description for the evidence file
    pub rule_text: &'static str,
    pub assumptions: Vec<&'static str>,
    /// multiplier applied to generated case counts in the thorough tier
    pub thorough_mult: u32,
}

/// Results of an additional engine run by the binary before `main_with` (e.g. the
/// generated-program part of C04); merged into evidence, counts and exit code.
#[derive(Default)]
pub struct ExtraResult {
    pub coverage: Map<String, Value>,
    pub violations: Vec<(String, PathBuf)>,
    pub evaluations: u64,
    pub nontrivial_hashes: Vec<u64>,
    pub samples: Vec<Value>,
    pub known_lines: Vec<String>,
}

static EXTRA: Mutex<Option<ExtraResult>> = Mutex::new(None);

pub fn set_extra(e: ExtraResult) {
    *EXTRA.lock().unwrap() = Some(e);
}

pub fn hook_counters() -> Value {
    #[cfg(recmo_uint_verif)]
    {
        let mut m = Map::new();
        for (i, name) in ruint::verif_hooks::NAMES.iter().enumerate() {
            // Safety of the cast: C is repr(usize) with contiguous discriminants.
            let c: ruint::verif_hooks::C = unsafe { std::mem::transmute(i) };
            let v = ruint::verif_hooks::get(c);
            if v > 0 {
                m.insert((*name).to_string(), json!(v));
            }
        }
        Value::Object(m)
    }
    #[cfg(not(recmo_uint_verif))]
    {
        json!({})
    }
}

pub fn write_replay(root: &PathBuf, prop: &str, rule: &str, bits: usize, seed: u64, case: &Case, f: &Fail) -> PathBuf {
    let dir = root.join("replays").join(prop);
    let _ = std::fs::create_dir_all(&dir);
    let mut h = std::collections::hash_map::DefaultHasher::new();
    case.hash(&mut h);
    rule.hash(&mut h);
    bits.hash(&mut h);
    let name = format!("{}-{}-{:016x}.json", rule.replace(|c: char| !c.is_ascii_alphanumeric(), "_"), bits, h.finish());
    let path = dir.join(name);
    let v = json!({
        "property": prop,
        "rule": rule,
        "bits": bits,
        "seed": seed,
        "check": f.check,
        "failure_class": f.class,
        "message": f.msg,
        "case": case.to_json(),
    });
    std::fs::write(&path, serde_json::to_string_pretty(&v).unwrap()).expect("write replay");
    path
}

/// Entry point used by every property binary.
///
/// `build` registers the jobs (it receives the tier multiplier through
/// `Jobs::tier_mult`); `finish` may add extra coverage keys.
pub fn main_with(spec: PropSpec, build: impl Fn(&mut Jobs, &Args), finish: impl Fn(&Args) -> Map<String, Value>) -> ! {
    let args = parse_args();
    std::panic::set_hook(Box::new(|_| {}));
    let t0 = Instant::now();
    let known = Arc::new(load_known(&args.root, spec.id));
    let mut jobs = Jobs { v: vec![], tier_mult: if args.tier == "thorough" { spec.thorough_mult } else { 1 }, shrink_iters: 4000, shard_size: 5000 };
    build(&mut jobs, &args);

    // ---- replay mode ----
    if let Some(path) = &args.replay {
        let txt = std::fs::read_to_string(path).unwrap_or_else(|e| {
            eprintln!("HARNESS-ERROR: cannot read replay {}: {e}", path.display());
            std::process::exit(2)
        });
        let v: Value = serde_json::from_str(&txt).unwrap_or_else(|e| {
            eprintln!("HARNESS-ERROR: cannot parse replay: {e}");
            std::process::exit(2)
        });
        let rule = v["rule"].as_str().unwrap_or("");
        let bits = v["bits"].as_u64().unwrap_or(0) as usize;
        let case = Case::from_json(&v["case"]).unwrap_or_else(|| {
            eprintln!("HARNESS-ERROR: malformed case in replay");
            std::process::exit(2)
        });
        let Some(job) = jobs.v.iter().find(|j| j.rule == rule && j.bits == bits) else {
            eprintln!("HARNESS-ERROR: no rule {rule} at bits {bits} in {}", spec.id);
            std::process::exit(2)
        };
        let mut rec = Rec::new(job.rule, job.bits, known.clone(), true);
        match run_body(job.body, &case, &mut rec) {
            Ok(()) => {
                println!("REPLAY-PASS property={} rule={rule} bits={bits}", spec.id);
                std::process::exit(0)
            }
            Err(f) => {
                println!("replay failure: check={} class={} {}", f.check, f.class, f.msg);
                println!("VIOLATION property={} replay={}", spec.id, path.display());
                std::process::exit(1)
            }
        }
    }

    if let Some(only) = &args.only {
        jobs.v.retain(|j| j.rule.contains(only.as_str()));
    }

    // ---- known findings: re-test witnesses ----
    let mut known_lines = vec![];
    let mut violations: Vec<(String, PathBuf)> = vec![];
    for k in known.iter() {
        let Some((rule, bits, case)) = &k.witness else { continue };
        let Some(job) = jobs.v.iter().find(|j| j.rule == rule && j.bits == *bits) else { continue };
        let mut rec = Rec::new(job.rule, job.bits, known.clone(), true);
        let r = run_body(job.body, case, &mut rec);
        match (k.status.as_str(), r) {
            ("known", Err(f)) if f.check == k.check && f.class == k.class => {
                known_lines.push(format!("KNOWN-FINDING: property={} {} [{}]", spec.id, k.what, k.id));
            }
            ("known", Err(f)) => {
                // witness fails differently than listed: that is a new violation
                let p = write_replay(&args.root, spec.id, rule, *bits, args.seed, case, &f);
                violations.push((format!("{}:{}", f.check, f.class), p));
            }
            ("known", Ok(())) => {
                eprintln!("note: known finding {} no longer reproduces on its witness", k.id);
            }
            ("fixed", Err(f)) => {
                // regression of a repaired defect
                let p = write_replay(&args.root, spec.id, rule, *bits, args.seed, case, &f);
                println!("regression of fixed finding {}: {} {}", k.id, f.check, f.msg);
                violations.push((format!("{}:{}", f.check, f.class), p));
            }
            _ => {}
        }
    }

    // ---- run jobs on a fixed-size pool ----
    let njobs = jobs.v.len();
    let next = AtomicUsize::new(0);
    let results: Mutex<Vec<Option<JobResult>>> = Mutex::new((0..njobs).map(|_| None).collect());
    let jobs_ref = &jobs.v;
    let prop_id = spec.id;
    let seed = args.seed;
    std::thread::scope(|s| {
        for _ in 0..args.threads.max(1) {
            let known = known.clone();
            let next = &next;
            let results = &results;
            std::thread::Builder::new()
                .stack_size(64 << 20)
                .spawn_scoped(s, move || loop {
                    let i = next.fetch_add(1, Ordering::SeqCst);
                    if i >= njobs {
                        break;
                    }
                    let job = &jobs_ref[i];
                    match catch_unwind(AssertUnwindSafe(|| run_job(job, prop_id, seed, known.clone()))) {
                        Ok(r) => results.lock().unwrap()[i] = Some(r),
                        Err(e) => {
                            // a panic outside a rule body (generator, engine): harness bug, never a violation
                            println!(
                                "INCONCLUSIVE: harness error: panic outside rule body in job {}@{}: {}",
                                job.rule,
                                job.bits,
                                panic_msg(&e)
                            );
                            std::process::exit(2);
                        }
                    }
                })
                .expect("spawn");
        }
    });
    let results: Vec<JobResult> = results.into_inner().unwrap().into_iter().map(|x| x.expect("job result")).collect();

    // ---- merge ----
    let mut evals = 0u64;
    let mut cases = 0u64;
    let mut nt: HashSet<u64> = HashSet::new();
    let mut nt_capped = false;
    let mut classes: BTreeMap<String, u64> = BTreeMap::new();
    let mut per_rule: BTreeMap<String, (u64, u64, u64)> = BTreeMap::new(); // cases, evals, nontrivial
    let mut per_width: BTreeMap<usize, u64> = BTreeMap::new();
    let mut samples: Vec<Value> = vec![];
    let mut excluded: BTreeMap<String, u64> = BTreeMap::new();
    let mut exhaustive_sub: Vec<Value> = vec![];
    let mut all_exhaustive = njobs > 0;
    let mut slowest: Vec<(f64, String)> = vec![];
    let mut failing_jobs = 0u64;
    let mut extra_cov: Map<String, Value> = Map::new();
    for (job, r) in jobs.v.iter().zip(results.iter()) {
        evals += r.rec.evals;
        cases += r.rec.cases;
        nt_capped |= r.rec.nt_capped;
        let e = per_rule.entry(job.rule.to_string()).or_insert((0, 0, 0));
        e.0 += r.rec.cases;
        e.1 += r.rec.evals;
        e.2 += r.rec.nt.len() as u64;
        *per_width.entry(job.bits).or_insert(0) += r.rec.cases;
        for h in &r.rec.nt {
            nt.insert(*h);
        }
        for (k, v) in &r.rec.classes {
            *classes.entry((*k).to_string()).or_insert(0) += v;
        }
        for (k, v) in &r.rec.excluded_known {
            *excluded.entry(k.clone()).or_insert(0) += v;
        }
        if r.exhaustive {
            exhaustive_sub.push(json!({"rule": job.rule, "bits": job.bits, "cases": r.rec.cases}));
        } else {
            all_exhaustive = false;
        }
        slowest.push((r.wall, format!("{}@{}#{}", job.rule, job.bits, job.shard)));
        if let Some((case, f)) = &r.failure {
            let key = format!("{}:{}", f.check, f.class);
            let mut msg = f.msg.clone();
            if msg.len() > 300 {
                // cut at a character boundary: messages quote generated (non-ASCII) text
                let mut cut = 300;
                while !msg.is_char_boundary(cut) {
                    cut -= 1;
                }
                msg.truncate(cut);
                msg.push_str("...");
            }
            println!("failure in rule {} bits {}: check={} class={} {}", job.rule, job.bits, f.check, f.class, msg);
            failing_jobs += 1;
            if !violations.iter().any(|(k, _)| *k == key) {
                let p = write_replay(&args.root, spec.id, job.rule, job.bits, args.seed, case, f);
                violations.push((key, p));
            }
        }
    }
    // samples: spread over rules and widths (first sample of each job, round robin)
    {
        let mut seen_rules: BTreeMap<&str, usize> = BTreeMap::new();
        for (job, r) in jobs.v.iter().zip(results.iter()) {
            let c = seen_rules.entry(job.rule).or_insert(0);
            if *c < 3 {
                if let Some(s) = r.rec.samples.first() {
                    samples.push(s.clone());
                    *c += 1;
                }
            }
        }
        if samples.len() > 60 {
            let step = samples.len() as f64 / 60.0;
            samples = (0..60).map(|i| samples[(i as f64 * step) as usize].clone()).collect();
        }
        if samples.is_empty() {
            for r in results.iter() {
                if let Some(s) = r.rec.samples.first() {
                    samples.push(s.clone());
                    break;
                }
            }
        }
    }
    slowest.sort_by(|a, b| b.0.partial_cmp(&a.0).unwrap());
    slowest.truncate(5);

    if let Some(ex) = EXTRA.lock().unwrap().take() {
        evals += ex.evaluations;
        for h in ex.nontrivial_hashes {
            nt.insert(h);
        }
        for sm in ex.samples.into_iter().take(12) {
            samples.push(sm);
        }
        violations.extend(ex.violations);
        known_lines.extend(ex.known_lines);
        extra_cov = ex.coverage;
        all_exhaustive = false;
    }
    // dedupe violations by path
    violations.sort_by(|a, b| a.1.cmp(&b.1));
    violations.dedup_by(|a, b| a.1 == b.1);

    let mut cov = Map::new();
    cov.insert("evaluations".into(), json!(evals));
    cov.insert("distinct_nontrivial".into(), json!(nt.len()));
    cov.insert("rule".into(), json!(spec.rule_text));
    cov.insert("samples".into(), Value::Array(samples));
    cov.insert("cases".into(), json!(cases));
    cov.insert("exhaustive".into(), json!(all_exhaustive));
    cov.insert("exhaustive_subspaces".into(), Value::Array(exhaustive_sub));
    cov.insert("distinct_nontrivial_capped".into(), json!(nt_capped));
    cov.insert(
        "per_rule".into(),
        Value::Object(
            per_rule
                .iter()
                .map(|(k, v)| (k.clone(), json!({"cases": v.0, "evaluations": v.1, "nontrivial": v.2})))
                .collect(),
        ),
    );
    cov.insert(
        "per_width".into(),
        Value::Object(per_width.iter().map(|(k, v)| (k.to_string(), json!(v))).collect()),
    );
    cov.insert("classes".into(), Value::Object(classes.iter().map(|(k, v)| (k.clone(), json!(v))).collect()));
    cov.insert("branch_counters".into(), hook_counters());
    cov.insert("excluded_known".into(), Value::Object(excluded.iter().map(|(k, v)| (k.clone(), json!(v))).collect()));
    cov.insert("known_findings_reported".into(), json!(known_lines));
    cov.insert("jobs".into(), json!(njobs));
    cov.insert("failing_jobs".into(), json!(failing_jobs));
    cov.insert("slowest_jobs".into(), json!(slowest.iter().map(|(t, n)| format!("{n}: {t:.2}s")).collect::<Vec<_>>()));
    cov.insert("profile_debug_assertions".into(), json!(cfg!(debug_assertions)));
    for (k, v) in finish(&args) {
        cov.insert(k, v);
    }
    for (k, v) in extra_cov {
        cov.insert(k, v);
    }

    let ev = json!({
        "property_id": spec.id,
        "tier": args.tier,
        "seed": args.seed,
        "level": "exploration",
        "coverage": Value::Object(cov),
        "assumptions": spec.assumptions,
        "wall_s": t0.elapsed().as_secs_f64(),
        "violations": violations.len(),
    });
    if args.only.is_none() {
        // the `fast` profile (no debug assertions) repeats a thorough run; its evidence goes to a
        // separate directory so that evidence/<ID>.json always comes from the checked profile
        // (the uninstrumented repeat of the driver names its own directory)
        let sub = std::env::var("VERIF_EVIDENCE_SUBDIR").ok().filter(|s| !s.is_empty());
        let dir = args.root.join(sub.as_deref().unwrap_or(if cfg!(debug_assertions) { "evidence" } else { "evidence_fast" }));
        let _ = std::fs::create_dir_all(&dir);
        std::fs::write(dir.join(format!("{}.json", spec.id)), serde_json::to_string_pretty(&ev).unwrap())
            .expect("write evidence");
    }

    for l in &known_lines {
        println!("{l}");
    }
    println!(
        "{} tier={} seed={} cases={} evaluations={} distinct_nontrivial={} jobs={} wall={:.1}s",
        spec.id,
        args.tier,
        args.seed,
        cases,
        evals,
        nt.len(),
        njobs,
        t0.elapsed().as_secs_f64()
    );
    if violations.is_empty() {
        std::process::exit(0);
    }
    for (_, p) in &violations {
        println!("VIOLATION property={} replay={}", spec.id, p.display());
    }
    std::process::exit(1);
}

/// Report a problem of the harness itself (oracle self-test failed, tool
/// missing): exit 2, never a violation.
pub fn harness_error(msg: &str) -> ! {
    println!("INCONCLUSIVE: harness error: {msg}");
    std::process::exit(2)
}

/// Helper to build a BoxedStrategy<Case> from any strategy + mapper.
pub fn cases_of<S, F>(s: S, f: F) -> BoxedStrategy<Case>
where
    S: Strategy + 'static,
    F: Fn(S::Value) -> Case + 'static,
{
    s.prop_map(f).boxed()
}

/// Draw `n` values from a strategy deterministically (used by enumerators and
/// self-tests).
pub fn draw<S: Strategy>(s: &S, seed: u64, n: usize) -> Vec<S::Value> {
    let rng = TestRng::from_seed(RngAlgorithm::ChaCha, &seed_for(seed, "draw", "draw", 0, 0));
    let mut runner = TestRunner::new_with_rng(Config::default(), rng);
    (0..n).map(|_| s.new_tree(&mut runner).expect("tree").current()).collect()
}

/// Write an arbitrary JSON replay document (custom engines: C19, C04-B).
pub fn write_replay_value(root: &PathBuf, prop: &str, name_hint: &str, v: &Value) -> PathBuf {
    let dir = root.join("replays").join(prop);
    let _ = std::fs::create_dir_all(&dir);
    let mut h = std::collections::hash_map::DefaultHasher::new();
    v.to_string().hash(&mut h);
    let name = format!("{}-{:016x}.json", name_hint.replace(|c: char| !c.is_ascii_alphanumeric(), "_"), h.finish());
    let path = dir.join(name);
    std::fs::write(&path, serde_json::to_string_pretty(v).unwrap()).expect("write replay");
    path
}

/// Write the evidence file for a custom engine.
pub fn write_evidence(args: &Args, spec: &PropSpec, cov: Map<String, Value>, violations: usize, wall_s: f64) {
    let ev = json!({
        "property_id": spec.id,
        "tier": args.tier,
        "seed": args.seed,
        "level": "exploration",
        "coverage": Value::Object(cov),
        "assumptions": spec.assumptions,
        "wall_s": wall_s,
        "violations": violations,
    });
    let dir = args.root.join("evidence");
    let _ = std::fs::create_dir_all(&dir);
    std::fs::write(dir.join(format!("{}.json", spec.id)), serde_json::to_string_pretty(&ev).unwrap()).expect("write evidence");
}
