//! C12 — GCD, LCM, extended GCD, Lehmer matrices (DESIGN 4, C12).

use num_bigint::BigInt;
use num_integer::Integer;
use proptest::collection::vec;
use proptest::prelude::*;
use ruint::algorithms::LehmerMatrix as M;
use ruint::Uint;
use vcore::big::*;
use vcore::gen::*;
use vcore::*;

// ------------------------------------------------------------------ pair generators

/// Quotient sequences: mostly 1s (Fibonacci-like), occasionally one huge quotient, random small.
fn quotients() -> BoxedStrategy<Vec<BigUint>> {
    let small = prop_oneof![6 => Just(1u64), 2 => 1u64..4, 1 => 1u64..1000, 1 => any::<u32>().prop_map(|x| x as u64 | 1)];
    (vec(small, 1..700), prop::option::weighted(0.3, (0usize..700, 40usize..200, any::<u64>())), 0u8..3)
        .prop_map(|(qs, huge, style)| {
            let mut v: Vec<BigUint> = qs
                .into_iter()
                .map(|q| match style {
                    0 => BigUint::one(),
                    _ => BigUint::from(q),
                })
                .collect();
            if let Some((pos, bits, x)) = huge {
                let p = pos % v.len();
                v[p] = (BigUint::one() << bits) + BigUint::from(x);
            }
            v
        })
        .boxed()
}

/// Build (a, b) with a >= b < 2^bits from gcd g and a quotient sequence, bottom-up.
fn build_pair(g: &BigUint, qs: &[BigUint], bits: usize) -> (BigUint, BigUint) {
    let lim = pow2(bits);
    let (mut hi, mut lo) = (g.clone(), BigUint::zero());
    for q in qs {
        let next = q * &hi + &lo;
        if next >= lim {
            break;
        }
        lo = hi;
        hi = next;
    }
    (hi, lo)
}

fn strat(bits: usize) -> BoxedStrategy<Case> {
    let n = nlimbs(bits);
    if bits == 0 {
        return Just(Case::new().l(vec![]).l(vec![]).n(0)).boxed();
    }
    let indep = (uint(bits), uint(bits)).prop_map(|(a, b)| (a, b, 0u64));
    // g from {1, 2^k, large odd, alphabet}, quotient sequence controls the leading-word pattern
    let built = (uint(bits), 0u8..5, 0..bits, quotients(), any::<bool>()).prop_map(move |(gr, gk, k, qs, swap)| {
        let g = match gk {
            0 => BigUint::one(),
            1 => pow2(k / 2),
            2 => (big(&gr) >> (bits - bits / 3)) | BigUint::one(),
            3 => (big(&gr) >> (bits / 2)).max(BigUint::one()),
            _ => BigUint::from(3u32),
        };
        let g = if g >= pow2(bits) { BigUint::one() } else { g };
        let (a, b) = build_pair(&g, &qs, bits);
        let (a, b) = if swap { (b, a) } else { (a, b) };
        (limbs_of(&a, n), limbs_of(&b, n), 1u64)
    });
    // a = b, b +- 1, common 2^k factor
    let close = (uint_nz(bits), 0u8..5, 0..bits).prop_map(move |(a, k, sh)| {
        let ab = big(&a);
        let m = pow2(bits);
        let b = match k {
            0 => ab.clone(),
            1 => (&ab + 1u32) % &m,
            2 => &ab - 1u32,
            3 => (&ab << (sh / 2)) % &m,
            _ => &ab >> (sh / 2),
        };
        (a, limbs_of(&b, n), 2u64)
    });
    // pairs agreeing in their leading 64 / 128 bits
    let same_top = (uint_nz(bits), uint(bits), prop_oneof![Just(64usize), Just(128), Just(32), Just(96)]).prop_map(move |(a, r, keep)| {
        let ab = big(&a);
        let bl = bit_len(&ab);
        let b = if bl > keep {
            let low = bl - keep;
            ((&ab >> low) << low) | (big(&r) % pow2(low))
        } else {
            ab.clone()
        };
        (a, limbs_of(&b, n), 3u64)
    });
    let zeros = (uint(bits), 0u8..3).prop_map(move |(a, k)| match k {
        0 => (a, vec![0; n], 4u64),
        1 => (vec![0; n], a, 4u64),
        _ => (vec![0; n], vec![0; n], 4u64),
    });
    prop_oneof![3 => indep, 6 => built, 2 => close, 2 => same_top, 1 => zeros]
        .prop_map(|(a, b, k)| Case::new().l(a).l(b).n(k))
        .boxed()
}

fn enum_pairs(bits: usize, f: &mut dyn FnMut(&Case) -> R) -> R {
    let m = 1u64 << bits;
    for a in 0..m {
        for b in 0..m {
            let (la, lb) = if bits == 0 { (vec![], vec![]) } else { (vec![a], vec![b]) };
            f(&Case::new().l(la).l(lb).n(9))?;
        }
    }
    Ok(())
}

/// all pairs of values whose limbs come from a small alphabet (complete enumeration)
fn enum_alphabet_pairs(bits: usize, f: &mut dyn FnMut(&Case) -> R) -> R {
    let alpha: &[u64] = if nlimbs(bits) <= 2 { &LIMB_ALPHABET8 } else { &LIMB_ALPHABET5 };
    let vals = alphabet_values(bits, alpha);
    for la in &vals {
        for lb in &vals {
            f(&Case::new().l(la.clone()).l(lb.clone()).n(9))?;
        }
    }
    Ok(())
}

// ------------------------------------------------------------------ exact matrix application

/// (c, d) in exact signed arithmetic from the entries and the sign pattern.
fn apply_exact(m: &M, a: &BigUint, b: &BigUint) -> (BigInt, BigInt) {
    let (a, b) = (BigInt::from(a.clone()), BigInt::from(b.clone()));
    let (q0, q1, q2, q3) = (BigInt::from(m.0), BigInt::from(m.1), BigInt::from(m.2), BigInt::from(m.3));
    if m.4 {
        (&q0 * &a - &q1 * &b, &q3 * &b - &q2 * &a)
    } else {
        (&q1 * &b - &q0 * &a, &q2 * &a - &q3 * &b)
    }
}

/// The validity predicate of the property for a non-identity matrix on (a >= b).
fn matrix_valid(rec: &mut Rec, check: &str, m: &M, a: &BigUint, b: &BigUint) -> Result<Option<(BigUint, BigUint)>, Fail> {
    rec.eval(1);
    if *m == M::IDENTITY {
        return Ok(None);
    }
    let (c, d) = apply_exact(m, a, b);
    let zero = BigInt::zero();
    let ctx = || format!("matrix {m:?} on a={} b={} gives c={c} d={d}", hex(a), hex(b));
    if c < zero || d < zero {
        rec.fail(check, "negative_result", ctx())?;
        return Ok(None);
    }
    let (c, d) = (c.to_biguint().unwrap(), d.to_biguint().unwrap());
    if c < d {
        rec.fail(check, "c_less_than_d", ctx())?;
    }
    if &d >= b {
        rec.fail(check, "no_progress_d_ge_b", ctx())?;
    }
    if c.gcd(&d) != a.gcd(b) {
        rec.fail(check, "gcd_not_preserved", ctx())?;
    }
    Ok(Some((c, d)))
}

// ------------------------------------------------------------------ Uint-level body

fn body<const B: usize, const L: usize>(c: &Case, rec: &mut Rec) -> R {
    type U<const B: usize, const L: usize> = Uint<B, L>;
    let a: U<B, L> = mk(&c.l[0]);
    let b: U<B, L> = mk(&c.l[1]);
    let (ab, bb) = (num(&a), num(&b));
    let two = pow2(B);
    let g = ab.gcd(&bb);
    rec.class(match c.n.first() { Some(0) => "gen:independent", Some(1) => "gen:quotient_sequence", Some(2) => "gen:close", Some(3) => "gen:same_leading_bits", Some(4) => "gen:zero", _ => "gen:enum" });

    // Lehmer matrix for (max, min)
    let (hi, lo) = if ab >= bb { (a, b) } else { (b, a) };
    let (hib, lob) = (num(&hi), num(&lo));
    let m = rec.no_panic("LehmerMatrix::from", catch(|| M::from(hi, lo)))?;
    let big_enough = ab.bits() > 32 && bb.bits() > 32 && ab != bb;
    rec.class_if(m == M::IDENTITY, "matrix_identity");
    if big_enough && m != M::IDENTITY {
        rec.nontrivial(&(&c.l[0], &c.l[1]));
    }
    rec.sample(|| json!({"a": hex(&ab), "b": hex(&bb), "gcd": hex(&g), "matrix": format!("{m:?}")}));
    if let Some((ce, de)) = matrix_valid(rec, "LehmerMatrix::from", &m, &hib, &lob)? {
        // `apply` returns the same pair
        let r = rec.no_panic("LehmerMatrix::apply", catch(|| { let (mut x, mut y) = (hi, lo); m.apply(&mut x, &mut y); (x, y) }))?;
        rec.eqc("LehmerMatrix::apply", "value_wrong", &(num(&r.0), num(&r.1)), &(ce, de))?;
    }
    if ab < bb {
        // documented: panics if b > a
        rec.must_panic("LehmerMatrix::from", catch(|| M::from(a, b)))?;
    }

    // gcd
    chk!(rec, "gcd", a.gcd(b), mkb::<B, L>(&g));
    chk!(rec, "gcd", b.gcd(a), mkb::<B, L>(&g));
    chk!(rec, "algorithms::gcd", ruint::algorithms::gcd(a, b), mkb::<B, L>(&g));

    // lcm
    let l = if g.is_zero() { BigUint::zero() } else { &ab * &bb / &g };
    let le: Option<U<B, L>> = if l < two { Some(mkb(&l)) } else { None };
    rec.class_if(le.is_none(), "lcm_overflows");
    chk!(rec, "lcm", a.lcm(b), le);
    chk!(rec, "lcm", b.lcm(a), le);

    // extended gcd
    let (ge, x, y, sign) = rec.no_panic("gcd_extended", catch(|| a.gcd_extended(b)))?;
    rec.eqc("gcd_extended", "gcd_wrong", &num(&ge), &g)?;
    let (xb, yb) = (num(&x), num(&y));
    rec.eval(1);
    if xb >= two || yb >= two {
        rec.fail("gcd_extended", "non_canonical", format!("cofactors not below 2^BITS: x={} y={}", hex(&xb), hex(&yb)))?;
    }
    let lhs = if sign {
        ((&ab * &xb) % &two + &two - (&bb * &yb) % &two) % &two
    } else {
        ((&bb * &yb) % &two + &two - (&ab * &xb) % &two) % &two
    };
    rec.class_if(sign, "bezout_sign_true");
    if lhs != &g % &two {
        rec.fail("gcd_extended", "bezout_identity", format!("a={} b={} x={} y={} sign={sign}: got {} expected gcd {}", hex(&ab), hex(&bb), hex(&xb), hex(&yb), hex(&lhs), hex(&g)))?;
    }
    let r = rec.no_panic("algorithms::gcd_extended", catch(|| ruint::algorithms::gcd_extended(a, b)))?;
    rec.eqc("algorithms::gcd_extended", "differs_from_method", &r, &(ge, x, y, sign))?;
    Ok(())
}

// ------------------------------------------------------------------ prefix matrices

fn strat_prefix(_: usize) -> BoxedStrategy<Case> {
    // leading words from a quotient sequence (so every selection outcome occurs), or raw
    let from_qs = (quotients(), any::<u64>(), any::<u64>()).prop_map(|(qs, x, y)| {
        let (a, b) = build_pair(&BigUint::one(), &qs, 192);
        let bl = bit_len(&a);
        let (a0, a1) = if bl >= 64 { ((&a >> (bl - 64)).to_u64().unwrap(), (&b >> (bl - 64)).to_u64().unwrap()) } else { (x | 1 << 63, y) };
        (a0, a1)
    });
    let raw = (limb(), limb(), 0u8..4).prop_map(|(a, b, k)| {
        let a0 = a | 1 << 63;
        let a1 = match k {
            0 => b,
            1 => a0,
            2 => a0 - (b >> 33),
            _ => b >> 20,
        };
        (a0, a1)
    });
    (prop_oneof![3 => from_qs, 2 => raw, 3 => borderline_prefix()], limbs(3), limbs(3), 0usize..=192, 0u8..4)
        .prop_map(|((a0, a1), x, y, k, ek)| {
            let (a0, a1) = if a1 > a0 { (a1 | 1 << 63, a0) } else { (a0, a1) };
            let (a0, a1) = if a1 > a0 { (a0, a0) } else { (a0, a1) };
            Case::new().n(a0).n(a1).n(k as u64).n(ek as u64).l(x).l(y)
        })
        .boxed()
}

/// Leading words constructed backwards from a quotient sequence so that the remainders the
/// single-word Lehmer step stops on sit exactly on (or one or two units beside) the boundary of
/// one of Jebelean's exactness conditions: with cofactors (u_i, v_i) of the sequence and final
/// remainders a2 >= 2^32 > a3, a0 = v3*a2 + v2*a3 and a1 = u3*a2 + u2*a3 reproduce the sequence,
/// and (a2, a3) is solved for a3 = t + d, a2 - a3 = t + d or (last quotient 1) a1' - a2 = t + d
/// where t is the cofactor sum the condition compares with.
fn borderline_prefix() -> BoxedStrategy<(u64, u64)> {
    let q = prop_oneof![6 => 1u128..4, 2 => 1u128..40, 1 => 1u128..2000];
    (vec(q, 40..90), 26u32..32, 0u8..3, -2i128..=2, any::<bool>(), any::<u64>(), 0u8..4)
        .prop_map(|(qs, t, cond, delta, flip, r, pos)| {
            const LIM: i128 = 1 << 32;
            const LO: i128 = 1 << 63;
            const HI: i128 = 1 << 64;
            let fallback = (r | 1 << 63, r >> 1);
            let (mut u, mut v) = (vec![1u128, 0], vec![0u128, 1]);
            let mut n = 0;
            for q in qs {
                let (nu, nv) = (u[u.len() - 2] + q * u[u.len() - 1], v[v.len() - 2] + q * v[v.len() - 1]);
                if nu >= 1 << 32 || nv >= 1 << 32 {
                    break;
                }
                u.push(nu);
                v.push(nv);
                n += 1;
                if n >= 3 && nv >= 1 << t {
                    break;
                }
            }
            if n < 3 {
                return fallback;
            }
            let i = u.len() - 1;
            let (u1, v1, u2, v2) = (u[i - 2] as i128, v[i - 2] as i128, u[i - 1] as i128, v[i - 1] as i128);
            let (mut u3, mut v3) = (u[i] as i128, v[i] as i128);
            // the code compares with u-sums or v-sums depending on the parity of the step count;
            // `flip` also produces the other choice
            let use_u = (n % 2 == 0) ^ flip;
            let pick = |lo: i128, hi: i128| -> Option<i128> {
                if lo > hi {
                    return None;
                }
                Some(match pos {
                    0 => lo,
                    1 => hi,
                    _ => lo + (r as i128) % (hi - lo + 1),
                })
            };
            let cdiv = |a: i128, b: i128| (a + b - 1).div_euclid(b);
            let (a2, a3) = match cond {
                0 | 2 => {
                    // a3 = t + delta; for cond 2 the last quotient is forced to 1, so a1' - a2 = a3
                    let t3 = if cond == 2 {
                        u3 = u1 + u2;
                        v3 = v1 + v2;
                        if use_u { u2 + u1 } else { v2 + v1 }
                    } else if use_u {
                        u3
                    } else {
                        v3
                    };
                    let a3 = (t3 + delta).clamp(0, LIM - 1);
                    let lo = cdiv(LO - v2 * a3, v3).max(LIM).max(a3 + 1);
                    let hi = (HI - 1 - v2 * a3).div_euclid(v3);
                    match pick(lo, hi) {
                        Some(a2) => (a2, a3),
                        None => return fallback,
                    }
                }
                _ => {
                    // a2 - a3 = t + delta
                    let d = (if use_u { u3 + u2 } else { v3 + v2 }) + delta;
                    if d < 1 {
                        return fallback;
                    }
                    let lo = cdiv(LO - v3 * d, v3 + v2).max(LIM - d).max(0);
                    let hi = (HI - 1 - v3 * d).div_euclid(v3 + v2).min(LIM - 1);
                    match pick(lo, hi) {
                        Some(a3) => (a3 + d, a3),
                        None => return fallback,
                    }
                }
            };
            let (a0, a1) = (v3 * a2 + v2 * a3, u3 * a2 + u2 * a3);
            if a0 < LO || a0 >= HI || a1 > a0 || a1 < 0 {
                return fallback;
            }
            (a0 as u64, a1 as u64)
        })
        .boxed()
}

/// extension A = a0*2^k + x, B = a1*2^k + y with x, y < 2^k and A >= B
fn extension(a0: &BigUint, a1: &BigUint, c: &Case) -> (BigUint, BigUint) {
    let k = c.n[2] as usize;
    let lowmask = pow2(k) - 1u32;
    let (mut x, mut y) = (big(&c.l[0]) & &lowmask, big(&c.l[1]) & &lowmask);
    match c.n[3] {
        0 => {}
        1 => { x = BigUint::zero(); y = lowmask.clone(); }
        2 => { x = lowmask.clone(); y = BigUint::zero(); }
        _ => { y = x.clone(); }
    }
    let a = (a0 << k) + x;
    let mut b = (a1 << k) + y;
    if b > a {
        b = (a1 << k) + (&a & &lowmask); // same low part: then A >= B iff a0 >= a1
    }
    (a, b)
}

fn body_prefix<const B: usize, const L: usize>(c: &Case, rec: &mut Rec) -> R {
    let (a0, a1) = (c.n[0], c.n[1]);
    assert!(a0 >> 63 == 1 && a1 <= a0);
    let m = rec.no_panic("from_u64_prefix", catch(|| M::from_u64_prefix(a0, a1)))?;
    rec.class_if(m == M::IDENTITY, "prefix_identity");
    let (ea, eb) = extension(&u(a0), &u(a1), c);
    if m != M::IDENTITY {
        rec.nontrivial(&(a0, a1, c.n[2], c.n[3], &c.l[0], &c.l[1]));
    }
    rec.sample(|| json!({"a0": format!("{a0:#x}"), "a1": format!("{a1:#x}"), "extension_bits": c.n[2], "A": hex(&ea), "B": hex(&eb), "matrix": format!("{m:?}")}));
    // entries below 2^32 is the domain in which compose cannot overflow (an implementation fact, not
    // part of the property: only counted, and compose is only checked inside that domain)
    let small_entries = m.0 < 1 << 32 && m.1 < 1 << 32 && m.2 < 1 << 32 && m.3 < 1 << 32;
    rec.class_if(!small_entries, "prefix_matrix_entry>=2^32");
    // valid on the prefix itself and on every generated extension
    matrix_valid(rec, "from_u64_prefix", &m, &u(a0), &u(a1))?;
    let after = matrix_valid(rec, "from_u64_prefix(extension)", &m, &ea, &eb)?;

    // from_u128_prefix on (a0:w, a1:w') shifted down by s bits (any r0 >= r1)
    let s = (c.n[2] % 64) as u32;
    let r0 = ((a0 as u128) << 64 | c.l[0][0] as u128) >> s;
    let r1 = (((a1 as u128) << 64 | c.l[1][0] as u128) >> s).min(r0);
    let m2 = rec.no_panic("from_u128_prefix", catch(|| M::from_u128_prefix(r0, r1)))?;
    let (fa, fb) = extension(&u128b(r0), &u128b(r1), c);
    matrix_valid(rec, "from_u128_prefix", &m2, &u128b(r0), &u128b(r1))?;
    matrix_valid(rec, "from_u128_prefix(extension)", &m2, &fa, &fb)?;
    // apply_u128 agrees with exact arithmetic (the result always fits: it is below r0)
    if m2 != M::IDENTITY {
        let (ce, de) = apply_exact(&m2, &u128b(r0), &u128b(r1));
        if let (Some(ce), Some(de)) = (ce.to_u128(), de.to_u128()) {
            chk!(rec, "apply_u128", m2.apply_u128(r0, r1), (ce, de));
        }
    }

    // compose: second prefix matrix computed on the leading words of the updated pair;
    // (second * first) applied at once equals sequential application
    if let Some((c1, d1)) = after {
        let bl = bit_len(&c1);
        if bl >= 64 && !d1.is_zero() {
            let (b0, b1) = ((&c1 >> (bl - 64)).to_u64().unwrap(), (&d1 >> (bl - 64)).to_u64().unwrap());
            let second = rec.no_panic("from_u64_prefix", catch(|| M::from_u64_prefix(b0, b1)))?;
            let second_small = second.0 < 1 << 32 && second.1 < 1 << 32 && second.2 < 1 << 32 && second.3 < 1 << 32;
            if second != M::IDENTITY && small_entries && second_small {
                rec.class("compose_checked");
                let (c2, d2) = apply_exact(&second, &c1, &d1);
                let composed = rec.no_panic("compose", catch(|| second.compose(m)))?;
                let (cc, dc) = apply_exact(&composed, &ea, &eb);
                rec.eqc("compose", "differs_from_sequential", &(cc, dc), &(c2, d2))?;
            }
        }
    }
    Ok(())
}

fn strat_u64(_: usize) -> BoxedStrategy<Case> {
    (limb(), limb(), 0u8..4)
        .prop_map(|(a, b, k)| {
            let (a, b) = match k {
                0 => (a, b),
                1 => (a, a),
                2 => (a, 0),
                _ => (a, b >> 32),
            };
            let (a, b) = if a >= b { (a, b) } else { (b, a) };
            Case::new().n(a).n(b)
        })
        .boxed()
}

fn body_u64<const B: usize, const L: usize>(c: &Case, rec: &mut Rec) -> R {
    let (r0, r1) = (c.n[0], c.n[1]);
    let m = rec.no_panic("from_u64", catch(|| M::from_u64(r0, r1)))?;
    if r1 != 0 {
        rec.nontrivial(&(r0, r1));
    }
    rec.sample(|| json!({"r0": format!("{r0:#x}"), "r1": format!("{r1:#x}"), "matrix": format!("{m:?}")}));
    // maps (r0, r1) to (gcd, 0)
    let (ce, de) = apply_exact(&m, &u(r0), &u(r1));
    let g = BigInt::from(u(r0).gcd(&u(r1)));
    rec.eqc("from_u64", "not_gcd_zero", &(ce, de), &(g, BigInt::zero()))?;
    chk!(rec, "apply_u128", m.apply_u128(r0 as u128, r1 as u128), (u(r0).gcd(&u(r1)).to_u128().unwrap(), 0u128));
    Ok(())
}

fn main() {
    let spec = PropSpec {
        id: "C12",
        rule_text: "pairs (a,b) per width from 5 generator classes: independent alphabet values; pairs built bottom-up from a gcd g in {1, 2^k, large odd, alphabet, 3} and a generated quotient sequence (all 1s = Fibonacci-like; mostly 1s with small random quotients; optionally one huge quotient of 40..200 bits), either order; a = b, b+-1, shifted copies (common 2^k factors); pairs agreeing in their leading 32/64/96/128 bits; (a,0), (0,b), (0,0); exhaustive for BITS <= 7 (all pairs) and for all pairs of values with limbs from {0,1,2,2^63-1,2^63,2^63+1,MAX-1,MAX} (2 limbs) / {0,1,2^63,MAX-1,MAX} (3 limbs) at 6 widths. Prefix matrices: leading words taken from generated quotient sequences, raw alphabet words, or constructed backwards from a quotient sequence so that the final remainders sit on or within 2 of the boundary of one of Jebelean's exactness conditions (a3 = cofactor, a2-a3 = cofactor sum, a1-a2 = cofactor sum), each checked on the prefix and on a generated extension A = a0*2^k + x, B = a1*2^k + y (k in 0..=192, x,y in {random, 0/max, max/0, equal}). Oracle: num-bigint gcd; lcm = a*b/g iff < 2^BITS; Bezout identity mod 2^BITS by `sign`; matrix validity in exact signed arithmetic (c,d >= 0, c >= d, d < b, gcd preserved), `apply`/`apply_u128`/`compose` against exact application. Non-trivial: a, b >= 2^32, a != b and the Lehmer matrix for the pair is not the identity (gcd rules); non-identity prefix matrix (prefix rules); r1 != 0 (from_u64). Distinct by inputs.",
        assumptions: vec![
            "num-bigint / num-integer gcd and signed arithmetic are correct (oracle)",
            "cofactor magnitudes of gcd_extended are not part of the property (only the identity mod 2^BITS)",
            "compose is only exercised on matrices produced by from_u64_prefix (entries < 2^32, the only domain the code produces)",
        ],
        thorough_mult: 30,
    };
    main_with(
        spec,
        |jobs, _| {
            reg_enum!(jobs, "gcd_all_pairs", enum_pairs, body; [0, 1, 2, 3, 4, 5, 6, 7]);
            reg_enum!(jobs, "gcd_limb_alphabet", enum_alphabet_pairs, body; [65, 127, 128, 129, 190, 192]);
            w_all!(reg_gen!(jobs, "gcd", 3000, strat, body;));
            reg_gen!(jobs, "gcd", 500, strat, body; [1024]);
            reg_gen!(jobs, "gcd", 150, strat, body; [2112]);
            jobs.gen("prefix", 0, 100_000, || strat_prefix(0), body_prefix::<0, 0>);
            jobs.gen("from_u64", 0, 40_000, || strat_u64(0), body_u64::<0, 0>);
        },
        |_| Map::new(),
    );
}
