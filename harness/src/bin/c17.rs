//! C17 — decoders are total on untrusted input (DESIGN 4, C17).
//!
//! One rule per decoder family; every rule feeds valid encodings, single-field
//! mutations of valid encodings and uniform random strings to the decoder and
//! compares the outcome (panic / error / accepted value / consumed bytes) with a
//! small reference decoder written from the format definition. The oracle is
//! one-directional: rejecting is always fine, accepting is only fine when the
//! reference says the input denotes exactly that value.

#![allow(clippy::too_many_arguments, clippy::type_complexity)]

use proptest::collection::vec;
use proptest::prelude::*;
use ruint::{Bits, Uint};
use std::cell::RefCell;
use std::collections::HashMap;
use vcore::big::*;
use vcore::gen::{bytes_upto, uint};
use vcore::*;

// ===========================================================================
// 1. Panic capture with location, class interning
// ===========================================================================

thread_local! {
    static LAST_LOC: RefCell<Option<(String, u32)>> = const { RefCell::new(None) };
    static INTERN: RefCell<HashMap<String, &'static str>> = RefCell::new(HashMap::new());
}

fn install_hook() {
    std::panic::set_hook(Box::new(|info| {
        let mut l = info.location().map(|l| (l.file().to_string(), l.line()));
        // A panic located in the standard library (e.g. `str::split_at`, `copy_from_slice`) is the
        // fault of whoever called std with bad arguments: walk the backtrace and attribute it to the
        // innermost frame that is neither std nor the panic machinery.
        if let Some((file, _)) = &mut l {
            if file.starts_with("/rustc/") || file.starts_with("library/") || file.contains("/library/core/") || file.contains("/library/std/") || file.contains("/library/alloc/") {
                let bt = std::backtrace::Backtrace::force_capture().to_string();
                if std_panic_caller_is_third_party(&bt) {
                    file.push_str(" [called from a registry crate]");
                } else {
                    *file = format!("{file} [std panic reached from ruint code]");
                }
            }
        }
        LAST_LOC.with(|x| *x.borrow_mut() = l);
    }));
}

const THIRD_PARTY: &[&str] = &[
    "alloy_rlp", "fastrlp", "rlp::", "parity_scale_codec", "ssz::", "ethereum_ssz", "borsh", "der::", "serde_json", "serde::", "bincode",
    "postgres_types", "bytes::", "num_bigint", "num_traits", "byte_slice_cast", "arrayvec", "hex::",
];

/// true iff the innermost non-std frame of the backtrace belongs to a third-party codec crate
fn std_panic_caller_is_third_party(bt: &str) -> bool {
    for line in bt.lines() {
        let t = line.trim();
        // frame lines look like "12: crate::path::function"; skip "at file:line" lines
        let Some((idx, sym)) = t.split_once(": ") else { continue };
        if idx.parse::<u32>().is_err() {
            continue;
        }
        let sym = sym.trim_start_matches('<');
        let is_std = ["std::", "core::", "alloc::", "rust_begin_unwind", "__rust", "rust_panic", "backtrace::", "_Unwind", "__libc", "_start", "main"]
            .iter()
            .any(|p| sym.starts_with(p));
        if is_std || sym.contains("install_hook") || sym.contains("panic") && !sym.contains("ruint") {
            continue;
        }
        return THIRD_PARTY.iter().any(|p| sym.starts_with(p) || sym.starts_with(&format!("<{p}")));
    }
    false
}

#[derive(Debug, Clone)]
struct Pan {
    msg: String,
    file: String,
    line: u32,
}

fn catch_loc<T>(f: impl FnOnce() -> T) -> Result<T, Pan> {
    LAST_LOC.with(|l| *l.borrow_mut() = None);
    match catch(f) {
        Ok(v) => Ok(v),
        Err(msg) => {
            let (file, line) = LAST_LOC.with(|l| l.borrow_mut().take()).unwrap_or(("<unknown>".into(), 0));
            Err(Pan { msg, file, line })
        }
    }
}

/// A panic is attributed to ruint unless its location is inside a registry
/// crate, the standard library or this harness.
fn in_ruint(file: &str) -> bool {
    if file.ends_with("[std panic reached from ruint code]") {
        return true;
    }
    !(file.contains("/.cargo/registry/")
        || file.starts_with("/rustc/")
        || file.starts_with("library/")
        || file.contains("harness/src/")
        || file.ends_with("bin/c17.rs")
        || file.ends_with("src/engine.rs"))
}

fn panic_kind(msg: &str) -> &'static str {
    if msg.contains("step bound exceeded") {
        "step_bound"
    } else if msg.contains("Value too large for this Uint") {
        "from_limbs_assert"
    } else if msg.contains("Value too large for Uint") {
        "value_too_large"
    } else if msg.starts_with("index out of bounds") {
        "index_oob"
    } else if msg.contains("when slicing") || msg.contains("char boundary") || msg.contains("byte index") {
        "str_slice"
    } else if msg.starts_with("range ") || msg.starts_with("slice index") || msg.contains("out of range for slice") {
        "slice_range"
    } else if msg.contains("attempt to add with overflow") {
        "add_overflow"
    } else if msg.contains("attempt to subtract with overflow") {
        "sub_overflow"
    } else if msg.contains("attempt to multiply with overflow") {
        "mul_overflow"
    } else if msg.contains("attempt to shift left with overflow") {
        "shl_overflow"
    } else if msg.contains("attempt to shift right with overflow") {
        "shr_overflow"
    } else if msg.contains("attempt to negate with overflow") {
        "neg_overflow"
    } else if msg.contains("divide by zero") || msg.contains("remainder with a divisor of zero") {
        "div_zero"
    } else if msg.contains("unwrap") || msg.contains("expect") {
        "unwrap"
    } else if msg.starts_with("assertion") {
        "assert"
    } else if msg.contains("mid > len") {
        "split_at"
    } else {
        "other"
    }
}

fn intern(s: String) -> &'static str {
    INTERN.with(|m| {
        let mut m = m.borrow_mut();
        if let Some(x) = m.get(&s) {
            return *x;
        }
        let l: &'static str = Box::leak(s.clone().into_boxed_str());
        m.insert(s, l);
        l
    })
}

fn cls(a: &str, b: &str, c: &str) -> &'static str {
    intern(format!("{a}:{b}:{c}"))
}

// ===========================================================================
// 2. Expectations and the common verdict
// ===========================================================================

#[derive(Clone, Debug)]
enum Exp {
    /// The input denotes `v` (< 2^BITS). `consumed`: bytes the encoding occupies
    /// (streaming decoders). `canon`: the encoding is the canonical one.
    Val { v: BigUint, consumed: Option<usize>, canon: bool },
    /// Accepted values must lie in lo..=hi (rounding conversions).
    Range { lo: BigUint, hi: BigUint },
    /// The input must be rejected; the string names why.
    Must(&'static str),
    /// No statement.
    Either,
}

#[derive(Clone, Debug)]
struct Ref {
    exp: Exp,
    /// the reference decoder got past the header
    past: bool,
}

fn rf(exp: Exp, past: bool) -> Ref {
    Ref { exp, past }
}

fn fits(v: &BigUint, bits: usize) -> bool {
    v.bits() as usize <= bits
}

fn val_or_oor(v: BigUint, bits: usize, consumed: Option<usize>, canon: bool) -> Exp {
    if fits(&v, bits) {
        Exp::Val { v, consumed, canon }
    } else {
        Exp::Must("out_of_range")
    }
}

fn nb(bits: usize) -> usize {
    (bits + 7) / 8
}

fn fast_path_width(bits: usize) -> bool {
    bits % 64 != 0 && nb(bits) % 8 == 0
}

struct Cx<'a> {
    /// decoder name (failure `check`)
    check: &'a str,
    /// the byte-slice constructor this decoder goes through (root cause attribution of defect #6)
    via: &'static str,
    /// decoder enforces canonical encodings
    strict: bool,
    /// (panic kind, descriptive name): used when the input matches a specific root cause
    hint: Option<(&'static str, &'static str)>,
}

/// Common verdict. Returns the accepted value (None on rejection / known finding).
fn judge<const B: usize, const L: usize>(
    rec: &mut Rec,
    cx: &Cx,
    out: Result<Result<(Uint<B, L>, Option<usize>), String>, Pan>,
    r: &Ref,
    input: &dyn Fn() -> String,
) -> Result<Option<BigUint>, Fail> {
    let ck = cx.check;
    rec.eval(1);
    // reference verdict class
    let exp = match (&r.exp, cx.strict) {
        (Exp::Val { canon: false, .. }, true) => Exp::Must("noncanonical"),
        (e, _) => e.clone(),
    };
    rec.class(match &exp {
        Exp::Val { canon: true, .. } => cls(ck, "ref", "value"),
        Exp::Val { canon: false, .. } => cls(ck, "ref", "value_noncanonical_lenient"),
        Exp::Range { .. } => cls(ck, "ref", "range"),
        Exp::Must(w) => cls(ck, "ref", w),
        Exp::Either => cls(ck, "ref", "either"),
    });
    let (v, consumed) = match out {
        Err(p) => {
            if !in_ruint(&p.file) {
                rec.class(cls(ck, "out", "panic_outside_ruint"));
                return Ok(None);
            }
            rec.class(cls(ck, "out", "panic_in_ruint"));
            let kind = panic_kind(&p.msg);
            let (check, class): (&str, String) = if kind == "from_limbs_assert" && p.file.ends_with("bytes.rs") && fast_path_width(B) {
                (cx.via, "panic:slice_fast_path".into())
            } else if let Some((_, name)) = cx.hint.filter(|(k, _)| *k == kind) {
                (ck, format!("panic:{name}"))
            } else {
                (ck, format!("panic:{kind}"))
            };
            rec.fail(check, &class, format!("[{ck}] panic `{}` at {}:{} on input {}", p.msg, p.file, p.line, input()))?;
            return Ok(None);
        }
        Ok(Err(_)) => {
            rec.class(cls(ck, "out", "rejected"));
            return Ok(None);
        }
        Ok(Ok(x)) => x,
    };
    rec.class(cls(ck, "out", "accepted"));
    let got = num(&v);
    if !is_canonical(&v) || !fits(&got, B) {
        rec.fail(ck, "noncanonical_value", format!("accepted value {} has bits above BITS={B}; input {}", hex(&got), input()))?;
        return Ok(None);
    }
    match &exp {
        Exp::Val { v: e, consumed: ec, .. } => {
            if &got != e {
                rec.fail(ck, "value_wrong", format!("accepted {} but the input denotes {}; input {}", hex(&got), hex(e), input()))?;
                return Ok(None);
            }
            if let (Some(a), Some(b)) = (consumed, ec) {
                if a != *b {
                    rec.fail(ck, "consumed_wrong", format!("consumed {a} bytes, the encoding has {b}; input {}", input()))?;
                    return Ok(None);
                }
            }
        }
        Exp::Range { lo, hi } => {
            if &got < lo || &got > hi {
                rec.fail(ck, "value_wrong", format!("accepted {} outside {}..={}; input {}", hex(&got), hex(lo), hex(hi), input()))?;
                return Ok(None);
            }
        }
        Exp::Must(why) => {
            rec.fail(ck, &format!("accepted_{why}"), format!("accepted {} but the input is {why}; input {}", hex(&got), input()))?;
            return Ok(None);
        }
        Exp::Either => {}
    }
    Ok(Some(got))
}

/// Generator class bookkeeping + non-trivial rule + sample.
const RANDOM: u64 = 999;
fn book(rec: &mut Rec, rule: &'static str, c: &Case, r: &Ref, show: &dyn Fn() -> Value) {
    let g = c.n.first().copied().unwrap_or(0);
    rec.class(cls(rule, "gen", if g == 0 { "valid" } else if g == RANDOM { "random" } else { "mutated" }));
    if g != 0 && g != RANDOM {
        rec.class(cls(rule, "mut", &g.to_string()));
    }
    if g != RANDOM && r.past {
        rec.nontrivial(&(&c.b, &c.n, &c.s, &c.l));
    }
    rec.sample(|| show());
}

// ===========================================================================
// 3. Small byte helpers
// ===========================================================================

fn be_val(b: &[u8]) -> BigUint {
    BigUint::from_bytes_be(b)
}
fn le_val(b: &[u8]) -> BigUint {
    BigUint::from_bytes_le(b)
}
/// minimal big-endian bytes (empty for zero)
fn min_be(v: &BigUint) -> Vec<u8> {
    if v.is_zero() {
        vec![]
    } else {
        v.to_bytes_be()
    }
}
fn pad_left(p: &[u8], n: usize) -> Vec<u8> {
    let mut o = vec![0u8; n.saturating_sub(p.len())];
    o.extend_from_slice(p);
    o
}
fn rev(p: &[u8]) -> Vec<u8> {
    let mut o = p.to_vec();
    o.reverse();
    o
}
fn hx(b: &[u8]) -> String {
    hex_bytes(b)
}

// ===========================================================================
// 4. Reference encoders / decoders (written from the format definitions)
// ===========================================================================

// ---- RLP -------------------------------------------------------------------

fn rlp_enc(p: &[u8]) -> Vec<u8> {
    if p.len() == 1 && p[0] < 0x80 {
        return vec![p[0]];
    }
    let mut o = vec![];
    if p.len() <= 55 {
        o.push(0x80 + p.len() as u8);
    } else {
        let lb = min_be(&BigUint::from(p.len()));
        o.push(0xb7 + lb.len() as u8);
        o.extend_from_slice(&lb);
    }
    o.extend_from_slice(p);
    o
}

struct RlpItem {
    list: bool,
    hdr: usize,
    len: usize,
    noncanon_hdr: bool,
}

fn rlp_header(inp: &[u8]) -> Result<RlpItem, &'static str> {
    let b = *inp.first().ok_or("truncated")?;
    let (list, hdr, len, nc) = if b < 0x80 {
        (false, 0usize, 1u64, false)
    } else if b <= 0xb7 {
        (false, 1, (b - 0x80) as u64, false)
    } else if b <= 0xbf || b >= 0xf8 {
        let list = b >= 0xf8;
        let lol = (b - if list { 0xf7 } else { 0xb7 }) as usize;
        if inp.len() < 1 + lol {
            return Err("truncated");
        }
        let lb = &inp[1..1 + lol];
        let mut len = 0u64;
        for x in lb {
            len = (len << 8) | *x as u64;
        }
        (list, 1 + lol, len, lb[0] == 0 || len < 56)
    } else {
        (true, 1, (b - 0xc0) as u64, false)
    };
    if ((inp.len() - hdr) as u64) < len {
        return Err("truncated");
    }
    Ok(RlpItem { list, hdr, len: len as usize, noncanon_hdr: nc })
}

/// `exact_len`: Some(n) for the `Bits` decoder of the parity crate (payload must be n bytes).
fn rlp_ref(inp: &[u8], bits: usize) -> Ref {
    let it = match rlp_header(inp) {
        Err(w) => return rf(Exp::Must(w), false),
        Ok(i) => i,
    };
    if it.list {
        return rf(Exp::Must("list_tag"), true);
    }
    let p = &inp[it.hdr..it.hdr + it.len];
    let noncanon = it.noncanon_hdr || (it.hdr == 1 && it.len == 1 && p[0] < 0x80) || (!p.is_empty() && p[0] == 0);
    let v = be_val(p);
    rf(val_or_oor(v, bits, Some(it.hdr + it.len), !noncanon), true)
}

// ---- SCALE compact ----------------------------------------------------------

fn compact_enc(v: &BigUint) -> Vec<u8> {
    if v.bits() <= 6 {
        vec![(v.to_u64().unwrap() as u8) << 2]
    } else if v.bits() <= 14 {
        (((v.to_u64().unwrap() as u16) << 2) | 1).to_le_bytes().to_vec()
    } else if v.bits() <= 30 {
        (((v.to_u64().unwrap() as u32) << 2) | 2).to_le_bytes().to_vec()
    } else {
        let mut le = v.to_bytes_le();
        le.truncate(67);
        let mut o = vec![(((le.len() - 4) as u8) << 2) | 3];
        o.extend_from_slice(&le);
        o
    }
}

/// (value, bytes consumed, canonical)
fn compact_parse(inp: &[u8]) -> Result<(BigUint, usize, bool), &'static str> {
    let p = *inp.first().ok_or("truncated")?;
    match p & 3 {
        0 => Ok((BigUint::from(p >> 2), 1, true)),
        1 => {
            if inp.len() < 2 {
                return Err("truncated");
            }
            let v = u16::from_le_bytes([inp[0], inp[1]]) >> 2;
            Ok((BigUint::from(v), 2, v > 63))
        }
        2 => {
            if inp.len() < 4 {
                return Err("truncated");
            }
            let v = u32::from_le_bytes([inp[0], inp[1], inp[2], inp[3]]) >> 2;
            Ok((BigUint::from(v), 4, v > 0x3fff))
        }
        _ => {
            let n = (p >> 2) as usize + 4;
            if inp.len() < 1 + n {
                return Err("truncated");
            }
            let v = le_val(&inp[1..1 + n]);
            let canon = inp[n] != 0 && v.bits() > 30;
            Ok((v, 1 + n, canon))
        }
    }
}

fn scale_compact_ref(inp: &[u8], bits: usize) -> Ref {
    match compact_parse(inp) {
        Err(w) => rf(Exp::Must(w), false),
        Ok((v, n, canon)) => rf(val_or_oor(v, bits, Some(n), canon), true),
    }
}

fn scale_fixed_ref(inp: &[u8], bits: usize) -> Ref {
    let (len, hdr, canon) = match compact_parse(inp) {
        Err(w) => return rf(Exp::Must(w), false),
        Ok(x) => x,
    };
    let rest = inp.len() - hdr;
    if len > BigUint::from(rest) {
        return rf(Exp::Must("truncated"), true);
    }
    let len = len.to_usize().unwrap();
    let v = le_val(&inp[hdr..hdr + len]);
    rf(val_or_oor(v, bits, Some(hdr + len), canon), true)
}

// ---- DER INTEGER -------------------------------------------------------------

fn der_content(p: &[u8]) -> Vec<u8> {
    let mut c = vec![];
    if p.first().copied().unwrap_or(0x80) >= 0x80 {
        c.push(0);
    }
    c.extend_from_slice(p);
    c
}

fn der_len(n: usize) -> Vec<u8> {
    if n < 0x80 {
        vec![n as u8]
    } else {
        let lb = min_be(&BigUint::from(n));
        let mut o = vec![0x80 | lb.len() as u8];
        o.extend_from_slice(&lb);
        o
    }
}

fn der_enc(p: &[u8]) -> Vec<u8> {
    let c = der_content(p);
    let mut o = vec![0x02];
    o.extend_from_slice(&der_len(c.len()));
    o.extend_from_slice(&c);
    o
}

/// content octets of an INTEGER -> expectation (canonical two's complement, non-negative)
fn der_content_ref(c: &[u8], bits: usize, consumed: Option<usize>) -> Exp {
    match c {
        [] => Exp::Must("malformed_header"),
        [0, b, ..] if *b < 0x80 => Exp::Must("noncanonical"),
        [b, ..] if *b >= 0x80 => Exp::Must("negative"),
        _ => val_or_oor(be_val(c), bits, consumed, true),
    }
}

fn der_ref(inp: &[u8], bits: usize) -> Ref {
    if inp.is_empty() {
        return rf(Exp::Must("truncated"), false);
    }
    if inp[0] != 0x02 {
        return rf(Exp::Must("malformed_header"), false);
    }
    let Some(&l0) = inp.get(1) else { return rf(Exp::Must("truncated"), false) };
    let (hdr, len) = if l0 < 0x80 {
        (2usize, l0 as usize)
    } else {
        // long / indefinite / reserved forms: a content of < 128 bytes must use the short
        // form, a content of >= 128 bytes cannot be a canonical value of any tested width.
        let n = (l0 & 0x7f) as usize;
        if n == 0 || n > 8 {
            return rf(Exp::Must("malformed_header"), false);
        }
        if inp.len() < 2 + n {
            return rf(Exp::Must("truncated"), false);
        }
        return rf(Exp::Must("noncanonical"), false);
    };
    if inp.len() - hdr < len {
        return rf(Exp::Must("truncated"), true);
    }
    if inp.len() - hdr > len {
        return rf(Exp::Must("trailing"), true);
    }
    rf(der_content_ref(&inp[hdr..hdr + len], bits, Some(hdr + len)), true)
}

// ---- text: from_str / from_str_radix ----------------------------------------

fn ref_from_str_radix(s: &str, radix: u64, bits: usize) -> Exp {
    if !(2..=64).contains(&radix) {
        return Exp::Must("malformed_header");
    }
    let mut v = BigUint::zero();
    for c in s.chars() {
        let d: u64 = if radix <= 36 {
            match c {
                '0'..='9' => c as u64 - '0' as u64,
                'a'..='z' => c as u64 - 'a' as u64 + 10,
                'A'..='Z' => c as u64 - 'A' as u64 + 10,
                '_' => continue,
                _ => return Exp::Must("invalid_digit"),
            }
        } else {
            match c {
                'A'..='Z' => c as u64 - 'A' as u64,
                'a'..='z' => c as u64 - 'a' as u64 + 26,
                '0'..='9' => c as u64 - '0' as u64 + 52,
                '+' | '-' => 62,
                '/' | ',' | '_' => 63,
                '=' | '\r' | '\n' => continue,
                _ => return Exp::Must("invalid_digit"),
            }
        };
        if d >= radix {
            return Exp::Must("invalid_digit");
        }
        v = v * radix + d;
        if v.bits() as usize > bits + 64 {
            return Exp::Must("out_of_range"); // (a later invalid digit is also an error)
        }
    }
    val_or_oor(v, bits, None, true)
}

fn ref_from_str(s: &str, bits: usize) -> Exp {
    let (rest, radix) = match s.get(..2) {
        Some("0x") | Some("0X") => (&s[2..], 16),
        Some("0o") | Some("0O") => (&s[2..], 8),
        Some("0b") | Some("0B") => (&s[2..], 2),
        _ => (s, 10),
    };
    ref_from_str_radix(rest, radix, bits)
}

// ---- JSON scanner ------------------------------------------------------------

#[derive(Debug, PartialEq)]
enum Js {
    Str(String),
    UInt(u64),
    /// valid JSON of another type or invalid JSON: must be rejected
    Other,
    /// not UTF-8: no statement
    Unknown,
}

fn json_scan(inp: &[u8]) -> Js {
    let Ok(s) = std::str::from_utf8(inp) else { return Js::Unknown };
    let b: Vec<char> = s.chars().collect();
    let ws = |i: &mut usize| {
        while *i < b.len() && matches!(b[*i], ' ' | '\t' | '\n' | '\r') {
            *i += 1;
        }
    };
    let mut i = 0;
    ws(&mut i);
    if i >= b.len() {
        return Js::Other;
    }
    let res;
    if b[i] == '"' {
        i += 1;
        let mut out = String::new();
        loop {
            if i >= b.len() {
                return Js::Other;
            }
            let c = b[i];
            i += 1;
            match c {
                '"' => break,
                '\\' => {
                    if i >= b.len() {
                        return Js::Other;
                    }
                    let e = b[i];
                    i += 1;
                    match e {
                        '"' => out.push('"'),
                        '\\' => out.push('\\'),
                        '/' => out.push('/'),
                        'b' => out.push('\u{8}'),
                        'f' => out.push('\u{c}'),
                        'n' => out.push('\n'),
                        'r' => out.push('\r'),
                        't' => out.push('\t'),
                        'u' => {
                            let h4 = |i: &mut usize| -> Option<u32> {
                                if *i + 4 > b.len() {
                                    return None;
                                }
                                let mut x = 0u32;
                                for k in 0..4 {
                                    x = x * 16 + b[*i + k].to_digit(16)?;
                                }
                                *i += 4;
                                Some(x)
                            };
                            let Some(u) = h4(&mut i) else { return Js::Other };
                            if (0xd800..0xdc00).contains(&u) {
                                if i + 2 > b.len() || b[i] != '\\' || b[i + 1] != 'u' {
                                    return Js::Other;
                                }
                                i += 2;
                                let Some(lo) = h4(&mut i) else { return Js::Other };
                                if !(0xdc00..0xe000).contains(&lo) {
                                    return Js::Other;
                                }
                                let cp = 0x10000 + ((u - 0xd800) << 10) + (lo - 0xdc00);
                                match char::from_u32(cp) {
                                    Some(ch) => out.push(ch),
                                    None => return Js::Other,
                                }
                            } else if (0xdc00..0xe000).contains(&u) {
                                return Js::Other;
                            } else {
                                out.push(char::from_u32(u).unwrap());
                            }
                        }
                        _ => return Js::Other,
                    }
                }
                c if (c as u32) < 0x20 => return Js::Other,
                c => out.push(c),
            }
        }
        res = Js::Str(out);
    } else if b[i].is_ascii_digit() || b[i] == '-' {
        let st = i;
        let neg = b[i] == '-';
        if neg {
            i += 1;
        }
        let d0 = i;
        while i < b.len() && b[i].is_ascii_digit() {
            i += 1;
        }
        if i == d0 || (b[d0] == '0' && i - d0 > 1) {
            return Js::Other;
        }
        let int_end = i;
        let mut plain = !neg;
        if i < b.len() && b[i] == '.' {
            plain = false;
            i += 1;
            let f0 = i;
            while i < b.len() && b[i].is_ascii_digit() {
                i += 1;
            }
            if i == f0 {
                return Js::Other;
            }
        }
        if i < b.len() && (b[i] == 'e' || b[i] == 'E') {
            plain = false;
            i += 1;
            if i < b.len() && (b[i] == '+' || b[i] == '-') {
                i += 1;
            }
            let e0 = i;
            while i < b.len() && b[i].is_ascii_digit() {
                i += 1;
            }
            if i == e0 {
                return Js::Other;
            }
        }
        res = if plain {
            let t: String = b[st..int_end].iter().collect();
            match t.parse::<u64>() {
                Ok(x) => Js::UInt(x),
                Err(_) => Js::Other, // parsed as a float by serde_json: wrong type
            }
        } else {
            Js::Other
        };
    } else {
        return Js::Other;
    }
    ws(&mut i);
    if i != b.len() {
        return Js::Other;
    }
    res
}

fn json_ref(inp: &[u8], bits: usize) -> Ref {
    match json_scan(inp) {
        Js::Unknown => rf(Exp::Either, false),
        Js::Other => rf(Exp::Must("malformed_header"), false),
        Js::UInt(x) => rf(val_or_oor(BigUint::from(x), bits, None, true), true),
        Js::Str(s) => rf(ref_from_str(&s, bits), true),
    }
}

// ---- Postgres binary formats -------------------------------------------------

use postgres_types::Type as PgType;

const PG_TYPES: [(&str, PgType); 17] = [
    ("pg_bool", PgType::BOOL),
    ("pg_int2", PgType::INT2),
    ("pg_int4", PgType::INT4),
    ("pg_int8", PgType::INT8),
    ("pg_oid", PgType::OID),
    ("pg_money", PgType::MONEY),
    ("pg_float4", PgType::FLOAT4),
    ("pg_float8", PgType::FLOAT8),
    ("pg_bytea", PgType::BYTEA),
    ("pg_bit", PgType::BIT),
    ("pg_varbit", PgType::VARBIT),
    ("pg_char", PgType::CHAR),
    ("pg_text", PgType::TEXT),
    ("pg_varchar", PgType::VARCHAR),
    ("pg_json", PgType::JSON),
    ("pg_jsonb", PgType::JSONB),
    ("pg_numeric", PgType::NUMERIC),
];
const T_BOOL: usize = 0;
const T_INT2: usize = 1;
const T_INT4: usize = 2;
const T_INT8: usize = 3;
const T_OID: usize = 4;
const T_MONEY: usize = 5;
const T_FLOAT4: usize = 6;
const T_FLOAT8: usize = 7;
const T_BYTEA: usize = 8;
const T_BIT: usize = 9;
const T_VARBIT: usize = 10;
const T_CHAR: usize = 11;
const T_TEXT: usize = 12;
const T_VARCHAR: usize = 13;
const T_JSON: usize = 14;
const T_JSONB: usize = 15;
const T_NUMERIC: usize = 16;

fn pg_int_ref(raw: &[u8], n: usize, signed: bool, bits: usize) -> Ref {
    if raw.len() != n {
        return rf(Exp::Must(if raw.len() < n { "truncated" } else { "malformed_header" }), false);
    }
    if signed && raw[0] >= 0x80 {
        return rf(Exp::Must("negative"), true);
    }
    rf(val_or_oor(be_val(raw), bits, None, true), true)
}

fn pg_float_ref(x: f64, bits: usize) -> Exp {
    if !x.is_finite() {
        return Exp::Must("malformed_header");
    }
    if x <= -1.0 {
        return Exp::Must("negative");
    }
    if x >= (bits as f64).exp2() + 1.0 {
        return Exp::Must("out_of_range");
    }
    // the conversion rounds; any of floor-1 ..= floor+1 is tolerated here (exact
    // rounding is C18's subject), but the result must stay below 2^BITS (common check).
    let fl = num_traits::FromPrimitive::from_f64(x.max(0.0).floor()).unwrap_or_else(BigUint::zero);
    let fl: BigUint = fl;
    let lo = if fl.is_zero() { fl.clone() } else { &fl - 1u32 };
    Exp::Range { lo, hi: fl + 1u32 }
}

fn pg_bit_ref(raw: &[u8], bits: usize) -> Ref {
    if raw.len() < 4 {
        return rf(Exp::Must("truncated"), false);
    }
    let n = i32::from_be_bytes([raw[0], raw[1], raw[2], raw[3]]);
    if n < 0 {
        return rf(Exp::Must("malformed_header"), false);
    }
    let n = n as usize;
    let p = &raw[4..];
    if p.len() != (n + 7) / 8 {
        return rf(Exp::Must("inconsistent_header"), true);
    }
    let pad = (8 - n % 8) % 8;
    // non-zero padding bits are tolerated (lenient by definition): only the first n bits count
    let v = be_val(p) >> pad;
    rf(val_or_oor(v, bits, None, true), true)
}

fn pg_numeric_ref(raw: &[u8], bits: usize) -> Ref {
    if raw.len() < 8 {
        return rf(Exp::Must("truncated"), false);
    }
    let f = |i: usize| i16::from_be_bytes([raw[i], raw[i + 1]]);
    let (nd, w, sign, _dscale) = (f(0), f(2), f(4) as u16, f(6));
    if nd < 0 {
        return rf(Exp::Must("malformed_header"), false);
    }
    let p = &raw[8..];
    if p.len() != nd as usize * 2 {
        return rf(Exp::Must("inconsistent_header"), true);
    }
    let ds: Vec<i16> = p.chunks(2).map(|c| i16::from_be_bytes([c[0], c[1]])).collect();
    if ds.iter().any(|d| !(0..10000).contains(d)) {
        return rf(Exp::Must("invalid_digit"), true);
    }
    if sign != 0 && sign != 0x4000 {
        return rf(Exp::Must("malformed_header"), true); // NaN / infinities / garbage
    }
    // position i has weight w - i
    let nz: Vec<(i64, i16)> = ds.iter().enumerate().filter(|(_, d)| **d != 0).map(|(i, d)| (w as i64 - i as i64, *d)).collect();
    if nz.is_empty() {
        return rf(if sign == 0 { Exp::Val { v: BigUint::zero(), consumed: None, canon: true } } else { Exp::Either }, true);
    }
    if sign != 0 {
        return rf(Exp::Must("negative"), true);
    }
    if nz.iter().any(|(e, _)| *e < 0) {
        return rf(Exp::Must("not_integer"), true);
    }
    let top = nz[0].0;
    if top * 13 > bits as i64 + 16 {
        return rf(Exp::Must("out_of_range"), true); // 10000^top >= 2^(13 top)
    }
    let mut v = BigUint::zero();
    let base = BigUint::from(10000u32);
    for (e, d) in &nz {
        v += BigUint::from(*d as u32) * base.pow(*e as u32);
    }
    rf(val_or_oor(v, bits, None, true), true)
}

/// JSON / JSONB as the module documents it: a (quoted) string in the serde text form.
/// Unquoted text is tolerated (lenient, counted).
fn pg_json_ref(raw: &[u8], jsonb: bool, bits: usize) -> Ref {
    let raw = if jsonb {
        match raw.first() {
            None => return rf(Exp::Must("truncated"), false),
            Some(1) => &raw[1..],
            Some(_) => return rf(Exp::Must("malformed_header"), false),
        }
    } else {
        raw
    };
    let Ok(s) = std::str::from_utf8(raw) else { return rf(Exp::Must("malformed_header"), false) };
    if s == "\"" {
        return rf(Exp::Must("malformed_header"), true); // unbalanced quote
    }
    let inner = if s.len() >= 2 && s.starts_with('"') && s.ends_with('"') { &s[1..s.len() - 1] } else { s };
    rf(ref_from_str(inner, bits), true)
}

fn pg_ref(t: usize, raw: &[u8], bits: usize) -> Ref {
    match t {
        T_BOOL => match raw {
            [0] => rf(Exp::Val { v: BigUint::zero(), consumed: None, canon: true }, true),
            [1] => rf(val_or_oor(BigUint::one(), bits, None, true), true),
            _ => rf(Exp::Must("malformed_header"), false),
        },
        T_INT2 => pg_int_ref(raw, 2, true, bits),
        T_INT4 => pg_int_ref(raw, 4, true, bits),
        T_INT8 => pg_int_ref(raw, 8, true, bits),
        T_OID => pg_int_ref(raw, 4, false, bits),
        T_MONEY => {
            if raw.len() != 8 {
                return rf(Exp::Must(if raw.len() < 8 { "truncated" } else { "malformed_header" }), false);
            }
            let c = i64::from_be_bytes(raw.try_into().unwrap());
            if c <= -100 {
                return rf(Exp::Must("negative"), true);
            }
            if c < 0 {
                return rf(Exp::Either, true);
            }
            let q = BigUint::from((c / 100) as u64);
            if !fits(&q, bits) {
                return rf(Exp::Must("out_of_range"), true);
            }
            if c % 100 == 0 {
                rf(Exp::Val { v: q, consumed: None, canon: true }, true)
            } else {
                rf(Exp::Range { lo: q.clone(), hi: q + 1u32 }, true)
            }
        }
        T_FLOAT4 => {
            if raw.len() != 4 {
                return rf(Exp::Must(if raw.len() < 4 { "truncated" } else { "malformed_header" }), false);
            }
            rf(pg_float_ref(f32::from_be_bytes(raw.try_into().unwrap()) as f64, bits), true)
        }
        T_FLOAT8 => {
            if raw.len() != 8 {
                return rf(Exp::Must(if raw.len() < 8 { "truncated" } else { "malformed_header" }), false);
            }
            rf(pg_float_ref(f64::from_be_bytes(raw.try_into().unwrap()), bits), true)
        }
        T_BYTEA => rf(val_or_oor(be_val(raw), bits, None, true), true),
        T_BIT | T_VARBIT => pg_bit_ref(raw, bits),
        T_CHAR | T_TEXT | T_VARCHAR => match std::str::from_utf8(raw) {
            Err(_) => rf(Exp::Must("malformed_header"), false),
            Ok(s) => rf(ref_from_str(s, bits), true),
        },
        T_JSON => pg_json_ref(raw, false, bits),
        T_JSONB => pg_json_ref(raw, true, bits),
        T_NUMERIC => pg_numeric_ref(raw, bits),
        _ => unreachable!(),
    }
}

// ===========================================================================
// 5. Generators: payload magnitudes, mutation selector, per-format builders
// ===========================================================================

/// A magnitude as minimal big-endian bytes; mostly in range, with the
/// out-of-range shapes the property names (excess high bits in the top byte,
/// all-ones BYTES bytes, 2^BITS + small, longer than BYTES).
fn payload(bits: usize) -> BoxedStrategy<Vec<u8>> {
    let n = nb(bits);
    let canon = uint(bits).prop_map(|l| min_be(&big(&l)));
    let small = prop_oneof![
        Just(0u64), Just(1), Just(0x37), Just(0x38), Just(0x3f), Just(0x40), Just(0x7f), Just(0x80), Just(0xff), Just(0x100),
        Just(0x3fff), Just(0x4000), Just(0x3fff_ffff), Just(0x4000_0000), Just(u32::MAX as u64), Just(u64::MAX >> 8), Just(u64::MAX),
        0u64..300
    ]
    .prop_map(|x| min_be(&BigUint::from(x)));
    let excess = (uint(bits), any::<u16>()).prop_map(move |(l, k)| {
        let hi = 8 * n;
        let k = if hi > bits { bits + (k as usize) % (hi - bits) } else { bits };
        min_be(&(big(&l) | pow2(k)))
    });
    let ones = Just(vec![0xffu8; n]);
    let over = (uint(bits), 0u8..3).prop_map(move |(l, d)| {
        let s = big(&l) >> (bits.saturating_sub(7 * d as usize + 1));
        min_be(&(pow2(bits) + s))
    });
    let longer = (vec(any::<u8>(), n + 1..=n + 8), 1u8..=255).prop_map(|(mut v, t)| {
        v[0] = t;
        v
    });
    let topbit = uint(bits).prop_map(move |l| min_be(&(big(&l) | pow2((8 * n).saturating_sub(1)))));
    // top limb boundary of the whole-limb fast path: full BYTES bytes, top byte random
    let fullrand = (vec(any::<u8>(), n), 1u8..=255).prop_map(|(mut v, t)| {
        if let Some(x) = v.first_mut() {
            *x = t;
        }
        v
    });
    prop_oneof![10 => canon, 3 => small, 3 => excess, 1 => ones, 1 => over, 1 => longer, 1 => topbit, 1 => fullrand].boxed()
}

#[derive(Clone, Debug)]
struct M {
    k: u8,
    a: u64,
    b: u64,
    x: Vec<u8>,
}

fn mutsel() -> BoxedStrategy<M> {
    (prop_oneof![3 => Just(0u8), 13 => 1u8..=240], any::<u64>(), any::<u64>(), vec(any::<u8>(), 1..5))
        .prop_map(|(k, a, b, x)| M { k, a, b, x })
        .boxed()
}

/// mutation index in 0..n (0 = valid)
fn sel(m: &M, n: u8) -> u8 {
    if m.k == 0 {
        0
    } else {
        1 + (m.k - 1) % (n - 1)
    }
}

fn g_trunc(mut v: Vec<u8>, m: &M) -> Vec<u8> {
    if !v.is_empty() {
        let t = 1 + (m.a as usize) % v.len().min(9);
        v.truncate(v.len() - t);
    }
    v
}
fn g_append(mut v: Vec<u8>, m: &M) -> Vec<u8> {
    v.extend_from_slice(&m.x);
    v
}
fn g_replace(mut v: Vec<u8>, m: &M) -> Vec<u8> {
    if !v.is_empty() {
        let i = (m.a as usize) % v.len();
        v[i] = m.b as u8;
    }
    v
}
fn g_flip(mut v: Vec<u8>, m: &M) -> Vec<u8> {
    if !v.is_empty() {
        let i = (m.a as usize) % v.len();
        v[i] ^= 1 << (m.b % 8);
    }
    v
}

type Build = fn(usize, &[u8], &M) -> (Vec<u8>, u64);

fn fmt_strat(bits: usize, build: Build) -> BoxedStrategy<Case> {
    // width 0 has no encodings of its own: generate inputs shaped for 8 bits and feed them to the 0-bit decoders
    let bits = if bits == 0 { 8 } else { bits };
    let structured = (payload(bits), mutsel()).prop_map(move |(p, m)| {
        let (inp, k) = build(bits, &p, &m);
        Case::new().b(inp).n(k)
    });
    let random = bytes_upto(nb(bits) + 16).prop_map(|b| Case::new().b(b).n(RANDOM));
    prop_oneof![9 => structured, 1 => random].boxed()
}

// ---- RLP ----
fn build_rlp(bits: usize, p: &[u8], m: &M) -> (Vec<u8>, u64) {
    let n = nb(bits);
    let k = sel(m, 15);
    let e = rlp_enc(p);
    let v = match k {
        0 => e,
        1 => g_trunc(e, m),
        2 => g_append(e, m),
        3 => rlp_enc(&pad_left(p, p.len() + 1)),
        4 => rlp_enc(&pad_left(p, if p.len() < n { n } else { p.len() + 1 })),
        5 => {
            // length byte +-1 with the same payload
            let l = if m.a & 1 == 0 { p.len() + 1 } else { p.len().saturating_sub(1) };
            let mut h = rlp_enc(&vec![0xaa; l]);
            h.truncate(h.len() - l);
            h.extend_from_slice(p);
            h
        }
        6 => {
            let mut h = vec![if m.a & 1 == 0 { 0xb7 } else { 0x80 + (m.b % 56) as u8 }];
            h.extend_from_slice(p);
            h
        }
        7 => {
            // long form although the length is < 56 (or a 2-byte length for long payloads)
            let mut h = if p.len() < 256 { vec![0xb8, p.len() as u8] } else { vec![0xb9, (p.len() >> 8) as u8, p.len() as u8] };
            h.extend_from_slice(p);
            h
        }
        8 => {
            let mut h = vec![0xb9, 0x00, p.len() as u8];
            h.extend_from_slice(p);
            h
        }
        9 => {
            let lol = 1 + (m.a % 8) as usize;
            let mut h = vec![0xb7 + lol as u8];
            h.extend(std::iter::repeat(if m.b & 1 == 0 { 0xff } else { 0x7f }).take(lol));
            h.extend_from_slice(p);
            h
        }
        10 => {
            // string <-> list tag
            let mut h = e;
            if h[0] >= 0x80 {
                h[0] += 0x40;
            } else {
                h.insert(0, 0xc1);
            }
            h
        }
        11 => {
            let b = if p.len() == 1 && p[0] < 0x80 { p[0] } else { (m.a % 0x80) as u8 };
            vec![0x81, b]
        }
        12 => g_replace(e, m),
        13 => g_flip(e, m),
        _ => {
            // payload of exactly 56 bytes (the short/long boundary) or 55, zero padded
            let l = if m.a & 1 == 0 { 56 } else { 55 };
            rlp_enc(&pad_left(p, l.max(p.len())))
        }
    };
    (v, k as u64)
}

// ---- bincode (u64 LE length + BYTES big-endian bytes) ----
fn bincode_enc(p: &[u8]) -> Vec<u8> {
    let mut o = (p.len() as u64).to_le_bytes().to_vec();
    o.extend_from_slice(p);
    o
}
fn build_bincode(bits: usize, p: &[u8], m: &M) -> (Vec<u8>, u64) {
    let n = nb(bits);
    let k = sel(m, 11);
    let full = pad_left(p, n);
    let e = bincode_enc(&full);
    let with_len = |l: u64, body: &[u8]| {
        let mut o = l.to_le_bytes().to_vec();
        o.extend_from_slice(body);
        o
    };
    let v = match k {
        0 => e,
        1 => g_trunc(e, m),
        2 => g_append(e, m),
        3 => with_len(if m.a & 1 == 0 { full.len() as u64 + 1 } else { full.len() as u64 - 1 }, &full),
        4 => with_len([0, 1, n as u64 - 1, n as u64 + 1, 1 << 32, 1 << 63, u64::MAX, u32::MAX as u64][(m.a % 8) as usize], &full),
        5 => bincode_enc(p),
        6 => bincode_enc(&pad_left(p, n.max(p.len()) + 1)),
        7 => g_replace(e, m),
        8 => g_flip(e, m),
        9 => e[..(m.a % 8) as usize].to_vec(),
        _ => {
            // flip a bit of the top payload byte
            let mut e = e;
            e[8] ^= 1 << (m.b % 8);
            e
        }
    };
    (v, k as u64)
}

// ---- SSZ / borsh: BYTES little-endian bytes ----
fn build_le_fixed(bits: usize, p: &[u8], m: &M) -> (Vec<u8>, u64) {
    let n = nb(bits);
    let k = sel(m, 9);
    let e = rev(&pad_left(p, n));
    let v = match k {
        0 => e,
        1 => g_trunc(e, m),
        2 => g_append(e, m),
        3 => vec![],
        4 => g_replace(e, m),
        5 => g_flip(e, m),
        6 => {
            let mut e = e;
            let l = e.len();
            e[l - 1] ^= 1 << (m.b % 8);
            e
        }
        7 => rev(p),
        _ => {
            let mut e = e;
            e.truncate(n);
            if n > 0 {
                e[n - 1] |= 0x80;
            }
            e
        }
    };
    (v, k as u64)
}

// ---- SCALE "fixed": compact length + little-endian bytes ----
fn build_scale_fixed(bits: usize, p: &[u8], m: &M) -> (Vec<u8>, u64) {
    let n = nb(bits);
    let k = sel(m, 13);
    let full = rev(&pad_left(p, n));
    let enc = |l: u64, body: &[u8]| {
        let mut o = compact_enc(&BigUint::from(l));
        o.extend_from_slice(body);
        o
    };
    let e = enc(full.len() as u64, &full);
    let v = match k {
        0 => e,
        1 => g_trunc(e, m),
        2 => g_append(e, m),
        3 => enc(if m.a & 1 == 0 { full.len() as u64 + 1 } else { full.len() as u64 - 1 }, &full),
        4 => enc([0, 1, 63, 64, 1 << 14, 1 << 20, 1 << 30, u32::MAX as u64][(m.a % 8) as usize], &full),
        5 => {
            // SCALE mode bits of the length prefix changed
            let mut e = e;
            e[0] ^= 1 + (m.a % 3) as u8;
            e
        }
        6 => enc(p.len() as u64, &rev(p)),
        7 => {
            let f = rev(&pad_left(p, n.max(p.len()) + 1));
            enc(f.len() as u64, &f)
        }
        8 => g_replace(e, m),
        9 => g_flip(e, m),
        10 => {
            // non-canonical length prefix: two-byte mode for a length < 64 / four-byte mode
            let l = full.len() as u32;
            let mut o = if m.a & 1 == 0 { (((l as u16) << 2) | 1).to_le_bytes().to_vec() } else { ((l << 2) | 2).to_le_bytes().to_vec() };
            o.extend_from_slice(&full);
            o
        }
        11 => {
            // big-integer mode length prefix
            let mut o = vec![0x03];
            o.extend_from_slice(&(full.len() as u32).to_le_bytes());
            o.extend_from_slice(&full);
            o
        }
        _ => {
            let mut f = full.clone();
            let l = f.len();
            f[l - 1] ^= 1 << (m.b % 8);
            enc(l as u64, &f)
        }
    };
    (v, k as u64)
}

// ---- SCALE compact ----
fn build_scale_compact(bits: usize, p: &[u8], m: &M) -> (Vec<u8>, u64) {
    let n = nb(bits);
    let k = sel(m, 13);
    let val = be_val(p);
    let e = compact_enc(&val);
    let bigmode = |le: &[u8]| {
        let l = le.len().clamp(4, 67);
        let mut o = vec![(((l - 4) as u8) << 2) | 3];
        let mut body = le.to_vec();
        body.resize(l, 0);
        o.extend_from_slice(&body);
        o
    };
    let v = match k {
        0 => e,
        1 => g_trunc(e, m),
        2 => g_append(e, m),
        3 => {
            let mut e = e;
            e[0] ^= 1 + (m.a % 3) as u8;
            e
        }
        4 => {
            // big-integer mode with a zero most significant byte (non-canonical)
            let mut le = rev(p);
            le.push(0);
            bigmode(&le)
        }
        5 => {
            // value in a wider mode than necessary
            let small = &val % BigUint::from([64u32, 1 << 14, 1 << 30][(m.a % 3) as usize]);
            let x = small.to_u64().unwrap();
            match m.b % 3 {
                0 => (((x as u16) << 2) | 1).to_le_bytes().to_vec(),
                1 => (((x as u32) << 2) | 2).to_le_bytes().to_vec(),
                _ => bigmode(&(x as u32).to_le_bytes()),
            }
        }
        6 => bigmode(&rev(&pad_left(p, n))), // exactly BYTES payload bytes
        7 => {
            // byte count field +-1 with the same payload
            let mut e = bigmode(&rev(p));
            e[0] = if m.a & 1 == 0 { e[0].wrapping_add(4) } else { e[0].wrapping_sub(4) } | 3;
            e
        }
        8 => g_replace(e, m),
        9 => g_flip(e, m),
        10 => {
            // the three primitive arms (4, 8, 16 bytes) with padded / cut payloads
            let l = [4usize, 8, 16][(m.a % 3) as usize];
            let mut le = rev(p);
            le.resize(l, if m.b & 1 == 0 { 0 } else { 0xff });
            bigmode(&le)
        }
        11 => {
            let mut o = vec![0xff];
            let mut le = rev(p);
            le.resize(67, (m.b & 0xff) as u8);
            o.extend_from_slice(&le);
            o
        }
        _ => {
            let mut le = rev(&pad_left(p, n));
            let l = le.len();
            le[l - 1] ^= 1 << (m.b % 8);
            bigmode(&le)
        }
    };
    (v, k as u64)
}

// ---- DER ----
fn build_der(bits: usize, p: &[u8], m: &M) -> (Vec<u8>, u64) {
    let n = nb(bits);
    let k = sel(m, 16);
    let e = der_enc(p);
    let tlv = |c: &[u8]| {
        let mut o = vec![0x02];
        o.extend_from_slice(&der_len(c.len()));
        o.extend_from_slice(c);
        o
    };
    let c = der_content(p);
    let v = match k {
        0 => e,
        1 => g_trunc(e, m),
        2 => g_append(e, m),
        3 => tlv(&pad_left(&c, c.len() + 1)), // sign byte added
        4 => {
            // sign byte removed: content starts with a byte >= 0x80
            let mut q = if p.is_empty() { vec![0x80] } else { p.to_vec() };
            q[0] |= 0x80;
            tlv(&q)
        }
        5 => {
            let mut e = e;
            e[0] = [0x03, 0x04, 0x22, 0x82, 0x01, 0x30, 0x00, 0xff, 0x0a, 0x1f][(m.a % 10) as usize];
            e
        }
        6 => {
            let mut e = e;
            e[1] = if m.a & 1 == 0 { e[1].wrapping_add(1) } else { e[1].wrapping_sub(1) };
            e
        }
        7 => {
            let mut o = vec![0x02, 0x81, c.len() as u8];
            o.extend_from_slice(&c);
            o
        }
        8 => {
            let mut o = vec![0x02];
            o.extend_from_slice(
                [&[0x80u8][..], &[0x82, 0x00, c.len() as u8], &[0x84, 0xff, 0xff, 0xff, 0xff], &[0x7f], &[0x00], &[0x88, 1, 2, 3, 4, 5, 6, 7, 8], &[0xff]]
                    [(m.a % 7) as usize],
            );
            o.extend_from_slice(&c);
            o
        }
        9 => tlv(&{
            let mut q = vec![0xff];
            q.extend_from_slice(&c);
            q
        }),
        10 => vec![0x02, 0x00],
        11 => g_replace(e, m),
        12 => g_flip(e, m),
        13 => tlv(&pad_left(p, n + 1)), // zero padded to BYTES+1
        14 => tlv(&pad_left(p, n)),     // zero padded to BYTES (no guard byte)
        _ => {
            // 00 guard + exactly BYTES bytes with a random top byte
            let mut q = pad_left(p, n);
            q.truncate(n);
            q[0] |= 1 << (m.b % 8);
            q.insert(0, 0);
            tlv(&q)
        }
    };
    (v, k as u64)
}

/// raw content for Int::new / DerUint::new / Any::new; n[1] selects the constructor
fn strat_der_raw(bits: usize) -> BoxedStrategy<Case> {
    // width 0 has no encodings of its own: generate inputs shaped for 8 bits and feed them to the 0-bit decoders
    let bits = if bits == 0 { 8 } else { bits };
    let n = nb(bits);
    let structured = (payload(bits), mutsel(), 0u64..8).prop_map(move |(p, m, ctor)| {
        let k = sel(&m, 9);
        let c = der_content(&p);
        let v = match k {
            0 => c,
            1 => p.clone(),
            2 => pad_left(&p, p.len() + 1 + (m.a % 3) as usize),
            3 => {
                let mut q = vec![0xff; 1 + (m.a % 2) as usize];
                q.extend_from_slice(&p);
                q
            }
            4 => vec![],
            5 => pad_left(&p, n),
            6 => pad_left(&p, n + 1),
            7 => g_flip(c, &m),
            _ => g_trunc(c, &m),
        };
        Case::new().b(v).n(k as u64).n(ctor)
    });
    let random = (bytes_upto(n + 16), 0u64..8).prop_map(|(b, ctor)| Case::new().b(b).n(RANDOM).n(ctor));
    prop_oneof![9 => structured, 1 => random].boxed()
}

// ---- JSON text ----
fn min_hex(p: &[u8]) -> String {
    let h = hx(p);
    let t = h.trim_start_matches('0');
    if t.is_empty() {
        "0".into()
    } else {
        t.into()
    }
}

fn build_json(bits: usize, p: &[u8], m: &M) -> (Vec<u8>, u64) {
    let n = nb(bits);
    let k = sel(m, 24);
    let h = min_hex(p);
    let val = be_val(p);
    let q = |s: &str| format!("\"{s}\"").into_bytes();
    let e = q(&format!("0x{h}"));
    let ins = |s: &str, at: u64, what: &str| {
        let cs: Vec<char> = s.chars().collect();
        let i = (at as usize) % (cs.len() + 1);
        let mut o: String = cs[..i].iter().collect();
        o.push_str(what);
        o.extend(cs[i..].iter());
        o
    };
    let v = match k {
        0 => e,
        1 => g_trunc(e, m),
        2 => g_append(e, m),
        3 => q(&format!("0x{}", h.to_uppercase())),
        4 => q(&format!("0X{h}")),
        5 => q(&h),
        6 => q(&val.to_string()),
        7 => val.to_string().into_bytes(),
        8 => q(&format!("0x{}{h}", "0".repeat(1 + (m.a % 70) as usize))),
        9 => e[..e.len() - 1].to_vec(),
        10 => e[1..].to_vec(),
        11 => [&b"\""[..], &b""[..], &b"\"\""[..], &b"\"0x\""[..], &b"\"0\""[..]][(m.a % 5) as usize].to_vec(),
        12 => {
            let mut o = b" \n\t".to_vec();
            o.extend_from_slice(&e);
            o.extend_from_slice(b"\r ");
            o
        }
        13 => q(&if m.a & 1 == 0 { format!("0b{}", val.to_str_radix(2)) } else { format!("0o{}", val.to_str_radix(8)) }),
        14 => q(&ins(&format!("0x{h}"), m.a, "_")),
        15 => q(&ins(&format!("0x{h}"), m.a, ["g", " ", "-", "+", "x", ".", "\u{e9}", "\u{1f600}"][(m.b % 8) as usize])),
        16 => [
            format!("\"\\u0030x{h}\""),
            format!("\"0\\u0078{h}\""),
            format!("\"0x{h}\\n\""),
            format!("\"\\x30x{h}\""),
            format!("\"0x{h}\\ud800\""),
            format!("\"0x{h}\\\""),
        ][(m.a % 6) as usize]
            .clone()
            .into_bytes(),
        17 => [format!("-{val}"), format!("{val}.0"), format!("{val}e0"), format!("{val}.5"), format!("0{val}"), format!("+{val}")][(m.a % 6) as usize]
            .clone()
            .into_bytes(),
        18 => q(&format!("0x{h}{:x}", m.a % 16)),
        19 => g_replace(e, m),
        20 => [&b"null"[..], b"true", b"[1]", b"{\"a\":1}", b"[\"0x1\"]", b"1 2", b"\"0x1\" \"0x2\""][(m.a % 7) as usize].to_vec(),
        21 => q(&format!("0x{}", hx(&pad_left(p, n)))),
        22 => (m.a >> (m.b % 64)).to_string().into_bytes(),
        _ => q(&ins(&val.to_string(), m.a, ["_", "a", " ", "0", "9"][(m.b % 5) as usize])),
    };
    (v, k as u64)
}

// ---- strings for from_str / from_str_radix: s[0] text, n[1] radix ----
const B64: &[u8; 64] = b"ABCDEFGHIJKLMNOPQRSTUVWXYZabcdefghijklmnopqrstuvwxyz0123456789+/";
const B36: &[u8; 36] = b"0123456789abcdefghijklmnopqrstuvwxyz";

fn digits_text(v: &BigUint, radix: u64, m: &M) -> String {
    let r = radix.clamp(2, 64) as u32;
    let ds = v.to_radix_be(r);
    ds.iter()
        .enumerate()
        .map(|(i, d)| {
            if radix <= 36 {
                let c = B36[*d as usize] as char;
                if (m.b >> (i % 64)) & 1 == 1 {
                    c.to_ascii_uppercase()
                } else {
                    c
                }
            } else {
                B64[*d as usize] as char
            }
        })
        .collect()
}

fn strat_str(bits: usize) -> BoxedStrategy<Case> {
    // width 0 has no encodings of its own: generate inputs shaped for 8 bits and feed them to the 0-bit decoders
    let bits = if bits == 0 { 8 } else { bits };
    let radix = prop_oneof![
        6 => prop_oneof![Just(2u64), Just(8), Just(10), Just(16)],
        3 => prop_oneof![Just(3u64), Just(7), Just(36), Just(37), Just(62), Just(64)],
        1 => prop_oneof![Just(0u64), Just(1), Just(65), Just(u64::MAX), any::<u64>()],
        1 => 2u64..=64,
    ];
    let structured = (payload(bits), mutsel(), radix).prop_map(move |(p, m, radix)| {
        let k = sel(&m, 14);
        let val = be_val(&p);
        let body = digits_text(&val, radix, &m);
        let pre = match radix {
            16 => ["0x", "0X"][(m.a % 2) as usize],
            8 => ["0o", "0O"][(m.a % 2) as usize],
            2 => ["0b", "0B"][(m.a % 2) as usize],
            _ => "",
        };
        let base = if m.a & 4 == 0 { format!("{pre}{body}") } else { body.clone() };
        let ins = |s: &str, at: u64, what: &str| {
            let cs: Vec<char> = s.chars().collect();
            let i = (at as usize) % (cs.len() + 1);
            let mut o: String = cs[..i].iter().collect();
            o.push_str(what);
            o.extend(cs[i..].iter());
            o
        };
        let s = match k {
            0 => base,
            1 => ins(&base, m.a >> 3, "_"),
            // includes the code points whose Unicode case mappings or numeric values collide with
            // ASCII digits and letters (Kelvin sign, dotted/dotless i, long s, full-width and
            // Arabic-Indic digits)
            2 => ins(&base, m.a >> 3, ["g", "z", "Z", " ", "-", "+", ".", "=", "\n", "/", ",", "\u{e9}", "\u{1f600}", "\u{0}", "\u{212a}", "\u{130}", "\u{131}", "\u{17f}", "\u{ff11}", "\u{661}", "\u{ff21}", "\u{ff41}"][(m.b % 22) as usize]),
            3 => {
                // a digit equal to the radix / above it
                let r = radix.clamp(2, 64);
                let c = if r < 36 { B36[r as usize] as char } else if r < 64 { B64[r as usize] as char } else { '!' };
                ins(&base, m.a >> 3, &c.to_string())
            }
            4 => format!("{base}{}", digits_text(&BigUint::from(m.b % radix.clamp(2, 64)), radix, &m)),
            5 => format!("{pre}{}{body}", "0".repeat(1 + (m.b % 80) as usize)),
            6 => String::new(),
            7 => pre.to_string(),
            8 => ins(&base, 1, "\u{e9}"),
            9 => ins(&base, 0, "\u{1f600}"),
            10 => base.chars().rev().collect(),
            11 => format!("{base} "),
            12 => format!("0x{}", min_hex(&p)),
            _ => val.to_string(),
        };
        Case::new().s(s).n(k as u64).n(radix)
    });
    let random = (proptest::string::string_regex("[0-9a-zA-Z_+/=xob\\-\\PC]{0,24}").unwrap(), 0u64..70).prop_map(|(s, r)| Case::new().s(s).n(RANDOM).n(r));
    prop_oneof![9 => structured, 1 => random].boxed()
}

// ---- digit vectors for from_base_le / from_base_be: l[0] digits, n[1] base ----
fn strat_base(bits: usize) -> BoxedStrategy<Case> {
    // width 0 has no encodings of its own: generate inputs shaped for 8 bits and feed them to the 0-bit decoders
    let bits = if bits == 0 { 8 } else { bits };
    let base = prop_oneof![
        6 => prop_oneof![Just(2u64), Just(3), Just(10), Just(16), Just(256), Just(10000), Just(1u64 << 32), Just(1u64 << 63), Just(u64::MAX), Just(u64::MAX - 1)],
        1 => prop_oneof![Just(0u64), Just(1)],
        2 => any::<u64>(),
        1 => 2u64..100,
    ];
    (payload(bits), mutsel(), base)
        .prop_map(move |(p, m, base)| {
            let k = sel(&m, 10);
            let val = be_val(&p);
            // little-endian digits of val
            let mut ds: Vec<u64> = vec![];
            if base >= 2 {
                let mut x = val.clone();
                let bb = BigUint::from(base);
                while !x.is_zero() {
                    ds.push((&x % &bb).to_u64().unwrap());
                    x /= &bb;
                }
            } else {
                ds = p.iter().map(|b| *b as u64).collect();
            }
            match k {
                0 => {}
                1 => ds.push(1 + m.a % base.max(2).saturating_sub(1).max(1)),
                2 => {
                    let i = (m.a as usize) % (ds.len() + 1);
                    ds.insert(i, base);
                }
                3 => {
                    let i = (m.a as usize) % (ds.len() + 1);
                    ds.insert(i, if m.b & 1 == 0 { u64::MAX } else { base.saturating_add(1) });
                }
                4 => ds.extend(std::iter::repeat(0).take(1 + (m.a % 40) as usize)),
                5 => {
                    for _ in 0..1 + m.a % 5 {
                        ds.insert(0, 0);
                    }
                }
                6 => ds.clear(),
                7 => {
                    // overflow far beyond: many top digits
                    ds.extend(std::iter::repeat(base.saturating_sub(1)).take(1 + (m.a % 70) as usize));
                }
                8 => {
                    if !ds.is_empty() {
                        let i = (m.a as usize) % ds.len();
                        ds[i] = m.b % base.max(1);
                    }
                }
                _ => {
                    // zeros, then an invalid digit far behind the overflow point
                    ds.extend(std::iter::repeat(0).take(3));
                    ds.push(base);
                }
            }
            Case::new().l(ds).n(k as u64).n(base)
        })
        .boxed()
}

// ---- BigInt / BigUint: l[0] magnitude limbs, n[1] sign (1 = minus) ----
fn strat_bigint(bits: usize) -> BoxedStrategy<Case> {
    // width 0 has no encodings of its own: generate inputs shaped for 8 bits and feed them to the 0-bit decoders
    let bits = if bits == 0 { 8 } else { bits };
    (payload(bits), 0u8..8, any::<u64>())
        .prop_map(|(p, k, a)| {
            let mut v = be_val(&p);
            let mut g = 0u64;
            let mut sign = 0u64;
            match k {
                0..=3 => {}
                4 => {
                    sign = 1;
                    g = 1;
                }
                5 => {
                    v <<= 64 * (1 + (a % 3) as usize);
                    g = 2;
                }
                6 => {
                    v += BigUint::from(a | 1) << (64 * ((p.len() + 7) / 8));
                    g = 3;
                }
                _ => {
                    v = BigUint::zero();
                    sign = a & 1;
                    g = 4;
                }
            }
            Case::new().l(v.to_u64_digits()).n(g).n(sign)
        })
        .boxed()
}

// ---- raw byte slices for try_from_be_slice / try_from_le_slice ----
fn build_slice(bits: usize, p: &[u8], m: &M) -> (Vec<u8>, u64) {
    let n = nb(bits);
    let k = sel(m, 9);
    let v = match k {
        0 => pad_left(p, n),
        1 => p.to_vec(),
        2 => rev(&pad_left(p, n)),
        3 => rev(p),
        4 => pad_left(p, n.max(p.len()) + 1 + (m.a % 8) as usize),
        5 => g_flip(pad_left(p, n), m),
        6 => g_trunc(pad_left(p, n), m),
        7 => {
            let mut q = rev(&pad_left(p, n));
            q.extend(std::iter::repeat(0).take(1 + (m.a % 8) as usize));
            q
        }
        _ => vec![],
    };
    (v, k as u64)
}

// ---- Postgres: b[0] raw, n[1] type index ----
fn pg_numeric_enc(v: &BigUint) -> (Vec<i16>, i16) {
    // big-endian base-10000 digits, weight of the first digit, trailing zeros trimmed
    let mut ds: Vec<i16> = vec![];
    let mut x = v.clone();
    let b = BigUint::from(10000u32);
    while !x.is_zero() {
        ds.push((&x % &b).to_u64().unwrap() as i16);
        x /= &b;
    }
    ds.reverse();
    let w = ds.len().saturating_sub(1) as i16;
    while ds.last() == Some(&0) {
        ds.pop();
    }
    (ds, w)
}

fn pg_numeric_bytes(nd: i16, w: i16, sign: i16, dscale: i16, ds: &[i16]) -> Vec<u8> {
    let mut o = vec![];
    for x in [nd, w, sign, dscale] {
        o.extend_from_slice(&x.to_be_bytes());
    }
    for d in ds {
        o.extend_from_slice(&d.to_be_bytes());
    }
    o
}

fn pg_bit_bytes(nbits: i32, body: &[u8]) -> Vec<u8> {
    let mut o = nbits.to_be_bytes().to_vec();
    o.extend_from_slice(body);
    o
}

/// the first `nbits` bits (MSB first) hold `v` (low nbits bits of it)
fn pg_bit_body(v: &BigUint, nbits: usize) -> Vec<u8> {
    let l = (nbits + 7) / 8;
    let pad = (8 - nbits % 8) % 8;
    let x = (v & mask_big(nbits)) << pad;
    pad_left(&min_be(&x), l)
}

const SPECIAL_I16: [i16; 8] = [0, -1, i16::MAX, i16::MIN, 1, 2, 0x4000, 10000];

fn build_pg(t: usize, bits: usize, p: &[u8], m: &M) -> (Vec<u8>, u64) {
    let n = nb(bits);
    let val = be_val(p);
    let low = |k: usize| -> Vec<u8> {
        // low k bytes of the payload, right aligned
        let f = pad_left(p, k);
        f[f.len() - k..].to_vec()
    };
    match t {
        T_BOOL => {
            let k = sel(m, 4);
            let v = match k {
                0 => vec![(m.a & 1) as u8],
                1 => vec![2 + (m.a % 254) as u8],
                2 => vec![],
                _ => vec![(m.a & 1) as u8, (m.b & 1) as u8],
            };
            (v, k as u64)
        }
        T_INT2 | T_INT4 | T_INT8 | T_OID => {
            let w = match t {
                T_INT2 => 2,
                T_INT8 => 8,
                _ => 4,
            };
            let k = sel(m, 8);
            let mut e = low(w);
            if t != T_OID && k == 0 {
                e[0] &= 0x7f;
            }
            let v = match k {
                0 => e,
                1 => g_trunc(e, m),
                2 => g_append(e, m),
                3 => {
                    e[0] |= 0x80; // negative (or >= 2^31 for OID)
                    e
                }
                4 => vec![0xff; w],
                5 => {
                    let mut e = vec![0xff; w];
                    e[0] = 0x7f;
                    e
                }
                6 => {
                    // around 2^BITS for narrow types
                    let x = (pow2(bits.min(8 * w - 1)) + BigUint::from(m.a % 3)) - 1u32;
                    let f = pad_left(&min_be(&x), w);
                    f[f.len() - w..].to_vec()
                }
                _ => vec![],
            };
            (v, k as u64)
        }
        T_MONEY => {
            let k = sel(m, 8);
            let units = (&val % BigUint::from(i64::MAX as u64 / 100)).to_u64().unwrap() as i64;
            let c: i64 = match k {
                0 => units * 100,
                1 => units * 100 + 1 + (m.a % 99) as i64,
                2 => -(units * 100),
                3 => -((m.a % 100) as i64),
                4 => [i64::MAX, i64::MIN, i64::MAX - 7, -100, -99, -1, 99, 100][(m.a % 8) as usize],
                5 => ((pow2(bits.min(56)) + BigUint::from(m.a % 3)) - 1u32).to_u64().unwrap() as i64 * 100 + (m.b % 100) as i64,
                _ => units * 100,
            };
            let e = c.to_be_bytes().to_vec();
            let v = match k {
                6 => g_trunc(e, m),
                7 => g_append(e, m),
                _ => e,
            };
            (v, k as u64)
        }
        T_FLOAT4 | T_FLOAT8 => {
            let k = sel(m, 12);
            let vf = val.to_f64().unwrap_or(f64::INFINITY);
            let two_b = (bits as f64).exp2();
            let x: f64 = match k {
                0 => vf,
                1 => vf + 0.5,
                2 => vf - 0.5,
                3 => two_b,
                4 => two_b - 1.0,
                5 => f64::from_bits(two_b.to_bits() - 1 - (m.a % 3)),
                6 => f64::from_bits(two_b.to_bits() + 1 + (m.a % 3)),
                7 => [f64::NAN, f64::INFINITY, f64::NEG_INFINITY, -0.0, -1.0, -0.4, 5e-324, 0.49999, 0.5, 1e300, f64::MAX, 1.5, 4503599627370497.0, 9007199254740993.0]
                    [(m.a % 14) as usize],
                8 => -vf,
                9 => f64::from_bits(m.a),
                _ => vf,
            };
            let e = if t == T_FLOAT4 {
                if k == 9 { f32::from_bits(m.a as u32) } else { x as f32 }.to_be_bytes().to_vec()
            } else {
                x.to_be_bytes().to_vec()
            };
            let v = match k {
                10 => g_trunc(e, m),
                11 => g_append(e, m),
                _ => e,
            };
            (v, k as u64)
        }
        T_BYTEA => {
            let (v, k) = build_slice(bits, p, m);
            // only the big-endian shapes make sense here; the others are just more inputs
            (v, k)
        }
        T_BIT | T_VARBIT => {
            let k = sel(m, 14);
            let nbits = if t == T_BIT || m.a & 3 != 0 { bits } else { (m.a >> 2) as usize % (bits + 9) };
            let body = pg_bit_body(&val, nbits);
            let e = pg_bit_bytes(nbits as i32, &body);
            let v = match k {
                0 => e,
                1 => g_trunc(e, m),
                2 => g_append(e, m),
                3 => pg_bit_bytes([0, -1, i32::MAX, i16::MAX as i32, i32::MIN, 1, 7, 8][(m.a % 8) as usize], &body),
                4 => pg_bit_bytes(nbits as i32 + [1i32, -1, 8, -8, 7, -7][(m.a % 6) as usize], &body),
                5 => pg_bit_bytes(nbits as i32, &[]), // header only, no data
                6 => pg_bit_bytes(1 + (m.a % (bits as u64 + 8)) as i32, &[]),
                7 => {
                    // non-zero padding bits
                    let mut b = body.clone();
                    let pad = (8 - nbits % 8) % 8;
                    if let Some(l) = b.last_mut() {
                        if pad > 0 {
                            *l |= ((1u16 << pad) - 1) as u8 & (m.b as u8 | 1);
                        }
                    }
                    pg_bit_bytes(nbits as i32, &b)
                }
                8 => {
                    // full BYTES bytes, bit length 8*BYTES, top bits from the payload (may exceed BITS)
                    pg_bit_bytes(8 * n as i32, &pad_left(p, n))
                }
                9 => e[..(m.a % 4) as usize].to_vec(),
                10 => g_replace(e, m),
                11 => g_flip(e, m),
                12 => {
                    // out-of-range value in a wider bit string
                    let nb2 = bits + 1 + (m.a % 16) as usize;
                    pg_bit_bytes(nb2 as i32, &pg_bit_body(&(val.clone() | pow2(nb2 - 1)), nb2))
                }
                _ => pg_bit_bytes(0, &body),
            };
            (v, k as u64)
        }
        T_CHAR | T_TEXT | T_VARCHAR => {
            let k = sel(m, 10);
            let h = min_hex(p);
            let s = format!("0x{h}");
            let v = match k {
                0 => s.into_bytes(),
                1 => val.to_string().into_bytes(),
                2 => format!("0X{}", h.to_uppercase()).into_bytes(),
                3 => h.into_bytes(),
                4 => g_trunc(s.into_bytes(), m),
                5 => g_append(s.into_bytes(), m),
                6 => g_replace(s.into_bytes(), m),
                7 => {
                    let mut b = s.into_bytes();
                    b.insert((m.a as usize) % (b.len() + 1), [0xff, 0xc3, 0x80, 0xe2][(m.b % 4) as usize]);
                    b
                }
                8 => format!("0x{h}{:x}", m.a % 16).into_bytes(),
                _ => vec![],
            };
            (v, k as u64)
        }
        T_JSON | T_JSONB => {
            let k = sel(m, 16);
            let h = min_hex(p);
            let q = format!("\"0x{h}\"");
            let body: Vec<u8> = match k {
                0 | 10 | 11 | 12 => q.clone().into_bytes(),
                1 => g_trunc(q.into_bytes(), m),
                2 => g_append(q.into_bytes(), m),
                3 => b"\"".to_vec(),
                4 => vec![],
                5 => q[..q.len() - 1].as_bytes().to_vec(),
                6 => q[1..].as_bytes().to_vec(),
                7 => format!("0x{h}").into_bytes(),
                8 => val.to_string().into_bytes(),
                9 => format!("\"{val}\"").into_bytes(),
                13 => g_replace(q.into_bytes(), m),
                14 => format!("\"0x{h}{:x}\"", m.a % 16).into_bytes(),
                _ => [&b"\"\""[..], b"\"\"\"", b"null", b" \"0x1\"", b"\"\\u0030\"", b"\"0x\""][(m.a % 6) as usize].to_vec(),
            };
            let v = if t == T_JSONB {
                match k {
                    10 => body, // version byte missing
                    11 => {
                        let mut o = vec![[0u8, 2, 0xff, b'"'][(m.a % 4) as usize]];
                        o.extend_from_slice(&body);
                        o
                    }
                    12 => vec![1],
                    _ => {
                        let mut o = vec![1u8];
                        o.extend_from_slice(&body);
                        o
                    }
                }
            } else {
                body
            };
            (v, k as u64)
        }
        T_NUMERIC => {
            let k = sel(m, 20);
            let (ds, w) = pg_numeric_enc(&val);
            let nd = ds.len() as i16;
            let sp = SPECIAL_I16[(m.a % 8) as usize];
            let e = pg_numeric_bytes(nd, w, 0, 0, &ds);
            let v = match k {
                0 => e,
                1 => g_trunc(e, m),
                2 => g_append(e, m),
                3 => pg_numeric_bytes(sp, w, 0, 0, &ds),
                4 => pg_numeric_bytes(nd + if m.a & 1 == 0 { 1 } else { -1 }, w, 0, 0, &ds),
                5 => pg_numeric_bytes(nd, sp, 0, 0, &ds),
                6 => pg_numeric_bytes(nd, w.wrapping_add(if m.a & 1 == 0 { 1 } else { -1 }), 0, 0, &ds),
                7 => pg_numeric_bytes(nd, w, [0x4000u16 as i16, 0xc000u16 as i16, 0xd000u16 as i16, 0xf000u16 as i16, 1, -1, i16::MAX, 0x2000][(m.a % 8) as usize], 0, &ds),
                8 => pg_numeric_bytes(nd, w, 0, sp, &ds),
                9 => {
                    let mut d = ds.clone();
                    if !d.is_empty() {
                        let i = (m.b as usize) % d.len();
                        d[i] = [10000, -1, i16::MAX, i16::MIN, 9999, 10001][(m.a % 6) as usize];
                    }
                    pg_numeric_bytes(nd, w, 0, 0, &d)
                }
                10 => e[..(m.a % 8) as usize].to_vec(),
                11 => {
                    // a leading zero digit (ndigits + 1, weight + 1): same value
                    let mut d = vec![0i16];
                    d.extend_from_slice(&ds);
                    pg_numeric_bytes(nd + 1, w.wrapping_add(1), 0, 0, &d)
                }
                12 => {
                    // trailing zero digits kept
                    let mut d = ds.clone();
                    d.resize(w as usize + 1, 0);
                    pg_numeric_bytes(d.len() as i16, w, 0, 0, &d)
                }
                13 => {
                    // fractional digit appended
                    let mut d = ds.clone();
                    d.resize(w as usize + 1, 0);
                    d.push((m.a % 10000) as i16);
                    pg_numeric_bytes(d.len() as i16, w, 0, (m.b % 5) as i16, &d)
                }
                14 => pg_numeric_bytes(nd, i16::MAX, 0, 0, &ds),
                15 => pg_numeric_bytes(0, sp, 0, 0, &[]),
                16 => {
                    // value scaled by 10000^j (weight raised): overflow boundary
                    pg_numeric_bytes(nd, w.saturating_add(1 + (m.a % 4) as i16), 0, 0, &ds)
                }
                17 => g_replace(e, m),
                18 => g_flip(e, m),
                _ => {
                    let mut e = e;
                    e.pop();
                    e
                }
            };
            (v, k as u64)
        }
        _ => unreachable!(),
    }
}

fn strat_pg(bits: usize, types: &'static [usize]) -> BoxedStrategy<Case> {
    // width 0 has no encodings of its own: generate inputs shaped for 8 bits and feed them to the 0-bit decoders
    let bits = if bits == 0 { 8 } else { bits };
    let n = nb(bits);
    let structured = (payload(bits), mutsel(), 0..types.len()).prop_map(move |(p, m, ti)| {
        let t = types[ti];
        let (raw, k) = build_pg(t, bits, &p, &m);
        Case::new().b(raw).n(k).n(t as u64)
    });
    let random = (bytes_upto(n + 16), 0..types.len()).prop_map(move |(b, ti)| Case::new().b(b).n(RANDOM).n(types[ti] as u64));
    prop_oneof![9 => structured, 1 => random].boxed()
}

// ===========================================================================
// 6. Rule bodies (one per decoder family)
// ===========================================================================

type U<const B: usize, const L: usize> = Uint<B, L>;
type Out<const B: usize, const L: usize> = Result<Result<(U<B, L>, Option<usize>), String>, Pan>;

/// run a whole-input decoder
fn whole<const B: usize, const L: usize, E: std::fmt::Debug>(f: impl FnOnce() -> Result<U<B, L>, E>) -> Out<B, L> {
    catch_loc(|| f().map(|v| (v, None)).map_err(|e| format!("{e:?}")))
}

/// run a streaming decoder over `inp`, reporting the consumed length
fn stream<const B: usize, const L: usize, E: std::fmt::Debug>(inp: &[u8], f: impl FnOnce(&mut &[u8]) -> Result<U<B, L>, E>) -> Out<B, L> {
    catch_loc(|| {
        let mut s = inp;
        let r = f(&mut s);
        let used = inp.len() - s.len();
        r.map(|v| (v, Some(used))).map_err(|e| format!("{e:?}"))
    })
}

/// Container shapes: the input under test is the LAST element of a container whose leading bytes
/// (`prefix`: a length / tag and valid all-zero elements) are valid; the outcome is that of the last
/// element, with the consumed length counted from the start of `inp`. Every other element must be zero.
fn stream_last<const B: usize, const L: usize, E: std::fmt::Debug>(prefix: &[u8], inp: &[u8], f: impl FnOnce(&mut &[u8]) -> Result<Vec<U<B, L>>, E>) -> Out<B, L> {
    catch_loc(|| {
        let buf = [prefix, inp].concat();
        let mut s = &buf[..];
        let r = f(&mut s);
        let used = buf.len() - s.len();
        match r {
            Ok(v) => {
                let (last, init) = v.split_last().expect("container decoded to no element (harness bug)");
                if init.iter().any(|x| x.as_limbs().iter().any(|l| *l != 0)) {
                    return Err("leading zero element decoded to a non-zero value".to_string());
                }
                Ok((*last, used.checked_sub(prefix.len())))
            }
            Err(e) => Err(format!("{e:?}")),
        }
    })
}

fn show_ref(r: &Ref) -> String {
    match &r.exp {
        Exp::Val { v, consumed, canon } => format!("value {} consumed {:?} canonical {}", hex(v), consumed, canon),
        Exp::Range { lo, hi } => format!("range {}..={}", hex(lo), hex(hi)),
        Exp::Must(w) => format!("must reject: {w}"),
        Exp::Either => "either".into(),
    }
}

/// the accepted encoding of a canonical-form decoder must be the reference encoding of its value
fn reencode(rec: &mut Rec, check: &str, inp: &[u8], r: &Ref, got: &Option<BigUint>, enc: fn(&[u8]) -> Vec<u8>) -> R {
    if let (Some(v), Exp::Val { consumed: Some(n), .. }) = (got, &r.exp) {
        let e = enc(&min_be(v));
        rec.ensure(check, "reencode_mismatch", e[..] == inp[..*n], || format!("accepted {} re-encodes to {} but consumed {}", hex(v), hx(&e), hx(&inp[..*n])))?;
    }
    Ok(())
}

// ---- try_from_be_slice / try_from_le_slice ----
fn body_slice<const B: usize, const L: usize>(c: &Case, rec: &mut Rec) -> R {
    let inp = &c.b[0];
    let mk_ref = |v: BigUint| {
        if !fits(&v, B) {
            rf(Exp::Must("out_of_range"), true)
        } else if inp.len() > nb(B) {
            // "must be at most BYTES long": rejecting is documented, the value is still compared
            rf(Exp::Val { v, consumed: None, canon: false }, true)
        } else {
            rf(Exp::Val { v, consumed: None, canon: true }, true)
        }
    };
    let rb = mk_ref(be_val(inp));
    let rl = mk_ref(le_val(inp));
    book(rec, "slice", c, &rb, &|| json!({"input": hx(inp), "be_ref": show_ref(&rb), "le_ref": show_ref(&rl)}));
    rec.class_if(inp.len() == nb(B), "slice:len==BYTES");
    let inp_s = || hx(inp);
    let o = whole(|| U::<B, L>::try_from_be_slice(inp).ok_or("None"));
    judge(rec, &Cx { check: "try_from_be_slice", via: "try_from_be_slice", strict: false, hint: None }, o, &rb, &inp_s)?;
    let o = whole(|| U::<B, L>::try_from_le_slice(inp).ok_or("None"));
    judge(rec, &Cx { check: "try_from_le_slice", via: "try_from_le_slice", strict: false, hint: None }, o, &rl, &inp_s)?;
    Ok(())
}

// ---- from_str / from_str_radix ----
fn body_str<const B: usize, const L: usize>(c: &Case, rec: &mut Rec) -> R {
    let s = &c.s[0];
    let radix = c.n[1];
    let r1 = rf(ref_from_str(s, B), true);
    let r2 = rf(ref_from_str_radix(s, radix, B), (2..=64).contains(&radix));
    book(rec, "str", c, &r1, &|| json!({"input": s, "radix": radix, "from_str_ref": show_ref(&r1), "from_str_radix_ref": show_ref(&r2)}));
    let inp_s = || format!("{s:?} radix {radix}");
    let o = whole(|| s.parse::<U<B, L>>());
    judge(rec, &Cx { check: "from_str", via: "", strict: false, hint: None }, o, &r1, &inp_s)?;
    let o = whole(|| U::<B, L>::from_str_radix(s, radix));
    judge(rec, &Cx { check: "from_str_radix", via: "", strict: false, hint: None }, o, &r2, &inp_s)?;
    Ok(())
}

// ---- from_base_le / from_base_be ----
fn base_ref(ds: &[u64], base: u64, bits: usize) -> Ref {
    // ds: most significant first
    if base < 2 {
        return rf(Exp::Must("malformed_header"), false);
    }
    if ds.iter().any(|d| *d >= base) {
        return rf(Exp::Must("invalid_digit"), true);
    }
    let mut v = BigUint::zero();
    let mut over = false;
    for d in ds {
        v = v * base + *d;
        if v.bits() as usize > bits + 64 {
            over = true;
            break;
        }
    }
    if over {
        return rf(Exp::Must("out_of_range"), true);
    }
    rf(val_or_oor(v, bits, None, true), true)
}

fn body_base<const B: usize, const L: usize>(c: &Case, rec: &mut Rec) -> R {
    let ds = &c.l[0];
    let base = c.n[1];
    let rbe = base_ref(ds, base, B);
    let rle = base_ref(&ds.iter().rev().copied().collect::<Vec<_>>(), base, B);
    book(rec, "base", c, &rle, &|| json!({"digits_le": ds.iter().map(|d| d.to_string()).collect::<Vec<_>>(), "base": base.to_string(), "le_ref": show_ref(&rle)}));
    let inp_s = || format!("digits {ds:?} base {base}");
    let o = whole(|| U::<B, L>::from_base_le(base, ds.iter().copied()));
    judge(rec, &Cx { check: "from_base_le", via: "", strict: false, hint: None }, o, &rle, &inp_s)?;
    let o = whole(|| U::<B, L>::from_base_be(base, ds.iter().copied()));
    judge(rec, &Cx { check: "from_base_be", via: "", strict: false, hint: None }, o, &rbe, &inp_s)?;
    Ok(())
}

// ---- TryFrom<BigUint> / TryFrom<BigInt> ----
fn body_bigint<const B: usize, const L: usize>(c: &Case, rec: &mut Rec) -> R {
    let mag = big(&c.l[0]);
    let minus = c.n[1] == 1 && !mag.is_zero();
    let ru = rf(val_or_oor(mag.clone(), B, None, true), true);
    let ri = if minus { rf(Exp::Must("negative"), true) } else { ru.clone() };
    book(rec, "bigint", c, &ri, &|| json!({"magnitude": hex(&mag), "minus": minus, "ref": show_ref(&ri)}));
    let inp_s = || format!("{}{}", if minus { "-" } else { "" }, hex(&mag));
    let cx = |check: &'static str| Cx { check, via: "", strict: false, hint: None };
    let o = whole(|| U::<B, L>::try_from(mag.clone()).map_err(|e| e.to_string()));
    judge(rec, &cx("try_from_biguint"), o, &ru, &inp_s)?;
    let o = whole(|| U::<B, L>::try_from(&mag).map_err(|e| e.to_string()));
    judge(rec, &cx("try_from_biguint_ref"), o, &ru, &inp_s)?;
    let bi = BigInt::from_biguint(if minus { num_bigint::Sign::Minus } else { num_bigint::Sign::Plus }, mag.clone());
    let o = whole(|| U::<B, L>::try_from(bi.clone()).map_err(|e| e.to_string()));
    judge(rec, &cx("try_from_bigint"), o, &ri, &inp_s)?;
    let o = whole(|| U::<B, L>::try_from(&bi).map_err(|e| e.to_string()));
    judge(rec, &cx("try_from_bigint_ref"), o, &ri, &inp_s)?;
    Ok(())
}

// ---- serde_json (human readable) ----
fn body_json<const B: usize, const L: usize>(c: &Case, rec: &mut Rec) -> R {
    let inp = &c.b[0];
    let r = json_ref(inp, B);
    book(rec, "json", c, &r, &|| json!({"input": String::from_utf8_lossy(inp), "ref": show_ref(&r)}));
    let inp_s = || format!("{:?}", String::from_utf8_lossy(inp));
    let o = whole(|| serde_json::from_slice::<U<B, L>>(inp).map_err(|e| e.to_string()));
    judge(rec, &Cx { check: "json", via: "", strict: false, hint: None }, o, &r, &inp_s)?;
    let o = whole(|| serde_json::from_slice::<Bits<B, L>>(inp).map(|b| b.into_inner()).map_err(|e| e.to_string()));
    judge(rec, &Cx { check: "json_bits", via: "", strict: false, hint: None }, o, &r, &inp_s)?;
    if let Ok(s) = std::str::from_utf8(inp) {
        let o = whole(|| serde_json::from_str::<U<B, L>>(s).map_err(|e| e.to_string()));
        judge(rec, &Cx { check: "json_str", via: "", strict: false, hint: None }, o, &r, &inp_s)?;
    }
    Ok(())
}

// ---- bincode (binary serde) ----
fn bincode_ref(inp: &[u8], bits: usize) -> Ref {
    if inp.len() < 8 {
        return rf(Exp::Must("truncated"), false);
    }
    let len = u64::from_le_bytes(inp[..8].try_into().unwrap());
    if len > (inp.len() - 8) as u64 {
        return rf(Exp::Must("truncated"), true);
    }
    let p = &inp[8..8 + len as usize];
    // a length other than BYTES is rejected by the visitor; the reference only states the value
    rf(val_or_oor(be_val(p), bits, None, p.len() == nb(bits)), true)
}

fn body_bincode<const B: usize, const L: usize>(c: &Case, rec: &mut Rec) -> R {
    let inp = &c.b[0];
    let r = bincode_ref(inp, B);
    book(rec, "bincode", c, &r, &|| json!({"input": hx(inp), "ref": show_ref(&r)}));
    let inp_s = || hx(inp);
    let o = whole(|| bincode::deserialize::<U<B, L>>(inp).map_err(|e| e.to_string()));
    judge(rec, &Cx { check: "bincode", via: "try_from_be_slice", strict: false, hint: None }, o, &r, &inp_s)?;
    let o = whole(|| bincode::deserialize::<Bits<B, L>>(inp).map(|b| b.into_inner()).map_err(|e| e.to_string()));
    judge(rec, &Cx { check: "bincode_bits", via: "try_from_be_slice", strict: false, hint: None }, o, &r, &inp_s)?;
    Ok(())
}

// ---- RLP: parity rlp (lenient), alloy-rlp, fastrlp 0.3 / 0.4 (canonical) ----
fn body_rlp<const B: usize, const L: usize>(c: &Case, rec: &mut Rec) -> R {
    let inp = &c.b[0];
    let mut r = rlp_ref(inp, B);
    // the parity crate's API is a view: trailing bytes are ignored and no length is reported
    if let Exp::Val { consumed, .. } = &mut r.exp {
        *consumed = None;
    }
    book(rec, "rlp", c, &r, &|| json!({"input": hx(inp), "ref": show_ref(&r)}));
    let inp_s = || hx(inp);
    let o = whole(|| rlp::decode::<U<B, L>>(inp));
    judge(rec, &Cx { check: "rlp", via: "try_from_be_slice", strict: false, hint: None }, o, &r, &inp_s)?;
    let o = whole(|| rlp::decode::<Bits<B, L>>(inp).map(|b| b.into_inner()));
    judge(rec, &Cx { check: "rlp_bits", via: "try_from_be_slice", strict: false, hint: None }, o, &r, &inp_s)?;
    Ok(())
}

fn body_alloy_rlp<const B: usize, const L: usize>(c: &Case, rec: &mut Rec) -> R {
    let inp = &c.b[0];
    let r = rlp_ref(inp, B);
    book(rec, "alloy_rlp", c, &r, &|| json!({"input": hx(inp), "ref": show_ref(&r)}));
    let inp_s = || hx(inp);
    let o = stream(inp, |s| <U<B, L> as alloy_rlp::Decodable>::decode(s));
    let got = judge(rec, &Cx { check: "alloy_rlp", via: "try_from_be_slice", strict: true, hint: None }, o, &r, &inp_s)?;
    reencode(rec, "alloy_rlp", inp, &r, &got, rlp_enc)
}

fn body_fastrlp03<const B: usize, const L: usize>(c: &Case, rec: &mut Rec) -> R {
    let inp = &c.b[0];
    let r = rlp_ref(inp, B);
    book(rec, "fastrlp03", c, &r, &|| json!({"input": hx(inp), "ref": show_ref(&r)}));
    let inp_s = || hx(inp);
    let o = stream(inp, |s| <U<B, L> as fastrlp_03::Decodable>::decode(s));
    let got = judge(rec, &Cx { check: "fastrlp03", via: "try_from_be_slice", strict: true, hint: None }, o, &r, &inp_s)?;
    reencode(rec, "fastrlp03", inp, &r, &got, rlp_enc)
}

fn body_fastrlp04<const B: usize, const L: usize>(c: &Case, rec: &mut Rec) -> R {
    let inp = &c.b[0];
    let r = rlp_ref(inp, B);
    book(rec, "fastrlp04", c, &r, &|| json!({"input": hx(inp), "ref": show_ref(&r)}));
    let inp_s = || hx(inp);
    let o = stream(inp, |s| <U<B, L> as fastrlp_04::Decodable>::decode(s));
    let got = judge(rec, &Cx { check: "fastrlp04", via: "try_from_be_slice", strict: true, hint: None }, o, &r, &inp_s)?;
    reencode(rec, "fastrlp04", inp, &r, &got, rlp_enc)
}

// ---- SCALE ----
fn body_scale_fixed<const B: usize, const L: usize>(c: &Case, rec: &mut Rec) -> R {
    use parity_scale_codec::Decode;
    let inp = &c.b[0];
    let r = scale_fixed_ref(inp, B);
    book(rec, "scale_fixed", c, &r, &|| json!({"input": hx(inp), "ref": show_ref(&r)}));
    let inp_s = || hx(inp);
    let o = stream(inp, |s| U::<B, L>::decode(s).map_err(|e| e.to_string()));
    judge(rec, &Cx { check: "scale_fixed", via: "try_from_le_slice", strict: false, hint: None }, o, &r, &inp_s)?;
    // container shapes: the element's `decode_into` / `skip` / `encoded_fixed_size` hooks
    let z = parity_scale_codec::Encode::encode(&U::<B, L>::ZERO);
    let o = stream_last(&z, inp, |s| <[U<B, L>; 2]>::decode(s).map(|a| a.to_vec()));
    judge(rec, &Cx { check: "scale_fixed_array2", via: "try_from_le_slice", strict: false, hint: None }, o, &r, &inp_s)?;
    let o = stream_last(&[&[8u8][..], &z[..]].concat(), inp, |s| <Vec<U<B, L>>>::decode(s));
    judge(rec, &Cx { check: "scale_fixed_vec", via: "try_from_le_slice", strict: false, hint: None }, o, &r, &inp_s)?;
    let o = stream_last(&[&z[..], &[1u8][..]].concat(), inp, |s| <(U<B, L>, Option<U<B, L>>)>::decode(s).map(|t| vec![t.0, t.1.unwrap_or_default()]));
    judge(rec, &Cx { check: "scale_fixed_tuple_option", via: "try_from_le_slice", strict: false, hint: None }, o, &r, &inp_s)?;
    Ok(())
}

fn body_scale_compact<const B: usize, const L: usize>(c: &Case, rec: &mut Rec) -> R {
    use parity_scale_codec::Decode;
    use ruint::support::scale::CompactUint;
    let inp = &c.b[0];
    let r = scale_compact_ref(inp, B);
    book(rec, "scale_compact", c, &r, &|| json!({"input": hx(inp), "ref": show_ref(&r)}));
    rec.class_if(!inp.is_empty(), cls("scale_compact", "mode", &(inp.first().copied().unwrap_or(0) & 3).to_string()));
    let inp_s = || hx(inp);
    let o = stream(inp, |s| CompactUint::<B, L>::decode(s).map(|x| x.0).map_err(|e| e.to_string()));
    judge(rec, &Cx { check: "scale_compact", via: "try_from_le_slice", strict: false, hint: None }, o, &r, &inp_s)?;
    Ok(())
}

// ---- SSZ / borsh ----
fn le_fixed_ref(inp: &[u8], bits: usize, whole_input: bool) -> Ref {
    let n = nb(bits);
    if inp.len() < n {
        return rf(Exp::Must("truncated"), true);
    }
    if whole_input && inp.len() > n {
        return rf(Exp::Must("trailing"), true);
    }
    rf(val_or_oor(le_val(&inp[..n]), bits, Some(n), true), true)
}

fn body_ssz<const B: usize, const L: usize>(c: &Case, rec: &mut Rec) -> R {
    let inp = &c.b[0];
    let r = le_fixed_ref(inp, B, true);
    book(rec, "ssz", c, &r, &|| json!({"input": hx(inp), "ref": show_ref(&r)}));
    let inp_s = || hx(inp);
    let o = whole(|| <U<B, L> as ssz::Decode>::from_ssz_bytes(inp));
    judge(rec, &Cx { check: "ssz", via: "try_from_le_slice", strict: false, hint: Some(("value_too_large", "ssz_out_of_range")) }, o, &r, &inp_s)?;
    Ok(())
}

fn body_borsh<const B: usize, const L: usize>(c: &Case, rec: &mut Rec) -> R {
    use borsh::BorshDeserialize;
    let inp = &c.b[0];
    let r = le_fixed_ref(inp, B, false);
    book(rec, "borsh", c, &r, &|| json!({"input": hx(inp), "ref": show_ref(&r)}));
    let inp_s = || hx(inp);
    let o = stream(inp, |s| U::<B, L>::deserialize(s).map_err(|e| e.to_string()));
    judge(rec, &Cx { check: "borsh", via: "try_from_le_slice", strict: false, hint: None }, o, &r, &inp_s)?;
    let o = stream(inp, |s| Bits::<B, L>::deserialize(s).map(|b| b.into_inner()).map_err(|e| e.to_string()));
    judge(rec, &Cx { check: "borsh_bits", via: "try_from_le_slice", strict: false, hint: None }, o, &r, &inp_s)?;
    // whole-input entry point (trailing bytes are the borsh crate's business: no statement on them)
    let mut rw = r.clone();
    if inp.len() > nb(B) {
        rw.exp = match rw.exp {
            Exp::Val { v, .. } => Exp::Val { v, consumed: None, canon: false },
            e => e,
        };
    }
    let o = whole(|| borsh::from_slice::<U<B, L>>(inp).map_err(|e| e.to_string()));
    judge(rec, &Cx { check: "borsh_from_slice", via: "try_from_le_slice", strict: false, hint: None }, o, &rw, &inp_s)?;
    // container shapes: arrays and vectors go through the element type's bulk hooks
    // (`array_from_reader`, `vec_from_reader`), tuples / Option / Box through `deserialize_reader`
    // (not for BITS = 0: borsh itself refuses collections of zero-sized types)
    if B == 0 {
        return Ok(());
    }
    let z = vec![0u8; nb(B)];
    let o = stream_last(&z, inp, |s| <[U<B, L>; 2]>::deserialize(s).map(|a| a.to_vec()));
    judge(rec, &Cx { check: "borsh_array2", via: "try_from_le_slice", strict: false, hint: None }, o, &r, &inp_s)?;
    let o = stream_last(&[z.clone(), z.clone()].concat(), inp, |s| <[U<B, L>; 3]>::deserialize(s).map(|a| a.to_vec()));
    judge(rec, &Cx { check: "borsh_array3", via: "try_from_le_slice", strict: false, hint: None }, o, &r, &inp_s)?;
    let o = stream_last(&[&2u32.to_le_bytes()[..], &z[..]].concat(), inp, |s| <Vec<U<B, L>>>::deserialize(s));
    judge(rec, &Cx { check: "borsh_vec", via: "try_from_le_slice", strict: false, hint: None }, o, &r, &inp_s)?;
    let o = stream_last(&[&z[..], &[1u8][..]].concat(), inp, |s| <(U<B, L>, Option<Box<U<B, L>>>)>::deserialize(s).map(|t| vec![t.0, t.1.map(|b| *b).unwrap_or_default()]));
    judge(rec, &Cx { check: "borsh_tuple_option_box", via: "try_from_le_slice", strict: false, hint: None }, o, &r, &inp_s)?;
    let o = stream_last(&z, inp, |s| <[Bits<B, L>; 2]>::deserialize(s).map(|a| a.iter().map(|b| b.into_inner()).collect()));
    judge(rec, &Cx { check: "borsh_bits_array2", via: "try_from_le_slice", strict: false, hint: None }, o, &r, &inp_s)?;
    Ok(())
}

// ---- DER ----
fn body_der<const B: usize, const L: usize>(c: &Case, rec: &mut Rec) -> R {
    use der::asn1::{Any, AnyRef, Int, IntRef, Uint as DerUint, UintRef};
    use der::Decode;
    let inp = &c.b[0];
    let r = der_ref(inp, B);
    book(rec, "der", c, &r, &|| json!({"input": hx(inp), "ref": show_ref(&r)}));
    let inp_s = || hx(inp);
    let cx = |check: &'static str| Cx { check, via: "try_from_be_slice", strict: true, hint: None };
    let o = whole(|| U::<B, L>::from_der(inp).map_err(|e| e.to_string()));
    let got = judge(rec, &cx("der"), o, &r, &inp_s)?;
    reencode(rec, "der", inp, &r, &got, der_enc)?;
    // conversions from the der crate's own types, parsed by the der crate from the same input;
    // whatever the crate accepted, the conversion result must satisfy the same reference
    macro_rules! conv {
        ($name:literal, $parse:expr, $conv:expr) => {
            match catch_loc(|| $parse) {
                Err(_) => rec.class(cls($name, "out", "codec_panicked")),
                Ok(Err(_)) => rec.class(cls($name, "out", "codec_rejected")),
                Ok(Ok(obj)) => {
                    let o = whole(|| ($conv)(obj).map_err(|e: der::Error| e.to_string()));
                    let got = judge(rec, &cx($name), o, &r, &inp_s)?;
                    reencode(rec, $name, inp, &r, &got, der_enc)?;
                }
            }
        };
    }
    conv!("der_anyref", AnyRef::from_der(inp), |a: AnyRef<'_>| U::<B, L>::try_from(a));
    conv!("der_any", Any::from_der(inp), |a: Any| U::<B, L>::try_from(&a));
    conv!("der_intref", IntRef::from_der(inp), |a: IntRef<'_>| U::<B, L>::try_from(a));
    conv!("der_int", Int::from_der(inp), |a: Int| U::<B, L>::try_from(&a));
    conv!("der_uintref", UintRef::from_der(inp), |a: UintRef<'_>| U::<B, L>::try_from(a));
    conv!("der_uint", DerUint::from_der(inp), |a: DerUint| U::<B, L>::try_from(a));
    Ok(())
}

/// der types built directly from raw content bytes (`Int::new`, `Uint::new`, `Any::new`)
fn body_der_raw<const B: usize, const L: usize>(c: &Case, rec: &mut Rec) -> R {
    use der::asn1::{Any, Int, IntRef, Uint as DerUint, UintRef};
    use der::Tag;
    let raw = &c.b[0];
    let ctor = c.n[1];
    let inp_s = || format!("ctor {ctor} content {}", hx(raw));
    let cx = |check: &'static str, strict: bool| Cx { check, via: "try_from_be_slice", strict, hint: None };
    match ctor {
        0 | 1 => {
            // signed two's complement content (leading 0xff stripped by the constructor)
            // The constructors only strip redundant 0xff bytes of negative numbers; a redundant
            // leading 0x00 reaches ruint, whose DER conversions enforce canonical form
            // (non_canonical_error), so such contents must be rejected like in the Any path.
            let r = if raw.is_empty() { rf(Exp::Either, false) } else { rf(der_content_ref(raw, B, None), true) };
            book(rec, "der_raw", c, &r, &|| json!({"ctor": "Int::new", "content": hx(raw), "ref": show_ref(&r)}));
            if ctor == 0 {
                if let Ok(Ok(x)) = catch_loc(|| Int::new(raw)) {
                    let o = whole(|| U::<B, L>::try_from(&x).map_err(|e| e.to_string()));
                    judge(rec, &cx("der_int_new", false), o, &r, &inp_s)?;
                }
            } else if let Ok(Ok(x)) = catch_loc(|| IntRef::new(raw)) {
                let o = whole(|| U::<B, L>::try_from(x).map_err(|e| e.to_string()));
                judge(rec, &cx("der_intref_new", false), o, &r, &inp_s)?;
            }
        }
        2 | 3 => {
            // unsigned magnitude (leading zeros stripped by the constructor)
            let r = if raw.is_empty() { rf(Exp::Either, false) } else { rf(val_or_oor(be_val(raw), B, None, true), true) };
            book(rec, "der_raw", c, &r, &|| json!({"ctor": "Uint::new", "content": hx(raw), "ref": show_ref(&r)}));
            if ctor == 2 {
                if let Ok(Ok(x)) = catch_loc(|| DerUint::new(raw)) {
                    let o = whole(|| U::<B, L>::try_from(&x).map_err(|e| e.to_string()));
                    judge(rec, &cx("der_uint_new", false), o, &r, &inp_s)?;
                }
            } else if let Ok(Ok(x)) = catch_loc(|| UintRef::new(raw)) {
                let o = whole(|| U::<B, L>::try_from(x).map_err(|e| e.to_string()));
                judge(rec, &cx("der_uintref_new", false), o, &r, &inp_s)?;
            }
        }
        _ => {
            let tag = match ctor {
                4 | 5 | 6 => Tag::Integer,
                _ => [Tag::OctetString, Tag::BitString, Tag::Boolean, Tag::Enumerated, Tag::Sequence, Tag::Null][(raw.len() + raw.first().copied().unwrap_or(0) as usize) % 6],
            };
            let r = if tag == Tag::Integer { rf(der_content_ref(raw, B, None), true) } else { rf(Exp::Must("malformed_header"), false) };
            book(rec, "der_raw", c, &r, &|| json!({"ctor": "Any::new", "tag": format!("{tag:?}"), "content": hx(raw), "ref": show_ref(&r)}));
            if let Ok(Ok(x)) = catch_loc(|| Any::new(tag, raw.as_slice())) {
                let o = whole(|| U::<B, L>::try_from(&x).map_err(|e| e.to_string()));
                judge(rec, &cx("der_any_new", true), o, &r, &inp_s)?;
            }
        }
    }
    Ok(())
}

// ---- Postgres ----
fn body_pg<const B: usize, const L: usize>(c: &Case, rec: &mut Rec) -> R {
    use postgres_types::FromSql;
    let raw = &c.b[0];
    let t = c.n[1] as usize;
    let (name, ty) = &PG_TYPES[t];
    let r = pg_ref(t, raw, B);
    book(rec, "pg", c, &r, &|| json!({"type": name, "input": hx(raw), "ref": show_ref(&r)}));
    rec.class(cls("pg", "type", name));
    // specific root causes get their own class (DESIGN section 6, #14)
    let hint = match t {
        T_JSONB if raw.is_empty() => Some(("index_oob", "pg_jsonb_empty")),
        T_JSON if raw == b"\"" => Some(("str_slice", "pg_json_lone_quote")),
        T_JSONB if raw == b"\x01\"" => Some(("str_slice", "pg_json_lone_quote")),
        T_BIT | T_VARBIT if raw.len() == 4 => Some(("index_oob", "pg_bit_no_data")),
        T_NUMERIC if raw.len() >= 8 && raw[2..4] == i16::MAX.to_be_bytes() => Some(("add_overflow", "pg_numeric_weight_overflow")),
        _ => None,
    };
    // lenient acceptance that is counted, not judged: JSON text without quotes
    if matches!(t, T_JSON | T_JSONB) {
        let body = if t == T_JSONB { raw.get(1..).unwrap_or(&[]) } else { &raw[..] };
        rec.class_if(!body.starts_with(b"\""), "pg:json_unquoted_text(lenient)");
    }
    let inp_s = || format!("{name} {}", hx(raw));
    let o = whole(|| U::<B, L>::from_sql(ty, raw).map_err(|e| e.to_string()));
    judge(rec, &Cx { check: name, via: "try_from_be_slice", strict: false, hint }, o, &r, &inp_s)?;
    Ok(())
}

// ===========================================================================
// 7. Strategies per rule, self-tests, registration
// ===========================================================================

fn strat_slice(bits: usize) -> BoxedStrategy<Case> {
    fmt_strat(bits, build_slice)
}
fn strat_json(bits: usize) -> BoxedStrategy<Case> {
    fmt_strat(bits, build_json)
}
fn strat_bincode(bits: usize) -> BoxedStrategy<Case> {
    fmt_strat(bits, build_bincode)
}
fn strat_rlp(bits: usize) -> BoxedStrategy<Case> {
    fmt_strat(bits, build_rlp)
}
fn strat_scale_fixed(bits: usize) -> BoxedStrategy<Case> {
    fmt_strat(bits, build_scale_fixed)
}
fn strat_scale_compact(bits: usize) -> BoxedStrategy<Case> {
    fmt_strat(bits, build_scale_compact)
}
fn strat_le_fixed(bits: usize) -> BoxedStrategy<Case> {
    fmt_strat(bits, build_le_fixed)
}
fn strat_der(bits: usize) -> BoxedStrategy<Case> {
    fmt_strat(bits, build_der)
}
static PG_INT: [usize; 8] = [T_BOOL, T_INT2, T_INT4, T_INT8, T_OID, T_MONEY, T_FLOAT4, T_FLOAT8];
static PG_BIN: [usize; 3] = [T_BYTEA, T_BIT, T_VARBIT];
static PG_TEXT: [usize; 5] = [T_CHAR, T_TEXT, T_VARCHAR, T_JSON, T_JSONB];
static PG_NUM: [usize; 1] = [T_NUMERIC];
fn strat_pg_int(bits: usize) -> BoxedStrategy<Case> {
    strat_pg(bits, &PG_INT)
}
fn strat_pg_bin(bits: usize) -> BoxedStrategy<Case> {
    strat_pg(bits, &PG_BIN)
}
fn strat_pg_text(bits: usize) -> BoxedStrategy<Case> {
    strat_pg(bits, &PG_TEXT)
}
fn strat_pg_num(bits: usize) -> BoxedStrategy<Case> {
    strat_pg(bits, &PG_NUM)
}

fn expect_val(r: &Ref, v: u128, consumed: Option<usize>, what: &str) {
    match &r.exp {
        Exp::Val { v: got, consumed: c, canon: true } if *got == BigUint::from(v) && (consumed.is_none() || *c == consumed) => {}
        e => harness_error(&format!("self-test {what}: reference says {e:?}, expected value {v:#x} consumed {consumed:?}")),
    }
}

fn self_tests() {
    let vals: Vec<u128> = vec![
        0, 1, 0x37, 0x38, 0x3f, 0x40, 0x7f, 0x80, 0xff, 0x100, 0x3fff, 0x4000, 0x3fff_ffff, 0x4000_0000, u32::MAX as u128, 1 << 32,
        u64::MAX as u128 >> 8, u64::MAX as u128, 1 << 64, (1 << 64) + 1, u128::MAX >> 8, u128::MAX >> 1, u128::MAX, 12345678901234567890123456789,
    ];
    for &v in &vals {
        let p = min_be(&BigUint::from(v));
        // RLP against alloy-rlp / fastrlp / parity rlp encoders of u128 / u64
        let e = rlp_enc(&p);
        if e != alloy_rlp::encode(v) {
            harness_error(&format!("self-test rlp_enc({v:#x}) = {} but alloy-rlp gives {}", hx(&e), hx(&alloy_rlp::encode(v))));
        }
        if v <= u64::MAX as u128 && e != rlp::encode(&(v as u64)).to_vec() {
            harness_error(&format!("self-test rlp_enc({v:#x}) differs from the parity rlp crate"));
        }
        expect_val(&rlp_ref(&e, 128), v, Some(e.len()), "rlp");
        // SCALE compact against parity-scale-codec
        let e = compact_enc(&BigUint::from(v));
        let pe = parity_scale_codec::Encode::encode(&parity_scale_codec::Compact(v));
        if e != pe {
            harness_error(&format!("self-test compact_enc({v:#x}) = {} but parity-scale-codec gives {}", hx(&e), hx(&pe)));
        }
        expect_val(&scale_compact_ref(&e, 128), v, Some(e.len()), "scale compact");
        let le = rev(&pad_left(&p, 16));
        let fe = parity_scale_codec::Encode::encode(&le);
        expect_val(&scale_fixed_ref(&fe, 128), v, Some(fe.len()), "scale fixed");
        // DER against the der crate
        let e = der_enc(&p);
        let de = der::Encode::to_der(&v).unwrap_or_default();
        if e != de {
            harness_error(&format!("self-test der_enc({v:#x}) = {} but the der crate gives {}", hx(&e), hx(&de)));
        }
        expect_val(&der_ref(&e, 128), v, Some(e.len()), "der");
        // bincode framing against bincode's own byte-slice encoding
        let full = pad_left(&p, 16);
        let be = bincode::serialize(&serde_bytes_like(&full)).unwrap();
        if be != bincode_enc(&full) {
            harness_error("self-test bincode framing differs from bincode::serialize of a byte vector");
        }
        expect_val(&bincode_ref(&be, 128), v, None, "bincode");
        // text
        for (s, _) in [(format!("{v}"), 10), (format!("{v:#x}"), 16), (format!("{v:#X}"), 16), (format!("{v:#o}"), 8), (format!("{v:#b}"), 2)] {
            expect_val(&rf(ref_from_str(&s, 128), true), v, None, "from_str");
            expect_val(&json_ref(format!("\"{s}\"").as_bytes(), 128), v, None, "json string");
        }
        expect_val(&rf(ref_from_str_radix(&format!("{v:x}"), 16, 128), true), v, None, "from_str_radix");
        if v <= u64::MAX as u128 {
            expect_val(&json_ref(format!("{v}").as_bytes(), 128), v, None, "json number");
        }
        // postgres NUMERIC / BIT round trip through the harness encoders, INT8 against std
        let (ds, w) = pg_numeric_enc(&BigUint::from(v));
        expect_val(&pg_numeric_ref(&pg_numeric_bytes(ds.len() as i16, w, 0, 0, &ds), 128), v, None, "pg numeric");
        expect_val(&pg_bit_ref(&pg_bit_bytes(128, &pg_bit_body(&BigUint::from(v), 128)), 128), v, None, "pg bit");
        if v <= i64::MAX as u128 {
            expect_val(&pg_ref(T_INT8, &(v as i64).to_be_bytes(), 128), v, None, "pg int8");
        }
    }
    // fixed known vectors
    expect_val(&pg_bit_ref(&[0, 0, 0, 12, 0xab, 0xc0], 64), 0xabc, None, "pg bit vector");
    expect_val(&pg_numeric_ref(&[0, 2, 0, 1, 0, 0, 0, 0, 0, 1, 0x09, 0x29], 64), 12345, None, "pg numeric vector"); // 1 * 10000 + 2345
    if !matches!(rlp_ref(&[0xc2, 1, 2], 64).exp, Exp::Must("list_tag")) || !matches!(rlp_ref(&[0x82, 1], 64).exp, Exp::Must("truncated")) {
        harness_error("self-test rlp_ref list / truncated");
    }
    if !matches!(rlp_ref(&[0x81, 5], 64).exp, Exp::Val { canon: false, .. }) || !matches!(rlp_ref(&[0x82, 0, 5], 64).exp, Exp::Val { canon: false, .. }) {
        harness_error("self-test rlp_ref non-canonical");
    }
    if !matches!(der_ref(&[2, 2, 0, 5], 64).exp, Exp::Must("noncanonical")) || !matches!(der_ref(&[2, 1, 0x80], 64).exp, Exp::Must("negative")) {
        harness_error("self-test der_ref");
    }
    // the JSON scanner against serde_json's own tokenizer on the generator's output
    let mut corpus: Vec<Vec<u8>> = draw(&strat_json(64), 17, 1500).into_iter().map(|c| c.b[0].clone()).collect();
    for s in ["\"\\ud83d\\ude00\"", "\"\\u00e9\"", " 12 ", "1e5", "-0", "01", "\"a\\tb\"", "\"\u{7f}\"", "18446744073709551615", "18446744073709551616"] {
        corpus.push(s.as_bytes().to_vec());
    }
    for inp in &corpus {
        let mine = json_scan(inp);
        let theirs = serde_json::from_slice::<serde_json::Value>(inp);
        let ok = match (&mine, &theirs) {
            (Js::Unknown, _) => true,
            (Js::Str(a), Ok(Value::String(b))) => a == b,
            (Js::UInt(a), Ok(Value::Number(n))) => n.as_u64() == Some(*a),
            (Js::Other, Ok(Value::String(_))) => false,
            (Js::Other, Ok(Value::Number(n))) => !n.is_u64(),
            (Js::Other, _) => true,
            _ => false,
        };
        if !ok {
            harness_error(&format!("self-test json_scan({:?}) = {mine:?} but serde_json says {theirs:?}", String::from_utf8_lossy(inp)));
        }
    }
    // panic attribution
    match catch_loc(|| U::<64, 1>::ZERO.to_base_le(1).count()) {
        Err(p) if in_ruint(&p.file) && p.file.ends_with("base_convert.rs") => {}
        other => harness_error(&format!("self-test panic attribution (ruint): {other:?}")),
    }
    match catch_loc(|| -> u8 { panic!("own") }) {
        Err(p) if !in_ruint(&p.file) => {}
        other => harness_error(&format!("self-test panic attribution (harness): {other:?}")),
    }
    match catch_loc(|| -> bool { bytes::Buf::get_u8(&mut &[][..]) == 0 }) {
        Err(p) if !in_ruint(&p.file) => {}
        other => harness_error(&format!("self-test panic attribution (registry crate): {other:?}")),
    }
}

/// a byte vector that serializes through `serialize_bytes` like ruint's binary form
fn serde_bytes_like(b: &[u8]) -> impl serde::Serialize + '_ {
    struct W<'a>(&'a [u8]);
    impl serde::Serialize for W<'_> {
        fn serialize<S: serde::Serializer>(&self, s: S) -> Result<S::Ok, S::Error> {
            s.serialize_bytes(self.0)
        }
    }
    W(b)
}

macro_rules! w17 {
    ($m:ident ! ( $($pre:tt)* )) => {
        $m!($($pre)* [7, 12, 60, 63, 64, 127, 128, 190, 250, 255, 256, 320, 535])
    };
}

/// tiny widths (below the 6-bit payload of SCALE compact's single-byte mode, below one byte, zero)
macro_rules! w17s {
    ($m:ident ! ( $($pre:tt)* )) => {
        $m!($($pre)* [0, 1, 2, 3, 5, 6])
    };
}

fn main() {
    let spec = PropSpec {
        id: "C17",
        rule_text: "per decoder x width {7,12,60,63,64,127,128,190,250,255,256,320,535}: 9/10 structured inputs = reference encoding of a magnitude (canonical in-range values, boundary values, excess high bits in the top byte, all-ones BYTES bytes, 2^BITS+small, longer than BYTES) with no mutation (3/16) or one single-field mutation (13/16: truncation, appended bytes, length field +-1/special, non-canonical length forms, string<->list tag, leading zero, SCALE mode bits, DER sign byte added/removed / tag / long-form length, Postgres header fields 0/-1/MAX/inconsistent, JSON quotes / prefix / case / escapes / number forms, byte replace, bit flip), 1/10 uniform random strings up to BYTES+16 bytes. Oracle: hand-written reference decoders (RLP, SCALE compact/fixed, DER INTEGER, bincode framing, SSZ/borsh fixed LE, JSON scanner + text parser, Postgres binary formats, base-b digits, BigInt) compared one-directionally on acceptance: no panic raised in ruint sources, accepted value canonical, < 2^BITS and equal to the denoted value, consumed length equal to the encoding length for streaming decoders, must-reject inputs (out of range, truncated, malformed header, and non-canonical for alloy-rlp/fastrlp/DER incl. exact re-encoding) rejected. Non-trivial: structured (valid or mutated-valid) input on which the reference decoder gets past the header; distinct by (rule,width,case).",
        assumptions: vec![
            "num-bigint arithmetic and std formatting are correct (oracle)",
            "the reference codecs are self-tested at start-up against alloy-rlp, parity rlp, parity-scale-codec, der, bincode and serde_json on u64/u128 values",
            "x86-64 little-endian target only",
            "panics located in registry crates or the harness are not attributed to ruint (counted as panic_outside_ruint); a panic located in std is attributed by backtrace to the innermost non-std frame (ruint unless that frame is a registry crate)",
            "acceptance of valid encodings is not required here (C16); lenient forms (parity-rlp leading zeros / single-byte form / trailing bytes, non-canonical SCALE compact, non-zero BIT padding bits, bincode trailing bytes, unquoted Postgres JSON text, over-long zero-padded slices) only have their value compared",
            "float conversions reached through Postgres FLOAT4/FLOAT8 are only required to be within 1 of the input (exact rounding is C18)",
        ],
        thorough_mult: 20,
    };
    main_with(
        spec,
        |jobs, _| {
            install_hook();
            self_tests();
            w17!(reg_gen!(jobs, "slice", 12000, strat_slice, body_slice;));
            w17s!(reg_gen!(jobs, "slice", 3000, strat_slice, body_slice;));
            w17!(reg_gen!(jobs, "str", 12000, strat_str, body_str;));
            w17s!(reg_gen!(jobs, "str", 3000, strat_str, body_str;));
            w17!(reg_gen!(jobs, "base", 9000, strat_base, body_base;));
            w17s!(reg_gen!(jobs, "base", 3000, strat_base, body_base;));
            w17!(reg_gen!(jobs, "bigint", 6000, strat_bigint, body_bigint;));
            w17s!(reg_gen!(jobs, "bigint", 3000, strat_bigint, body_bigint;));
            w17!(reg_gen!(jobs, "json", 12000, strat_json, body_json;));
            w17s!(reg_gen!(jobs, "json", 3000, strat_json, body_json;));
            w17!(reg_gen!(jobs, "bincode", 12000, strat_bincode, body_bincode;));
            w17s!(reg_gen!(jobs, "bincode", 3000, strat_bincode, body_bincode;));
            w17!(reg_gen!(jobs, "rlp", 12000, strat_rlp, body_rlp;));
            w17s!(reg_gen!(jobs, "rlp", 3000, strat_rlp, body_rlp;));
            w17!(reg_gen!(jobs, "alloy_rlp", 12000, strat_rlp, body_alloy_rlp;));
            w17s!(reg_gen!(jobs, "alloy_rlp", 3000, strat_rlp, body_alloy_rlp;));
            w17!(reg_gen!(jobs, "fastrlp03", 12000, strat_rlp, body_fastrlp03;));
            w17s!(reg_gen!(jobs, "fastrlp03", 3000, strat_rlp, body_fastrlp03;));
            w17!(reg_gen!(jobs, "fastrlp04", 12000, strat_rlp, body_fastrlp04;));
            w17s!(reg_gen!(jobs, "fastrlp04", 3000, strat_rlp, body_fastrlp04;));
            w17!(reg_gen!(jobs, "scale_fixed", 12000, strat_scale_fixed, body_scale_fixed;));
            w17s!(reg_gen!(jobs, "scale_fixed", 3000, strat_scale_fixed, body_scale_fixed;));
            w17!(reg_gen!(jobs, "scale_compact", 12000, strat_scale_compact, body_scale_compact;));
            w17s!(reg_gen!(jobs, "scale_compact", 3000, strat_scale_compact, body_scale_compact;));
            w17!(reg_gen!(jobs, "ssz", 12000, strat_le_fixed, body_ssz;));
            w17s!(reg_gen!(jobs, "ssz", 3000, strat_le_fixed, body_ssz;));
            w17!(reg_gen!(jobs, "borsh", 12000, strat_le_fixed, body_borsh;));
            w17s!(reg_gen!(jobs, "borsh", 3000, strat_le_fixed, body_borsh;));
            w17!(reg_gen!(jobs, "der", 12000, strat_der, body_der;));
            w17s!(reg_gen!(jobs, "der", 3000, strat_der, body_der;));
            w17!(reg_gen!(jobs, "der_raw", 9000, strat_der_raw, body_der_raw;));
            w17s!(reg_gen!(jobs, "der_raw", 3000, strat_der_raw, body_der_raw;));
            w17!(reg_gen!(jobs, "pg_int", 24000, strat_pg_int, body_pg;));
            w17s!(reg_gen!(jobs, "pg_int", 3000, strat_pg_int, body_pg;));
            w17!(reg_gen!(jobs, "pg_bin", 18000, strat_pg_bin, body_pg;));
            w17s!(reg_gen!(jobs, "pg_bin", 3000, strat_pg_bin, body_pg;));
            w17!(reg_gen!(jobs, "pg_text", 24000, strat_pg_text, body_pg;));
            w17s!(reg_gen!(jobs, "pg_text", 3000, strat_pg_text, body_pg;));
            w17!(reg_gen!(jobs, "pg_numeric", 12000, strat_pg_num, body_pg;));
            w17s!(reg_gen!(jobs, "pg_numeric", 3000, strat_pg_num, body_pg;));
        },
        |_| Map::new(),
    );
}
