#!/bin/bash
# Re-runs every seeded change against the check of the property it breaks (quick tier).
cd /verif
for d in seeded/*/; do
  id=$(basename $d); prop=${id%%-*}
  [ -f $d/patch.diff ] || continue
  echo -n "$id -> "; tools/mut.py --patch /verif/$d/patch.diff $prop 2>&1 | cut -c1-140 | head -1
done
